"""C09 helpers: independent wire parsing (lxml only), the invocation-state automaton of the statement, the reference model of
the consumer's result handle, and the monitored operation queue.

Nothing in here uses the library's message classes: Set*Response / OperationInvokedReport bodies are read with lxml.
"""
from __future__ import annotations

import queue

from lxml import etree

NS_MSG = 'http://standards.ieee.org/downloads/11073/11073-10207-2017/message'
NS_S12 = 'http://www.w3.org/2003/05/soap-envelope'
NS_WSA = 'http://www.w3.org/2005/08/addressing'

FINAL = ('Fin', 'FinMod', 'Fail', 'Cnclld', 'CnclldMan')
NONFINAL = ('Wait', 'Start')
IMMEDIATE_FINAL_RESPONSE = ('Fail', 'Cnclld', 'CnclldMan')  # consumer completes on the response alone (DESIGN C09 S: accepted)
REQUEST_NAMES = ('SetValue', 'SetString', 'Activate', 'SetContextState', 'SetMetricState', 'SetAlertState', 'SetComponentState')

_PARSER = etree.XMLParser(resolve_entities=False, no_network=True, huge_tree=False)


def _q(ns, name):
    return f'{{{ns}}}{name}'


def _envelope(data: bytes):
    if not data:
        return None
    try:
        root = etree.fromstring(data, _PARSER)
    except etree.XMLSyntaxError:
        return None
    if root.tag != _q(NS_S12, 'Envelope'):
        return None
    return root


def _header_text(root, name):
    el = root.find(f'{_q(NS_S12, "Header")}/{_q(NS_WSA, name)}')
    return None if el is None or el.text is None else el.text.strip()


def _body_child(root):
    body = root.find(_q(NS_S12, 'Body'))
    if body is None or len(body) == 0:
        return None
    return body[0]


def _invocation_info(parent) -> dict | None:
    info = parent.find(_q(NS_MSG, 'InvocationInfo'))
    if info is None:
        return None
    tr = info.find(_q(NS_MSG, 'TransactionId'))
    st = info.find(_q(NS_MSG, 'InvocationState'))
    err = info.find(_q(NS_MSG, 'InvocationError'))
    msgs = [(e.text or '') for e in info.findall(_q(NS_MSG, 'InvocationErrorMessage'))]
    try:
        txid = int(tr.text.strip())
    except (AttributeError, ValueError):
        txid = None
    return {'txid': txid, 'state': None if st is None or st.text is None else st.text.strip(),
            'error': None if err is None or err.text is None else err.text.strip(), 'error_msgs': msgs}


def parse_request(data: bytes) -> dict | None:
    """a Set* / Activate / SetContextState request: {'kind', 'message_id', 'op_handle'}; None for anything else."""
    if not data or b'OperationHandleRef' not in data:
        return None
    root = _envelope(data)
    if root is None:
        return None
    child = _body_child(root)
    if child is None:
        return None
    qn = etree.QName(child)
    if qn.namespace != NS_MSG or qn.localname not in REQUEST_NAMES:
        return None
    ref = child.find(_q(NS_MSG, 'OperationHandleRef'))
    return {'kind': qn.localname, 'message_id': _header_text(root, 'MessageID'),
            'op_handle': None if ref is None or ref.text is None else ref.text.strip()}


def parse_response(data: bytes) -> dict:
    """response of such a request: {'fault': bool, 'kind', 'relates_to', 'txid', 'state', 'error', 'error_msgs'}."""
    root = _envelope(data)
    if root is None:
        return {'fault': True, 'kind': None, 'unparsable': True}
    child = _body_child(root)
    if child is None:
        return {'fault': True, 'kind': None, 'unparsable': True}
    qn = etree.QName(child)
    if qn.namespace == NS_S12 and qn.localname == 'Fault':
        return {'fault': True, 'kind': 'Fault', 'relates_to': _header_text(root, 'RelatesTo')}
    if qn.namespace != NS_MSG or not qn.localname.endswith('Response'):
        return {'fault': True, 'kind': qn.localname, 'unparsable': True}
    info = _invocation_info(child)
    if info is None:
        return {'fault': True, 'kind': qn.localname, 'unparsable': True}
    return {'fault': False, 'kind': qn.localname, 'relates_to': _header_text(root, 'RelatesTo'), **info}


def is_report(data: bytes) -> bool:
    return bool(data) and b'OperationInvokedReport' in data and b'ReportPart' in data


def parse_report(data: bytes) -> list[dict] | None:
    """OperationInvokedReport -> list of parts {'txid','state','error','error_msgs','op_handle','target'}; None if not such a report."""
    if not is_report(data):
        return None
    root = _envelope(data)
    if root is None:
        return None
    child = _body_child(root)
    if child is None or child.tag != _q(NS_MSG, 'OperationInvokedReport'):
        return None
    parts = []
    for rp in child.findall(_q(NS_MSG, 'ReportPart')):
        info = _invocation_info(rp) or {'txid': None, 'state': None, 'error': None, 'error_msgs': []}
        parts.append({**info, 'op_handle': rp.get('OperationHandleRef'), 'target': rp.get('OperationTarget')})
    return parts


def merge_reports(bodies: list[bytes]) -> bytes:
    """one OperationInvokedReport message carrying the ReportParts of all given messages, in the given order."""
    roots = [etree.fromstring(b, _PARSER) for b in bodies]
    first = _body_child(roots[0])
    for other in roots[1:]:
        for rp in _body_child(other).findall(_q(NS_MSG, 'ReportPart')):
            first.append(rp)
    return etree.tostring(roots[0], xml_declaration=True, encoding='UTF-8')


# ---------------------------------------------------------------------------------------------------------------------
# the automaton of the statement
# ---------------------------------------------------------------------------------------------------------------------
def check_sequence(response_state: str | None, report_states: list[str], complete: bool) -> list[tuple[str, str]]:
    """Judge  [response state, report states ...]  of ONE transaction (one subscriber's view).

    Accepted:  Wait(response) [Wait(report)] Start Final   |   Final(response) [same Final(report)].
    ``complete`` = the provider is known to have finished processing the transaction (so a missing final state is decided).
    Returns a list of (mechanism key suffix, text); empty = accepted.
    """
    problems = []
    known = FINAL + NONFINAL
    if response_state not in known:
        return [('unknown_state', f'response carries the invocation state {response_state!r}')]
    for s in report_states:
        if s not in known:
            return [('unknown_state', f'a report carries the invocation state {s!r}')]
    if response_state in FINAL:
        for s in report_states:
            if s in NONFINAL:
                problems.append(('nonfinal_after_final', f'response already {response_state}, but a report says {s}'))
            elif s != response_state:
                problems.append(('final_mismatch', f'response says {response_state}, a report says {s}: two different final states'))
        if len([s for s in report_states if s in FINAL]) > 1:
            problems.append(('final_repeated', f'final state reported {len(report_states)} times after the final response'))
        return problems
    if response_state == 'Start':
        return [('response_start', 'response carries Start (neither Wait nor a final state)')]
    # response == Wait
    seq = list(report_states)
    finals = [i for i, s in enumerate(seq) if s in FINAL]
    if len(finals) > 1:
        kinds = {seq[i] for i in finals}
        problems.append(('final_repeated' if len(kinds) == 1 else 'two_finals', f'more than one final state: {seq}'))
    if finals and finals[0] != len(seq) - 1 and any(s in NONFINAL for s in seq[finals[0] + 1:]):
        problems.append(('nonfinal_after_final', f'a non-final state follows the final state: {seq}'))
    before_final = seq[:finals[0]] if finals else seq
    if 'Start' in before_final and 'Wait' in before_final and before_final.index('Start') < len(before_final) - 1 - before_final[::-1].index('Wait'):
        problems.append(('start_before_wait', f'Start reported before Wait: {seq}'))
    if before_final.count('Wait') > 1:
        problems.append(('wait_repeated', f'Wait reported more than once: {seq}'))
    if before_final.count('Start') > 1:
        problems.append(('start_repeated', f'Start reported more than once: {seq}'))
    if finals and 'Start' not in before_final:
        problems.append(('start_missing', f'final state without Start: {seq}'))
    if complete and not finals:
        problems.append(('no_final', f'processing finished, no final state was reported: response Wait, reports {seq}'))
    return problems


# ---------------------------------------------------------------------------------------------------------------------
# reference model of the consumer-side result handle
# ---------------------------------------------------------------------------------------------------------------------
def consumer_model(own_txid: int, response_state: str, events: list) -> dict:
    """events: delivered items in order, ('R',) for the response or ('P', txid, state, uid) for one report part.

    Returns where the handle must complete and with what: {'at': index of the deciding event | None, 'by': 'response'|'report',
    'state': final state, 'parts': [uid ...]}  (parts = own parts delivered up to the deciding event, in delivery order;
    an immediately final Fail/Cnclld/CnclldMan response completes with whatever the library chooses -> 'parts': None)."""
    r_idx = next(i for i, e in enumerate(events) if e[0] == 'R')
    if response_state in IMMEDIATE_FINAL_RESPONSE:
        return {'at': r_idx, 'by': 'response', 'state': response_state, 'parts': None}
    own_before = [e for e in events[:r_idx] if e[0] == 'P' and e[1] == own_txid]
    finals_before = [e for e in own_before if e[2] in FINAL]
    if finals_before:
        return {'at': r_idx, 'by': 'response', 'state': finals_before[0][2], 'parts': [e[3] for e in own_before]}
    for i in range(r_idx + 1, len(events)):
        e = events[i]
        if e[0] == 'P' and e[1] == own_txid and e[2] in FINAL:
            return {'at': i, 'by': 'report', 'state': e[2],
                    'parts': [x[3] for x in events[:i + 1] if x[0] == 'P' and x[1] == own_txid]}
    return {'at': None, 'by': None, 'state': None, 'parts': None}


# ---------------------------------------------------------------------------------------------------------------------
# monitored operation queue (class of the worker's queue instance is swapped; state and maxsize stay the library's)
# ---------------------------------------------------------------------------------------------------------------------
class MonitoredQueue(queue.Queue):
    """Counts items put / taken and what the worker has completely processed (it came back to ``get``).

    ``vf_fast_full``: a ``put`` with a timeout on a full queue raises ``queue.Full`` at once - the timeout of the library
    (1 s of real time) elapsing while the worker stays blocked, without the wait.

    ``vf_worker_first``: schedule control - the thread that enqueued an operation is not scheduled again before the worker has
    completely processed that item (it came back to ``get``): everything the worker emits for the transaction is on the wire before
    the enqueuing (HTTP) thread executes its next line.  A legal schedule (preemption right after ``put``); decided on the
    item counters, the wall-clock bound only guards against a hang (``vf_worker_first_timeouts``)."""

    vf_put = 0
    vf_taken = 0
    vf_done = 0
    vf_fast_full = False
    vf_full_raised = 0
    vf_worker_first = False
    vf_worker_first_waits = 0
    vf_worker_first_timeouts = 0
    vf_hang_guard_s = 20.0

    def _put(self, item):
        self.vf_put += 1
        super()._put(item)

    def _get(self):
        self.vf_taken += 1
        return super()._get()

    def get(self, block=True, timeout=None):
        with self.mutex:
            self.vf_done = self.vf_taken
        return super().get(block, timeout)

    def put(self, item, block=True, timeout=None):
        if self.vf_fast_full and block and timeout is not None:
            try:
                res = super().put(item, block=False)
            except queue.Full:
                self.vf_full_raised += 1
                raise
        else:
            res = super().put(item, block, timeout)
        if self.vf_worker_first and isinstance(item, tuple):
            self._vf_wait_processed()
        return res

    def _vf_wait_processed(self):
        import time
        with self.mutex:
            mine = self.vf_put  # items are processed in order: once vf_done >= mine, the item of this thread is through
            self.vf_worker_first_waits += 1
        t_end = time.time() + self.vf_hang_guard_s
        while True:
            with self.mutex:
                if self.vf_done >= mine:
                    return
            if time.time() > t_end:
                self.vf_worker_first_timeouts += 1
                return
            time.sleep(0.0002)

    def vf_quiescent(self) -> bool:
        with self.mutex:
            return self.vf_done == self.vf_put
