"""Canonical snapshots of MDIBs and the provider-side version-history oracle (DESIGN 2.2).

canon(obj)   semantic canonical form (nested tuples) of a container / XMLTypeBase value, read through the public descriptors
snap(mdib)   canonical dict of the three tables + version group + index check
History      attached to a ProviderMdib: per-version snapshots, published[(kind, handle, version)] -> content
"""
from __future__ import annotations

import enum
from decimal import Decimal

from lxml import etree

from sdc11073.xml_types import xml_structure as xs

from .tablewalk import index_vs_scan

_TS_PROPS = (xs.TimestampAttributeProperty, xs.CurrentTimestampAttributeProperty)
_DUR_PROPS = (xs.DurationAttributeProperty, xs.NodeDurationProperty)
EXCLUDED = {('ClockStateContainer', 'DateAndTime')}


def canon_value(v, prop=None):
    if prop is not None and v is not None and not isinstance(v, bool):
        if isinstance(prop, _TS_PROPS) and isinstance(v, (int, float, Decimal)):
            return ('ts', int(round(v * 1000)))
        if isinstance(prop, _DUR_PROPS) and isinstance(v, (int, float, Decimal)):
            return ('dur', int(round(float(v) * 1_000_000)))
    if v is None or isinstance(v, (bool, int, str)):
        return v
    if isinstance(v, float):
        return ('f', repr(v))
    if isinstance(v, Decimal):
        if v.is_nan() or v.is_infinite():
            return ('d', str(v))
        n = v.normalize()
        return ('d', str(n if n != 0 else Decimal(0)))
    if isinstance(v, enum.Enum):
        return ('e', v.value)
    if isinstance(v, etree.QName):
        return ('q', v.text)
    if isinstance(v, (list, tuple)):
        return tuple(canon_value(x) for x in v)
    if isinstance(v, etree._Element):
        return ('x', xml_canon(v))
    if hasattr(v, 'sorted_container_properties'):
        return canon(v)
    if isinstance(v, dict):
        return tuple(sorted((repr(k), canon_value(x)) for k, x in v.items()))
    return ('r', str(v))


def xml_canon(elem):
    """prefix-independent canonical form of an lxml element (extension content): Clark tags, sorted attributes, stripped text."""
    if not isinstance(elem.tag, str):  # comment / PI
        return ('#', str(elem.text or '').strip())
    children = tuple(xml_canon(c) for c in elem if isinstance(c.tag, str))
    return (elem.tag, tuple(sorted(elem.attrib.items())), (elem.text or '').strip(), children)


def canon(obj):
    cls_name = type(obj).__name__
    items = []
    for name, prop in obj.sorted_container_properties():
        if (cls_name, name) in EXCLUDED:
            continue
        items.append((name, canon_value(getattr(obj, name), prop)))
    extra = ()
    text = getattr(obj, 'text', None)  # ElementWithText etc.
    if text is not None and not callable(text):
        extra = (('#text', canon_value(text)),)
    return (cls_name, tuple(items) + extra)


def canon_descriptor(d):
    return canon(d) + (('parent', d.parent_handle), ('type', d.NODETYPE.text if d.NODETYPE is not None else None))


def tolerant_equal(a, b) -> bool:
    """structural equality with |dt| <= 1 ms for timestamps and <= 1 us for durations."""
    if a == b:
        return True
    if isinstance(a, tuple) and isinstance(b, tuple):
        if len(a) != len(b):
            return False
        if len(a) == 2 and a[0] == b[0] and a[0] in ('ts', 'dur') and isinstance(a[1], int) and isinstance(b[1], int):
            return abs(a[1] - b[1]) <= 1
        return all(tolerant_equal(x, y) for x, y in zip(a, b))
    return False


def first_difference(a, b, path=''):
    """human-readable path of the first difference between two canonical forms."""
    if tolerant_equal(a, b):
        return None
    if isinstance(a, tuple) and isinstance(b, tuple) and len(a) == len(b):
        # (name, value) pairs?
        for i, (x, y) in enumerate(zip(a, b)):
            if not tolerant_equal(x, y):
                label = x[0] if isinstance(x, tuple) and len(x) == 2 and isinstance(x[0], str) and isinstance(y, tuple) and y and y[0] == x[0] else i
                return first_difference(x, y, f'{path}/{label}')
    return f'{path}: {_short(a)} != {_short(b)}'


def _short(v):
    s = repr(v)
    return s if len(s) < 160 else s[:157] + '...'


# ------------------------------------------------------------------------------------------------
def snap(mdib, with_index_check: bool = True) -> dict:
    """Canonical snapshot; call inside mdib.mdib_lock or at a quiescent point."""
    s = {
        'version': (mdib.mdib_version, mdib.sequence_id, mdib.instance_id),
        'descr': {d.Handle: canon_descriptor(d) for d in mdib.descriptions.objects},
        'states': {},
        'ctx': {},
        'dup': [],
        'src': {d.Handle: d.source_mds for d in mdib.descriptions.objects},
        'hvl': (dict(mdib.descriptions.handle_version_lookup), dict(mdib.states.handle_version_lookup),
                dict(mdib.context_states.handle_version_lookup)),
        'sizes': (len(mdib.descriptions.objects), len(mdib.states.objects), len(mdib.context_states.objects)),
    }
    for st in mdib.states.objects:
        if st is None:
            s['dup'].append(('none_object_in_states', None))
            continue
        if st.DescriptorHandle in s['states']:
            s['dup'].append(('state', st.DescriptorHandle))
        s['states'][st.DescriptorHandle] = canon(st)
    for st in mdib.context_states.objects:
        if st is None:
            s['dup'].append(('none_object_in_context_states', None))
            continue
        if st.Handle in s['ctx']:
            s['dup'].append(('ctx', st.Handle))
        s['ctx'][st.Handle] = canon(st)
    if with_index_check:
        problems = []
        for name in ('descriptions', 'states', 'context_states'):
            problems += [f'{name}: {p}' for p in index_vs_scan(getattr(mdib, name))]
        s['index_problems'] = problems
    return s


def snap_equal(a: dict, b: dict, keys=('version', 'descr', 'states', 'ctx')) -> list[str]:
    """differences between two snapshots (tolerant for timestamps).  Empty list = equal."""
    diffs = []
    for k in keys:
        x, y = a[k], b[k]
        if x == y:
            continue
        if isinstance(x, dict):
            for h in sorted(set(x) | set(y), key=repr):
                if h not in x:
                    diffs.append(f'{k}[{h}] only in second')
                elif h not in y:
                    diffs.append(f'{k}[{h}] only in first')
                elif not tolerant_equal(x[h], y[h]):
                    diffs.append(f'{k}[{h}] {first_difference(x[h], y[h])}')
        elif not tolerant_equal(x, y):
            diffs.append(f'{k}: {_short(x)} != {_short(y)}')
    return diffs


def versions_of(c):
    """(DescriptorVersion,) of a canonical descriptor or (DescriptorVersion, StateVersion) of a canonical state."""
    d = dict(c[1])
    if 'StateVersion' in d:
        return (d.get('DescriptorVersion'), d.get('StateVersion'))
    return (d.get('DescriptorVersion'),)


class History:
    """Version-history oracle of one provider MDIB.

    ``commit()`` is called by the harness after every transaction context exits (quiescent, single writer) or from inside the
    commit critical section (bound to the ``transaction`` observable) in threaded runs.
    """

    def __init__(self, mdib):
        self.mdib = mdib
        self.by_version: dict[int, dict] = {}
        self.published: dict[tuple, tuple] = {}  # (kind, handle, version) -> canonical content
        self.high_water: dict[tuple, int] = {}  # (kind, handle) -> highest version ever seen (survives deletion)
        self.problems: list[tuple[str, str, dict]] = []  # (key, what, detail) found while recording
        self.last = None
        self.record()

    def record(self) -> dict:
        s = snap(self.mdib)
        v = s['version'][0]
        prev = self.last
        self.by_version[v] = s
        self.last = s
        for kind, table, vidx in (('descr', s['descr'], 0), ('state', s['states'], 1), ('ctx', s['ctx'], 1)):
            for handle, c in table.items():
                ver = versions_of(c)[vidx]
                key = (kind, handle, ver)
                old = self.published.get(key)
                if old is None:
                    self.published[key] = c
                elif not tolerant_equal(old, c):
                    self.problems.append((f'version.content_changed_without_version.{kind}',
                                          f'content of {kind} changed while its version counter stayed the same',
                                          {'handle': handle, 'version': ver, 'diff': first_difference(old, c), 'mdib_version': v}))
                    self.published[key] = c
                hw = self.high_water.get((kind, handle))
                if hw is not None and ver is not None and ver < hw:
                    self.problems.append((f'version.decreased.{kind}', f'{kind} version counter decreased',
                                          {'handle': handle, 'version': ver, 'was': hw, 'mdib_version': v}))
                if ver is not None and (hw is None or ver > hw):
                    self.high_water[(kind, handle)] = ver
        return s
