"""Child process of core.fanout."""
from __future__ import annotations

import importlib
import json
import logging
import os
import sys

from . import core


def main():
    with open(sys.argv[1]) as f:
        job = json.load(f)
    logging.disable(logging.CRITICAL)
    core.guard_repo_import()
    # reproducibility: the library draws handles / ids from uuid.uuid4() and the global random module; both are seeded per job so that a
    # replay with the same VERIF_SEED generates the same handles (thread interleavings stay free)
    import hashlib
    import random
    import uuid
    digest = hashlib.sha256(repr((job['prop'], job['seed'], job['func'], job['arg'])).encode()).digest()
    random.seed(digest)
    _uuid_rng = random.Random(digest[::-1])
    uuid.uuid4 = lambda: uuid.UUID(int=_uuid_rng.getrandbits(128), version=4)
    ctx = core.Ctx(job['prop'], job['tier'], job['seed'], job['level'])
    mod = importlib.import_module(job['module'])
    core.safe_run(ctx, getattr(mod, job['func']), job['arg'])
    with open(job['out'] + '.tmp', 'w') as f:
        json.dump(ctx.dump(), f)
    os.replace(job['out'] + '.tmp', job['out'])
    sys.stdout.flush()
    os._exit(0)


if __name__ == '__main__':
    main()
