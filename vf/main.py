"""CLI:  python -m vf.main C07 --tier quick|thorough [--replay file]"""
from __future__ import annotations

import argparse
import importlib
import json
import logging
import os
import sys

from . import core

LEVELS = {'C03': 'fault_enumeration', 'C06': 'fault_enumeration'}


def main():
    ap = argparse.ArgumentParser()
    ap.add_argument('prop')
    ap.add_argument('--tier', default=os.environ.get('VERIF_TIER', 'quick'), choices=['quick', 'thorough'])
    ap.add_argument('--seed', type=int, default=int(os.environ.get('VERIF_SEED', '0') or 0))
    ap.add_argument('--replay', default=None)
    ns = ap.parse_args()
    logging.disable(logging.CRITICAL)
    core.guard_repo_import()
    prop = ns.prop.upper()
    mod = importlib.import_module(f'vf.props.{prop.lower()}')
    ctx = core.Ctx(prop, ns.tier, ns.seed, LEVELS.get(prop, 'exploration'))
    if ns.replay:
        with open(ns.replay) as f:
            w = json.load(f)
        os.environ['VERIF_NO_EVIDENCE'] = '1'
        if hasattr(mod, 'replay'):
            core.safe_run(ctx, mod.replay, w)
        else:
            print(json.dumps(w, indent=1)[:4000])
            print('(this property replays by re-running the check with the recorded seed/tier)')
            ctx = core.Ctx(prop, w.get('tier', 'quick'), w.get('seed', 0), LEVELS.get(prop, 'exploration'))
            core.safe_run(ctx, mod.run)
    else:
        core.safe_run(ctx, mod.run)
    sys.stdout.flush()
    rc = core.finish(ctx)
    sys.stdout.flush()
    os._exit(rc)  # library threads (housekeeping, workers) must not keep the check alive


if __name__ == '__main__':
    main()
