"""Independent XSD oracle for the bundled schemas of sdc11073 (DESIGN.md 2.7).

Nothing of ``sdc11073`` is imported here.  The schemas ``<repo>/src/sdc11073/xsd/*.xsd`` are

* compiled into ONE ``lxml.etree.XMLSchema`` by a master schema of my own that imports every bundled file; nested
  ``xsd:import`` s are resolved by *file name* (``.../BICEPS_ParticipantModel.xsd`` -> the bundled file of that name,
  otherwise by target namespace, found by scanning the files) - not by ``sdc11073.schema_resolver``;
* extended by *probe elements*: for every named complex type ``T`` of every bundled namespace the master schema declares a
  global, unqualified element ``probe.<prefix>.<T>`` of that type, so a single data type (``pm:Range``,
  ``wsa:EndpointReferenceType`` ...) can be validated on its own;
* indexed (``SchemaIndex``) so that the value generator can ask for the declared facets of an attribute / element of a
  given complex type (simple-type restriction chain down to the built-in type, enumerations, length and value bounds,
  minOccurs / maxOccurs, required attributes).

``Oracle.validate(element)`` serialises the element, parses the bytes again (what a peer would see) and validates that
document; it returns the list of libxml2 error messages (empty = valid).
"""
from __future__ import annotations

import os
import re
from dataclasses import dataclass, field

from lxml import etree

XS = 'http://www.w3.org/2001/XMLSchema'
XSI = 'http://www.w3.org/2001/XMLSchema-instance'
XSQ = '{%s}' % XS

NS = {
    'pm': 'http://standards.ieee.org/downloads/11073/11073-10207-2017/participant',
    'msg': 'http://standards.ieee.org/downloads/11073/11073-10207-2017/message',
    'ext': 'http://standards.ieee.org/downloads/11073/11073-10207-2017/extension',
    'wsa': 'http://www.w3.org/2005/08/addressing',
    'wse': 'http://schemas.xmlsoap.org/ws/2004/08/eventing',
    'wsd': 'http://docs.oasis-open.org/ws-dd/ns/discovery/2009/01',
    'dpws': 'http://docs.oasis-open.org/ws-dd/ns/dpws/2009/01',
    'wsx': 'http://schemas.xmlsoap.org/ws/2004/09/mex',
    's12': 'http://www.w3.org/2003/05/soap-envelope',
    'xml': 'http://www.w3.org/XML/1998/namespace',
    'wsdl': 'http://schemas.xmlsoap.org/wsdl/',
    'si': 'http://safety-information-uri/15/08',
}
PREFIX_OF = {v: k for k, v in NS.items()}


def xsd_dir() -> str:
    return os.path.join(os.environ.get('VERIF_REPO', '/repo'), 'src', 'sdc11073', 'xsd')


def clark(ns: str | None, local: str) -> str:
    return '{%s}%s' % (ns, local) if ns else local


def split_clark(tag: str) -> tuple[str | None, str]:
    if tag.startswith('{'):
        ns, local = tag[1:].split('}', 1)
        return ns, local
    return None, tag


# =============================================================================================
# schema index: facets, occurrence bounds
# =============================================================================================
_INT_RANGES = {
    'integer': (None, None), 'long': (-2 ** 63, 2 ** 63 - 1), 'int': (-2 ** 31, 2 ** 31 - 1), 'short': (-2 ** 15, 2 ** 15 - 1),
    'byte': (-128, 127), 'nonNegativeInteger': (0, None), 'positiveInteger': (1, None), 'unsignedLong': (0, 2 ** 64 - 1),
    'unsignedInt': (0, 2 ** 32 - 1), 'unsignedShort': (0, 2 ** 16 - 1), 'unsignedByte': (0, 255),
    'nonPositiveInteger': (None, 0), 'negativeInteger': (None, -1),
}


@dataclass
class Simple:
    """A resolved simple type: built-in primitive + accumulated facets."""

    primitive: str = 'string'           # local name of the xsd built-in type at the root of the restriction chain
    enums: tuple | None = None
    min_len: int = 0
    max_len: int | None = None
    lo: object = None                   # inclusive bounds (int / Decimal as str) or None
    hi: object = None
    patterns: tuple = ()
    item: 'Simple | None' = None        # xsd:list item type
    union: tuple = ()                   # xsd:union member types
    names: tuple = ()                   # named types passed on the way (for the evidence)

    @property
    def is_list(self):
        return self.item is not None


@dataclass
class ElemDecl:
    tag: str                # Clark name
    min: int
    max: int | None         # None = unbounded
    type: 'Complex | Simple | None'
    in_choice: bool = False


@dataclass
class Complex:
    name: str | None                                   # Clark name of a named type, None for anonymous
    attrs: dict = field(default_factory=dict)          # attribute name (Clark for qualified) -> (Simple, required: bool)
    elems: list = field(default_factory=list)          # ElemDecl in schema order (base type first)
    simple_content: Simple | None = None
    any_element: bool = False
    any_attribute: bool = False
    abstract: bool = False
    mixed: bool = False
    implied: dict = field(default_factory=dict)        # ('attr', name) / ('elem', tag) -> literal the schema documents as implied

    def elem(self, tag: str) -> ElemDecl | None:
        for e in self.elems:
            if e.tag == tag:
                return e
        return None

    def attr(self, name: str):
        return self.attrs.get(name)


class SchemaIndex:
    """Reads the bundled xsd files with lxml (as XML, not as schema) and resolves types on demand."""

    def __init__(self, directory: str | None = None):
        self.dir = directory or xsd_dir()
        self.files: dict[str, str] = {}            # file name -> target namespace
        self.ns_file: dict[str, str] = {}          # target namespace -> file name
        self._ctypes: dict[str, etree._Element] = {}
        self._stypes: dict[str, etree._Element] = {}
        self._elements: dict[str, etree._Element] = {}
        self._attrs: dict[str, etree._Element] = {}
        self._attr_groups: dict[str, etree._Element] = {}
        self._cache: dict = {}
        self._roots: list = []
        for fn in sorted(os.listdir(self.dir)):
            if not fn.endswith('.xsd'):
                continue
            root = etree.parse(os.path.join(self.dir, fn)).getroot()
            tns = root.get('targetNamespace')
            self.files[fn] = tns
            self.ns_file.setdefault(tns, fn)
            self._roots.append(root)
            for child in root:
                if not isinstance(child.tag, str):
                    continue
                name = child.get('name')
                if name is None:
                    continue
                key = clark(tns, name)
                if child.tag == XSQ + 'complexType':
                    self._ctypes[key] = child
                elif child.tag == XSQ + 'simpleType':
                    self._stypes[key] = child
                elif child.tag == XSQ + 'element':
                    self._elements[key] = child
                elif child.tag == XSQ + 'attribute':
                    self._attrs[key] = child
                elif child.tag == XSQ + 'attributeGroup':
                    self._attr_groups[key] = child

    # ---- helpers --------------------------------------------------------------------------
    def _root_of(self, node):
        return node.getroottree().getroot()

    def _tns_of(self, node) -> str | None:
        return self._root_of(node).get('targetNamespace')

    def _elem_qualified(self, node) -> bool:
        return self._root_of(node).get('elementFormDefault') == 'qualified'

    def _qname(self, node, text: str) -> str:
        if ':' in text:
            prefix, local = text.split(':', 1)
            return clark(NS['xml'] if prefix == 'xml' else node.nsmap.get(prefix), local)
        return clark(node.nsmap.get(None), text)

    def named_complex_types(self) -> list[str]:
        return sorted(self._ctypes)

    def global_elements(self) -> list[str]:
        return sorted(self._elements)

    # ---- simple types ------------------------------------------------------------------------
    def simple(self, qname: str) -> Simple:
        key = ('s', qname)
        if key in self._cache:
            return self._cache[key]
        ns, local = split_clark(qname)
        if ns == XS:
            res = self._builtin(local)
        elif qname in self._stypes:
            res = self._simple_from_node(self._stypes[qname], (qname,))
        elif qname in self._ctypes:  # complex type with simple content used as base
            res = self.complex(qname).simple_content or Simple()
        else:
            res = Simple(primitive='anySimpleType')
        self._cache[key] = res
        return res

    def _builtin(self, local: str) -> Simple:
        if local in _INT_RANGES:
            lo, hi = _INT_RANGES[local]
            return Simple(primitive='integer', lo=lo, hi=hi, names=(local,))
        if local in ('IDREFS', 'NMTOKENS', 'ENTITIES'):
            return Simple(primitive='string', item=Simple(primitive='NCName'), min_len=1, names=(local,))
        if local in ('normalizedString', 'token', 'Name', 'NCName', 'ID', 'IDREF', 'NMTOKEN', 'ENTITY'):
            return Simple(primitive=local if local in ('NCName', 'ID', 'IDREF', 'Name', 'NMTOKEN') else 'token', names=(local,))
        return Simple(primitive=local, names=(local,))

    def _simple_from_node(self, node, names=()) -> Simple:
        restriction = node.find(XSQ + 'restriction')
        if restriction is not None:
            base_name = restriction.get('base')
            if base_name is not None:
                base = self.simple(self._qname(restriction, base_name))
            else:
                inner = restriction.find(XSQ + 'simpleType')
                base = self._simple_from_node(inner) if inner is not None else Simple()
            res = Simple(**{**base.__dict__})
            res.names = tuple(base.names) + tuple(names)
            enums = []
            for facet in restriction:
                if not isinstance(facet.tag, str):
                    continue
                kind = facet.tag.replace(XSQ, '')
                val = facet.get('value')
                if kind == 'enumeration':
                    enums.append(val)
                elif kind == 'minLength':
                    res.min_len = max(res.min_len, int(val))
                elif kind == 'maxLength':
                    res.max_len = int(val) if res.max_len is None else min(res.max_len, int(val))
                elif kind == 'length':
                    res.min_len = res.max_len = int(val)
                elif kind == 'minInclusive':
                    res.lo = val if res.primitive != 'integer' else (int(val) if res.lo is None else max(res.lo, int(val)))
                elif kind == 'maxInclusive':
                    res.hi = val if res.primitive != 'integer' else (int(val) if res.hi is None else min(res.hi, int(val)))
                elif kind == 'pattern':
                    res.patterns = tuple(res.patterns) + (val,)
            if enums:
                res.enums = tuple(enums) if res.enums is None else tuple(e for e in res.enums if e in enums)
            return res
        lst = node.find(XSQ + 'list')
        if lst is not None:
            item_name = lst.get('itemType')
            if item_name is not None:
                item = self.simple(self._qname(lst, item_name))
            else:
                item = self._simple_from_node(lst.find(XSQ + 'simpleType'))
            return Simple(primitive='string', item=item, names=tuple(names))
        union = node.find(XSQ + 'union')
        if union is not None:
            members = [self.simple(self._qname(union, m)) for m in (union.get('memberTypes') or '').split()]
            members += [self._simple_from_node(st) for st in union.findall(XSQ + 'simpleType')]
            return Simple(primitive='union', union=tuple(members), names=tuple(names))
        return Simple(names=tuple(names))

    # ---- complex types -----------------------------------------------------------------------
    def complex(self, qname: str) -> Complex | None:
        key = ('c', qname)
        if key in self._cache:
            return self._cache[key]
        node = self._ctypes.get(qname)
        if node is None:
            return None
        res = Complex(name=qname)
        self._cache[key] = res  # recursion guard (CodedValue/Translation ...)
        self._fill_complex(res, node)
        return res

    def element_type(self, qname: str):
        """Type of a global element (Complex, Simple or None)."""
        node = self._elements.get(qname)
        if node is None:
            return None
        return self._decl_type(node)

    def type_for(self, qname: str):
        """Named complex type, else global element of that name."""
        c = self.complex(qname)
        if c is not None:
            return c
        return self.element_type(qname)

    def _decl_type(self, node):
        key = ('d', node.base, node.getroottree().getpath(node))
        if key in self._cache:
            return self._cache[key]
        tname = node.get('type')
        if tname is not None:
            q = self._qname(node, tname)
            res = self.complex(q)
            if res is None:
                res = self.simple(q)
        else:
            ct = node.find(XSQ + 'complexType')
            st = node.find(XSQ + 'simpleType')
            if ct is not None:
                res = Complex(name=None)
                self._cache[key] = res
                self._fill_complex(res, ct)
            elif st is not None:
                res = self._simple_from_node(st)
            else:
                res = None  # anyType
        self._cache[key] = res
        return res

    def _fill_complex(self, res: Complex, node):
        res.abstract = node.get('abstract') == 'true'
        res.mixed = node.get('mixed') == 'true'
        derived = False
        for child in node:
            if not isinstance(child.tag, str):
                continue
            kind = child.tag.replace(XSQ, '')
            if kind in ('complexContent', 'simpleContent'):
                derived = True
                res.mixed |= child.get('mixed') == 'true'
                for deriv in child:
                    if not isinstance(deriv.tag, str):
                        continue
                    dk = deriv.tag.replace(XSQ, '')
                    if dk not in ('extension', 'restriction'):
                        continue
                    base_q = self._qname(deriv, deriv.get('base'))
                    base_c = self.complex(base_q)
                    if base_c is not None:
                        res.attrs.update(base_c.attrs)
                        res.implied.update(base_c.implied)
                        res.any_attribute |= base_c.any_attribute
                        if dk == 'extension':
                            res.elems.extend(base_c.elems)
                            res.any_element |= base_c.any_element
                        res.simple_content = base_c.simple_content
                    elif kind == 'simpleContent':
                        res.simple_content = self.simple(base_q)
                    self._particles(res, deriv, 1, False)
        if not derived:
            self._particles(res, node, 1, False)

    def _particles(self, res: Complex, parent, min_factor: int, in_choice: bool):
        for child in parent:
            if not isinstance(child.tag, str):
                continue
            kind = child.tag.replace(XSQ, '')
            if kind in ('sequence', 'all', 'choice'):
                mn = int(child.get('minOccurs', '1'))
                choice = in_choice or kind == 'choice'
                self._particles(res, child, min(min_factor, mn), choice)
            elif kind == 'element':
                mn = int(child.get('minOccurs', '1'))
                mx = child.get('maxOccurs', '1')
                mx = None if mx == 'unbounded' else int(mx)
                ref = child.get('ref')
                if ref is not None:
                    q = self._qname(child, ref)
                    target = self._elements.get(q)
                    typ = self._decl_type(target) if target is not None else None
                    tag = q
                else:
                    qualified = child.get('form', 'qualified' if self._elem_qualified(child) else 'unqualified') == 'qualified'
                    tag = clark(self._tns_of(child) if qualified else None, child.get('name'))
                    typ = self._decl_type(child)
                res.elems.append(ElemDecl(tag, 0 if (min_factor == 0 or in_choice) else mn, mx, typ, in_choice))
                lit = _implied_of(child)
                if lit is not None:
                    res.implied[('elem', tag)] = lit
            elif kind == 'any':
                res.any_element = True
            elif kind == 'attribute':
                self._attribute(res, child)
            elif kind == 'attributeGroup':
                grp = self._attr_groups.get(self._qname(child, child.get('ref')))
                if grp is not None:
                    self._particles(res, grp, min_factor, in_choice)
            elif kind == 'anyAttribute':
                res.any_attribute = True

    def _attribute(self, res: Complex, node):
        ref = node.get('ref')
        required = node.get('use') == 'required'
        if ref is not None:
            q = self._qname(node, ref)
            target = self._attrs.get(q)
            typ = Simple()
            if target is not None:
                typ = self._attr_type(target)
            elif q == clark(NS['xml'], 'lang'):
                typ = Simple(primitive='language')
            res.attrs[q] = (typ, required)
            return
        res.attrs[node.get('name')] = (self._attr_type(node), required)
        lit = _implied_of(node)
        if lit is not None:
            res.implied[('attr', node.get('name'))] = lit

    def _attr_type(self, node) -> Simple:
        tname = node.get('type')
        if tname is not None:
            return self.simple(self._qname(node, tname))
        st = node.find(XSQ + 'simpleType')
        if st is not None:
            return self._simple_from_node(st)
        return Simple(primitive='anySimpleType')

    def global_attr(self, qname: str) -> Simple | None:
        node = self._attrs.get(qname)
        return self._attr_type(node) if node is not None else None

    def anonymous_types(self) -> dict:
        """Clark tag -> list of distinct anonymous complex types declared for a local element of that name"""
        key = ('anon',)
        if key in self._cache:
            return self._cache[key]
        out: dict = {}
        seen = set()

        def walk(c: Complex):
            if id(c) in seen:
                return
            seen.add(id(c))
            for e in c.elems:
                if isinstance(e.type, Complex):
                    if e.type.name is None and not any(e.type is x for x in out.setdefault(e.tag, [])):
                        out[e.tag].append(e.type)
                    walk(e.type)

        for q in self.named_complex_types():
            c = self.complex(q)
            if c is not None:
                walk(c)
        for q in self.global_elements():
            t = self.element_type(q)
            if isinstance(t, Complex):
                walk(t)
        self._cache[key] = out
        return out

    # ---- name keyed fall-back (owner type unknown): every declaration of that name --------------------
    def all_attr_decls(self, name: str) -> list[Simple]:
        out = []
        for root in self._roots:
            for a in root.iter(XSQ + 'attribute'):
                if a.get('name') == name:
                    out.append(self._attr_type(a))
        return out

    def all_elem_decls(self, tag: str) -> list[ElemDecl]:
        """every local declaration of / reference to an element of that name (a global declaration itself says nothing about
        occurrence: it only contributes the type when the name is never used locally)"""
        ns, local = split_clark(tag)
        out, global_only = [], []
        for root in self._roots:
            for e in root.iter(XSQ + 'element'):
                ref = e.get('ref')
                if ref is not None:
                    if self._qname(e, ref) != tag:
                        continue
                    target = self._elements.get(tag)
                    typ = self._decl_type(target) if target is not None else None
                elif e.get('name') == local and root.get('targetNamespace') == ns:
                    typ = self._decl_type(e)
                    if e.getparent() is root:
                        global_only.append(ElemDecl(tag, 0, None, typ))
                        continue
                else:
                    continue
                mn = int(e.get('minOccurs', '1'))
                mx = e.get('maxOccurs', '1')
                out.append(ElemDecl(tag, mn, None if mx == 'unbounded' else int(mx), typ))
        return out or global_only


_RX_IMPLIED = re.compile(r'implied value[^".]*SHALL be "([^"]*)"')


def _implied_of(decl_node) -> str | None:
    """the literal of 'The implied value SHALL be "X"' in the declaration's own xsd:documentation"""
    ann = decl_node.find(XSQ + 'annotation')
    if ann is None:
        return None
    for doc in ann.iter(XSQ + 'documentation'):
        m = _RX_IMPLIED.search(''.join(doc.itertext()))
        if m:
            return m.group(1)
    return None


# =============================================================================================
# validator
# =============================================================================================
class _ByFileName(etree.Resolver):
    def __init__(self, index: SchemaIndex):
        super().__init__()
        self.index = index
        self.resolved: dict[str, str] = {}

    def resolve(self, url, pubid, context):  # noqa: ARG002
        name = url.rstrip('/').rsplit('/', 1)[-1]
        if name not in self.index.files:
            name = self.index.ns_file.get(url)
        if name is None:
            return None
        self.resolved[url] = name
        return self.resolve_filename(os.path.join(self.index.dir, name), context)


def probe_tag(type_qname: str) -> str:
    """Tag of the probe element declared for the named complex type ``type_qname`` (Clark)."""
    ns, local = split_clark(type_qname)
    return 'probe.%s.%s' % (PREFIX_OF[ns], local)


class Oracle:
    """One compiled XMLSchema over all bundled files + probe elements."""

    def __init__(self, directory: str | None = None):
        self.index = SchemaIndex(directory)
        parts = ['<?xml version="1.0" encoding="UTF-8"?>',
                 '<xsd:schema xmlns:xsd="%s" elementFormDefault="qualified"' % XS]
        used = [ns for ns in self.index.ns_file if ns in PREFIX_OF]
        for ns in used:
            if PREFIX_OF[ns] != 'xml':
                parts.append(' xmlns:%s="%s"' % (PREFIX_OF[ns], ns))
        parts.append('>\n')
        for ns in used:
            parts.append('<xsd:import namespace="%s" schemaLocation="%s"/>\n' % (ns, self.index.ns_file[ns]))
        self.probes: dict[str, str] = {}
        for q in self.index.named_complex_types():
            ns, local = split_clark(q)
            if ns not in PREFIX_OF or PREFIX_OF[ns] in ('wsdl', 'si', 's12', 'xml'):
                continue
            tag = probe_tag(q)
            self.probes[q] = tag
            parts.append('<xsd:element name="%s" type="%s:%s"/>\n' % (tag, PREFIX_OF[ns], local))
        parts.append('</xsd:schema>')
        self.master_text = ''.join(parts)
        parser = etree.XMLParser(resolve_entities=False, no_network=True)
        self.resolver = _ByFileName(self.index)
        parser.resolvers.add(self.resolver)
        doc = etree.fromstring(self.master_text.encode('utf-8'), parser=parser, base_url=os.path.join(self.index.dir, 'master.xsd'))
        self.schema = etree.XMLSchema(etree=doc)
        self._plain = etree.XMLParser(resolve_entities=False, no_network=True, huge_tree=True)

    def reparse(self, element):
        """serialise + parse: the document a peer would see"""
        return etree.fromstring(etree.tostring(element), parser=self._plain)

    def validate(self, element, reparse: bool = True) -> list[str]:
        doc = self.reparse(element) if reparse else element
        if self.schema.validate(doc):
            return []
        return [_short(e.message) for e in self.schema.error_log][:6] or ['invalid (no message)']

    # ---- wrappers -------------------------------------------------------------------------
    @staticmethod
    def _wrapper_nsmap(node):
        """The wrapper declares the prefixes of the wrapped node itself (QNames in attribute *content*, e.g. xsi:type="dom:..",
        rely on the declarations in scope; lxml drops a declaration that repeats a namespace already bound by an ancestor)."""
        nsmap = {k: v for k, v in node.nsmap.items() if k is not None}
        for prefix, ns in (('msg', NS['msg']), ('pm', NS['pm']), ('xsi', XSI)):
            if ns not in nsmap.values():
                nsmap[prefix if prefix not in nsmap else prefix + '_w'] = ns
        return nsmap

    def wrap_state(self, state_node):
        """msg:GetMdStateResponse/msg:MdState/<state_node> (state_node: pm:State with xsi:type)."""
        root = etree.Element(clark(NS['msg'], 'GetMdStateResponse'), nsmap=self._wrapper_nsmap(state_node))
        root.set('MdibVersion', '1')
        root.set('SequenceId', 'urn:uuid:0b1b8a5c-2b0e-4c4e-9d7e-000000000001')
        md_state = etree.SubElement(root, clark(NS['msg'], 'MdState'))
        md_state.append(state_node)
        return root

    def wrap_descriptor(self, descriptor_node):
        """msg:DescriptionModificationReport/msg:ReportPart/<descriptor_node> (msg:Descriptor with xsi:type)."""
        root = etree.Element(clark(NS['msg'], 'DescriptionModificationReport'), nsmap=self._wrapper_nsmap(descriptor_node))
        root.set('MdibVersion', '1')
        root.set('SequenceId', 'urn:uuid:0b1b8a5c-2b0e-4c4e-9d7e-000000000001')
        part = etree.SubElement(root, clark(NS['msg'], 'ReportPart'))
        part.append(descriptor_node)
        return root


_RX_NS = re.compile(r'\{[^}]*\}')


def _short(msg: str) -> str:
    return _RX_NS.sub('', msg)[:300]


_ORACLE = None


def oracle() -> Oracle:
    global _ORACLE  # noqa: PLW0603
    if _ORACLE is None:
        _ORACLE = Oracle()
    return _ORACLE
