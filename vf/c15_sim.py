"""C15 helper: single-threaded discrete-event run of ONE real WSDiscovery node.

Real code that runs: WSDiscovery (API, receive handlers, senders), NetworkingThread.add_outbound_message / _repeated_enqueue_msg,
the real send loop ``_run_send`` in running mode, ``_recv_messages`` and ``_run_q_read``.  Replaced: the two UDP sockets and the
selectors (fakes with a multicast loop-back), ``networkingthread.time`` (virtual clock) and ``networkingthread.random`` (draw policy),
the read queue (a queue.Queue whose get() never blocks, so the q-read loop can be run to completion synchronously).  No threads:
the harness acts from inside the sleeps of the send loop, so a run is a deterministic function of (script, draw policy).

Nothing in here knows the patch of a seed; the module only observes.
"""
from __future__ import annotations

import collections
import logging
import queue

from lxml import etree

MC = '239.255.255.250'
WSA = '{http://www.w3.org/2005/08/addressing}'
ID_WINDOW = 200  # size of the bounded memory of known message ids (NetworkingThread._known_message_ids)
# the id-window overflow (>= 200 foreign ids between the registration of an own message and its loop-back) is a defect of the unchanged
# tree (see /verif/scratch/c15_repro_1.py); it fires as a witness only if this is True or env VERIF_C15_IDWINDOW=1 (the lead decides)
IDWINDOW_DEFAULT = True

_LOG = logging.getLogger('vf.c15sim')
_LOG.addHandler(logging.NullHandler())
_LOG.propagate = False
_LOG.setLevel(logging.CRITICAL)


class SimAbort(Exception):
    """the send loop used more logical steps than any legal run needs."""


class SimClock:
    def __init__(self, start=1_790_000_000.0, limit=20000):
        self.now = start
        self.sleeps = 0
        self.limit = limit
        self.on_sleep = None
        self.phase = None  # callable -> fraction of a sleep after which the harness acts (0 = right after the loop fell asleep)

    def time(self):
        return self.now

    monotonic = perf_counter = time

    def sleep(self, seconds):
        self.sleeps += 1
        seconds = max(seconds, 0)
        if self.sleeps > self.limit:
            raise SimAbort
        if self.on_sleep is None:
            self.now += seconds
            return
        wake = self.now + seconds
        self.now += seconds * (self.phase() if self.phase is not None else 1.0)
        self.on_sleep()
        self.now = max(self.now, wake)


class SimRandom:
    """replacement of ``random`` inside networkingthread: answers with a point of WHATEVER domain the code asks for.

    mode lo / hi / mid: lower bound, upper bound, middle of the requested domain; rand: uniform (seeded); mixed: one of them per call.
    ``force`` = (fraction for randint, fraction for randrange) overrides the mode."""

    def __init__(self, rng, mode='rand'):
        self.rng = rng
        self.mode = mode
        self.force = None
        self.calls = []

    def _frac(self, which):
        if self.force is not None:
            return self.force[which]
        mode = self.mode
        if mode == 'mixed':
            mode = self.rng.choice(['lo', 'hi', 'mid', 'rand'])
        if mode == 'lo':
            return 0.0
        if mode == 'hi':
            return 1.0
        if mode == 'mid':
            return 0.5
        return self.rng.random()

    def randint(self, a, b):
        self.calls.append(('randint', a, b))
        if b < a:
            raise ValueError('empty range for randint')
        return a + min(b - a, int(round(self._frac(0) * (b - a))))

    def randrange(self, a, b=None):
        if b is None:
            a, b = 0, a
        self.calls.append(('randrange', a, b))
        if b <= a:
            raise ValueError('empty range for randrange')
        n = b - a
        return a + min(n - 1, int(self._frac(1) * n))

    def random(self):
        return self.rng.random()

    def uniform(self, a, b):
        return a + (b - a) * self._frac(0)

    def choice(self, seq):
        return self.rng.choice(seq)


class SimSock:
    def __init__(self, clock, name):
        self.clock = clock
        self.name = name
        self.sent = []  # (t, data, addr, ok)   every transmission the node attempts
        self.inbox = collections.deque()
        self.fail_every = 0
        self._n = 0

    def sendto(self, data, addr):
        self._n += 1
        if self.fail_every and self._n % self.fail_every == 1 % self.fail_every:
            self.sent.append((self.clock.time(), data, addr, False))
            raise OSError(101, 'Network is unreachable')
        self.sent.append((self.clock.time(), data, addr, True))
        return len(data)

    def recvfrom(self, bufsize):
        if not self.inbox:
            raise BlockingIOError(11, 'Resource temporarily unavailable')
        return self.inbox.popleft()

    def getsockname(self):
        return self.name

    def setblocking(self, flag):
        pass

    def fileno(self):
        return -1

    def close(self):
        pass


class _Key:
    def __init__(self, fileobj):
        self.fileobj = fileobj


class SimSelector:
    def __init__(self, socks, inbound):
        self.socks = socks
        self.inbound = inbound

    def select(self, timeout=None):
        if self.inbound:
            return [(_Key(s), 1) for s in self.socks if s.inbox]
        return [(_Key(s), 2) for s in self.socks]

    def register(self, *a, **k):
        pass

    def close(self):
        pass


class SimReadQueue(queue.Queue):
    """get() never blocks; when the queue is empty the q-read loop is told to end (it is re-armed before every pump)."""

    quit_event = None

    def get(self, block=True, timeout=None):
        try:
            return super().get(block=False)
        except queue.Empty:
            if self.quit_event is not None:
                self.quit_event.set()
            raise


def _rewire(thread):
    for sel in (thread._inbound_selector, thread._outbound_selector):
        try:
            sel.close()
        except Exception:  # noqa: BLE001
            pass
    thread._outbound_selector = SimSelector([thread.multi_out_uni_in_out], inbound=False)
    thread._inbound_selector = SimSelector([thread.multi_in, thread.multi_out_uni_in_out], inbound=True)
    rq = SimReadQueue(10000)
    rq.quit_event = thread._quit_recv_event
    thread._read_queue = rq


def mk_node(clock, rnd):
    """real WSDiscovery, started through its real start() (which builds the NetworkingThread); no OS threads, no sockets."""
    from sdc11073.wsdiscovery import networkingthread as nt
    from sdc11073.wsdiscovery import wsdimpl

    class SimNT(nt.NetworkingThread):
        def _create_multicast_in_socket(self, addr, port):
            return SimSock(clock, (MC, port))

        def _create_multi_out_uni_in_out_socket(self, addr, multicast_ttl):
            return SimSock(clock, (addr, 40000))

        def start(self):
            self.sim_started = True

        def join(self):
            self.sim_joined = True

    nt.time = clock
    nt.random = rnd
    real = nt.NetworkingThread
    nt.NetworkingThread = SimNT
    try:
        wsd = wsdimpl.WSDiscovery('127.0.0.1', logger=_LOG)
        wsd.start()
    finally:
        nt.NetworkingThread = real
    thread = wsd._networking_thread
    _rewire(thread)
    return wsd, thread


def id_known(thread, mid):
    """is the id in ANY id memory of the thread (the bounded deque of today, or whatever container a later version keeps own ids in)."""
    for value in vars(thread).values():
        if isinstance(value, (collections.deque, set, frozenset, dict, list, tuple)):
            try:
                if mid in value:
                    return True
            except TypeError:
                pass
    return False


def mid_of(data):
    try:
        return etree.fromstring(data).find(f'.//{WSA}MessageID').text
    except Exception:  # noqa: BLE001
        return None


class Foreign:
    """messages of OTHER nodes, created by the library's own WSDiscovery senders on a second complete node (same fakes, same clock); the
    messages are taken from its send queue instead of being transmitted."""

    def __init__(self, clock, rnd):
        from sdc11073.namespaces import default_ns_helper as nsh
        from sdc11073.xml_types import wsd_types
        self.nsh = nsh
        self.wsd_types = wsd_types
        self.wsd, self.thread = mk_node(clock, rnd)
        self.dev = [nsh.DPWS.tag('Device')]

    def _take(self):
        msgs, seen = [], set()
        q = self.thread._send_queue
        while not q.empty():
            cm = q.get().msg.created_message
            if id(cm) not in seen:
                seen.add(id(cm))
                msgs.append(cm)
        return [cm.serialize() for cm in msgs]

    def scopes(self, j):
        return self.wsd_types.ScopesType(f'sdc.ctxt.loc:/sdc.ctxt.loc.detail/x?fac=p{j}')

    def make(self, kind, j, own_epr=None, relates='urn:uuid:rel'):
        w = self.wsd
        epr = f'urn:uuid:peer-{j}'
        if kind in ('hello', 'hello_noxaddr', 'bye', 'probematch', 'probematch_bare', 'resolvematch'):
            w.publish_service(epr, self.dev, self.scopes(j), [] if kind == 'hello_noxaddr' else [f'http://10.0.0.7:{6000 + j % 1000}/x'])
            hello = self._take()
            svc = w._local_services[epr]
            if kind in ('hello', 'hello_noxaddr'):
                return hello
            if kind == 'bye':
                w.clear_service(epr)
                return self._take()
            if kind == 'resolvematch':
                w._send_resolve_match(svc, relates, ('127.0.0.1', 40000))
                return self._take()
            if kind == 'probematch_bare':
                w.PROBEMATCH_TYPES = False
            try:
                w._send_probe_match([svc], relates, ('127.0.0.1', 40000))
            finally:
                if 'PROBEMATCH_TYPES' in w.__dict__:
                    del w.PROBEMATCH_TYPES
            return self._take()
        if kind == 'probe':
            w._send_probe(self.dev, None)
        elif kind == 'probe_nomatch':
            w._send_probe([self.nsh.DPWS.tag('NoSuchType')], None)
        elif kind == 'resolve_own':
            w._send_resolve(own_epr or 'urn:uuid:own-0')
        elif kind == 'resolve_other':
            w._send_resolve('urn:uuid:nobody')
        else:
            raise ValueError(kind)
        return self._take()


UNICAST_KINDS = ('probematch', 'probematch_bare', 'resolvematch')  # arrive on the unicast socket, the others on the multicast socket


class Sim:
    """one scripted run.  script: list of (offset_s, action tuple), see _do()."""

    def __init__(self, rng, mode='rand', start=1_790_000_000.0, loop_delay=0.0, max_ticks=6000, phase='rand'):
        self.clock = SimClock(start, limit=max_ticks)
        # the harness acts somewhere INSIDE every sleep of the send loop: at its begin (the loop has just fallen asleep), middle, end
        prng = __import__('random').Random(rng.random())
        self.clock.phase = (lambda: prng.choice((0.0, 0.0, 0.5, 1.0))) if phase == 'rand' else (lambda: phase)
        self.rnd = SimRandom(rng, mode)
        self.wsd, self.thread = mk_node(self.clock, self.rnd)
        self.foreign = Foreign(self.clock, self.rnd)
        self.loop_delay = loop_delay
        self.script = []
        self.pending = []  # (deliver_at, sock name, data, src)
        self.lb_cursor = 0
        self.stopped = None
        self.reg = 0  # number of ids the node has registered so far (own + handled)
        self.own = {}  # mid -> record
        self.own_by_obj = {}
        self.own_handled = []  # (mid, ids registered since its own registration, action)
        self.enqueue_unknown = []
        self.handled = []
        self.callbacks = []  # (kind, epr)
        self.remote_seen = set()
        self.own_eprs = set()
        self.stats = collections.Counter()
        self.current = 'init'
        self.aborted = False
        self.t0 = start
        self._hook()

    # ---- observation points --------------------------------------------------------------------------------------------------
    def _hook(self):
        thread, wsd, clock = self.thread, self.wsd, self.clock
        real_add = thread.add_outbound_message
        real_put = thread._send_queue.put
        real_handle = wsd.handle_received_message

        def add_outbound_message(msg, addr, port, repeat_params):
            hib = msg.p_msg.header_info_block
            qsize = thread._send_queue.qsize()
            rec = {'mid': hib.MessageID, 'action': str(hib.Action).rsplit('/', 1)[-1], 'addr': addr, 'port': port, 'params': repeat_params,
                   't_call': clock.now, 'reg': self.reg, 'entries': [], 'dropped': thread._quit_send_event.is_set(), 'origin': self.current,
                   'qsize': qsize, 'mode': self.rnd.mode if self.rnd.force is None else 'forced'}
            self.own[rec['mid']] = rec
            self.own_by_obj[id(msg)] = rec
            self.reg += 1
            if qsize >= 128:
                self.stats['enqueue_with_backlog_ge128'] += 1
            return real_add(msg, addr, port, repeat_params)

        def put(item, *a, **k):
            if thread._send_queue.full():
                raise SimAbort  # would block for ever: nobody else takes entries out in a single-threaded run
            rec = self.own_by_obj.get(id(item.msg.created_message))
            if rec is not None:
                if not rec['entries'] and not id_known(thread, rec['mid']):
                    self.enqueue_unknown.append(rec['mid'])
                rec['entries'].append((item.send_time, item.repeat))
            return real_put(item, *a, **k)

        def handle_received_message(received_message, addr):
            mid = received_message.p_msg.header_info_block.MessageID
            self.handled.append(mid)
            rec = self.own.get(mid)
            if rec is not None:
                self.own_handled.append((mid, self.reg - rec['reg'] - 1, rec['action']))
            self.reg += 1
            return real_handle(received_message, addr)

        thread.add_outbound_message = add_outbound_message
        thread._send_queue.put = put
        wsd.handle_received_message = handle_received_message
        self._set_callbacks()

    def _set_callbacks(self):
        cb = self.callbacks
        self.wsd.set_remote_service_hello_callback(lambda addr, service: cb.append(('hello', service.epr)))
        self.wsd.set_remote_service_bye_callback(lambda addr, epr: cb.append(('bye', epr)))
        self.wsd.set_remote_service_resolve_match_callback(lambda service: cb.append(('resolve_match', service.epr)))
        self.wsd.set_on_probe_callback(lambda addr, probe: cb.append(('probe', None)))
        self.wsd.set_on_probe_matches_callback(lambda services: cb.extend(('probe_match', s.epr) for s in services))

    # ---- actions -------------------------------------------------------------------------------------------------------------
    def _in_window(self):
        return not self.thread._send_queue.empty()

    def _deliver(self, kind, datas, copies=1, spacing=0.0, src=None):
        sock = 'uni' if kind in UNICAST_KINDS else 'multi'
        for data in datas:
            for c in range(copies):
                self.pending.append((self.clock.now + c * spacing, sock, data, src or ('10.0.0.7', 3702)))
        self.stats['foreign_datagrams'] += len(datas) * copies

    def _do(self, act):
        wsd, f = self.wsd, self.foreign
        self.current = act[0]
        op = act[0]
        api = op in ('clear_remote', 'clear_local', 'callbacks', 'found', 'republish', 'clear_service', 'probe', 'resolve', 'publish')
        if api and self._in_window():
            self.stats[f'api_in_window.{op}'] += 1
            self.stats['api_in_window'] += 1
        if op in ('publish', 'republish'):
            epr = f'urn:uuid:own-{act[1]}'
            self.own_eprs.add(epr)
            wsd.publish_service(epr, f.dev, f.wsd_types.ScopesType(f'sdc.ctxt.loc:/sdc.ctxt.loc.detail/x?fac=o{act[1]}'), [f'http://127.0.0.1:{7000 + act[1] % 1000}/x'])
        elif op == 'burst':
            for k in range(act[1]):
                self._do(('publish', 1000 + self.stats['burst_msgs']))
                self.stats['burst_msgs'] += 1
        elif op == 'clear_service':
            epr = f'urn:uuid:own-{act[1]}'
            if epr in wsd._local_services:
                wsd.clear_service(epr)
        elif op == 'probe':
            wsd._send_probe(f.dev, None)
        elif op == 'resolve':
            wsd._send_resolve(f'urn:uuid:peer-{act[1]}')
        elif op == 'clear_remote':
            wsd.clear_remote_services()
        elif op == 'clear_local':
            wsd.clear_local_services()
        elif op == 'callbacks':
            wsd.set_remote_service_hello_callback(None)
            wsd.set_remote_service_bye_callback(None)
            self._set_callbacks()
        elif op == 'found':
            self.remote_seen.update(s.epr for s in wsd.get_found_remote_services())
        elif op == 'recv':
            _, kind, j, copies, spacing = act
            own_epr = next(iter(sorted(wsd._local_services)), None)
            self._deliver(kind, f.make(kind, j, own_epr=own_epr), copies, spacing, src=('10.0.0.7', 50000 + j % 1000))
        elif op == 'flood':
            kind = act[2] if len(act) > 2 else 'hello'
            for j in range(act[1]):
                self._deliver(kind, f.make(kind, 100000 + self.stats['flood_msgs']), src=('10.0.%d.%d' % (1 + j // 250, 1 + j % 250), 3702))
                self.stats['flood_msgs'] += 1
        elif op == 'senderr':
            self.thread.multi_out_uni_in_out.fail_every = act[1]
            self.stats['senderr_switch'] += 1
        elif op == 'mode':
            self.rnd.mode = act[1]
        elif op == 'stop':
            self._stop(act[1])
        else:
            raise ValueError(act)
        self.current = 'handler'

    def _stop(self, how):
        if self.stopped:
            return
        self.remote_seen.update(s.epr for s in self.wsd.get_found_remote_services())
        self.stats['pending_at_stop'] += self.thread._send_queue.qsize()
        self.current = 'stop'
        if how == 'graceful':
            self.wsd.stop()  # real stop(): clear_remote_services, Byes for all local services, schedule_stop, join
        else:
            self.thread.schedule_stop()
        self.stopped = how

    # ---- the node's receive side, run to completion ------------------------------------------------------------------------
    def _pump(self):
        thread = self.thread
        socks = (thread.multi_in, thread.multi_out_uni_in_out)
        for _ in range(200000):
            if not any(s.inbox for s in socks):
                break
            thread._recv_messages()
        thread._quit_recv_event.clear()
        thread._run_q_read()
        thread._quit_recv_event.clear()

    def _tick(self):
        if self.stopped:
            return
        thread, now = self.thread, self.clock.now
        sock = thread.multi_out_uni_in_out
        own_src = sock.getsockname()
        while self.lb_cursor < len(sock.sent):
            t, data, addr, ok = sock.sent[self.lb_cursor]
            self.lb_cursor += 1
            if ok and addr[0] == MC:
                self.pending.append((t + self.loop_delay, 'multi', data, own_src))
                self.stats['own_loopbacks'] += 1
        if self.pending:
            due = [p for p in self.pending if p[0] <= now + 1e-9]
            if due:
                self.pending = [p for p in self.pending if p[0] > now + 1e-9]
                for _, which, data, src in due:
                    (thread.multi_in if which == 'multi' else sock).inbox.append((data, src))
                self.current = 'handler'
                self._pump()
        while self.script and self.script[0][0] <= now - self.t0 + 1e-9 and not self.stopped:
            _, act = self.script.pop(0)
            self._do(act)
            if self.pending and not self.stopped:
                due = [p for p in self.pending if p[0] <= now + 1e-9]
                if due:
                    self.pending = [p for p in self.pending if p[0] > now + 1e-9]
                    for _, which, data, src in due:
                        (thread.multi_in if which == 'multi' else sock).inbox.append((data, src))
                    self._pump()
        if not self.stopped and not self.script and not self.pending and thread._send_queue.empty() and self.lb_cursor >= len(sock.sent):
            self._stop('abrupt')

    def run(self, script):
        self.script = sorted(script, key=lambda s: s[0])
        self.clock.on_sleep = self._tick
        self.t0 = self.clock.now
        try:
            self.thread._run_send()
        except SimAbort:
            self.aborted = True
        finally:
            self.clock.on_sleep = None
        sent = []
        for t, data, addr, ok in self.thread.multi_out_uni_in_out.sent:
            sent.append((t, mid_of(data), addr, ok))
        self.sent = sent
        return self
