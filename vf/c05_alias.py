"""C05 helper: does a value that was read from XML own all of its parts?  (``... and never a value belonging to another object``)

Two independent monitors, both duck typed (nothing of sdc11073 is imported):

* ``parts(obj)``      the *mutable* objects that make up a value: the object itself, every list / dict / set, every nested
                      object built from property descriptors and every lxml element that is reachable through the DECLARED
                      members (``sorted_container_properties()`` + ``get_actual_value``: the stored value, no implied value).
                      References that are not members (``descriptor_container`` of a state, ``node``) are not followed - they
                      are shared by design.  ``shared(a, b)`` -> the parts two values have in common (there must be none).
* ``class_level_parts(classes)``  the parts of every class-level default / implied object of every property descriptor:
                      no value of any instance may contain one of them.
* ``mutate_in_place(obj, only=...)``  edits a value the way an application edits what it received: appends to every list,
                      overwrites scalar members of nested objects.  Whatever else changes with it did not belong to ``obj`` alone.
"""
from __future__ import annotations

import dataclasses
import datetime
import enum
from decimal import Decimal

from lxml import etree

_IMMUTABLE = (str, bytes, int, float, bool, Decimal, enum.Enum, etree.QName, frozenset, datetime.tzinfo, datetime.date,
              datetime.time, datetime.timedelta, type(None))
SENTINEL = 'verif-c05-edited-in-place'
_MAX_DEPTH = 40


def _is_value_object(x) -> bool:
    return callable(getattr(x, 'sorted_container_properties', None)) and not isinstance(x, type)


def _immutable(x) -> bool:
    if isinstance(x, _IMMUTABLE) or isinstance(x, type) or callable(x) and not _is_value_object(x):
        return True
    if dataclasses.is_dataclass(x) and not isinstance(x, type):
        return bool(getattr(type(x), '__dataclass_params__', None) and type(x).__dataclass_params__.frozen)
    return False


def _members(obj):
    """(name, stored value) of the declared members"""
    for name, prop in obj.sorted_container_properties():
        try:
            yield name, prop.get_actual_value(obj)
        except Exception:  # noqa: BLE001, S112
            continue


def parts(obj, path: str = '', out: dict | None = None, depth: int = 0) -> dict:
    """id -> (path, object) of every mutable part of the value ``obj`` (strong references: ids stay unique)"""
    if out is None:
        out = {}
    if depth > _MAX_DEPTH or _immutable(obj) or id(obj) in out:
        return out
    if isinstance(obj, tuple):
        for i, x in enumerate(obj):
            parts(x, f'{path}[{i}]', out, depth + 1)
        return out
    out[id(obj)] = (path, obj)
    if isinstance(obj, etree._Element):  # noqa: SLF001  (children belong to the element)
        return out
    if isinstance(obj, (list, set)):
        for i, x in enumerate(obj):
            parts(x, f'{path}[{i}]', out, depth + 1)
    elif isinstance(obj, dict):
        for k, x in obj.items():
            parts(x, f'{path}[{k!r}]', out, depth + 1)
    elif _is_value_object(obj):
        for name, value in _members(obj):
            parts(value, f'{path}.{name}' if path else name, out, depth + 1)
        extra = getattr(obj, 'reference_parameters', None)   # HeaderInformationBlock: travels on the wire, not a declared member
        if isinstance(extra, list):
            parts(extra, f'{path}.reference_parameters' if path else 'reference_parameters', out, depth + 1)
    return out


def shared(a_parts: dict, b_parts: dict) -> list[tuple[str, str, str]]:
    """[(path in a, path in b, type name)] of the parts both values contain"""
    return [(a_parts[i][0], b_parts[i][0], type(a_parts[i][1]).__name__) for i in a_parts if i in b_parts]


def class_level_parts(classes) -> dict:
    """id -> ('<DeclClass>.<member>', path below the default, object) for the default / implied objects of all descriptors"""
    out: dict = {}
    seen_props = set()
    for cls in classes:
        for klass in reversed(cls.__mro__):
            for name in klass.__dict__.get('_props', ()):
                prop = klass.__dict__.get(name)
                if prop is None:
                    prop = getattr(klass, name, None)
                if prop is None or id(prop) in seen_props:
                    continue
                seen_props.add(id(prop))
                for attr in ('_default_py_value', '_implied_py_value'):
                    value = getattr(prop, attr, None)
                    if value is None or _immutable(value):
                        continue
                    for i, (path, obj) in parts(value).items():
                        out.setdefault(i, (f'{klass.__name__}.{name}', path, obj))
    return out


def mutate_in_place(obj, only: set | None = None) -> int:
    """Edit every mutable part below the members ``only`` (all members if None) of ``obj`` in place; -> number of edits.
    ``obj`` itself keeps its members (no member of ``obj`` is re-assigned): the edits go INTO the values it holds."""
    edits = 0
    seen = set()

    def edit(value, depth):
        nonlocal edits
        if depth > _MAX_DEPTH or _immutable(value) or id(value) in seen or isinstance(value, etree._Element):  # noqa: SLF001
            return
        seen.add(id(value))
        if isinstance(value, list):
            for x in list(value):
                edit(x, depth + 1)
            value.append(SENTINEL)
            edits += 1
        elif _is_value_object(value):
            for _name, prop in value.sorted_container_properties():
                try:
                    current = prop.get_actual_value(value)
                except Exception:  # noqa: BLE001, S112
                    continue
                if current is None or isinstance(current, str):
                    var = getattr(prop, '_local_var_name', None)
                    if var is not None:
                        setattr(value, var, SENTINEL)     # raw storage: no converter in the way, never written to XML
                        edits += 1
                else:
                    edit(current, depth + 1)

    for name, value in _members(obj):
        if only is None or name in only:
            edit(value, 0)
    return edits
