"""C14 only: hand-written WS-Discovery datagrams (generator, no oracle in here).

The library's own factory always writes the same prefixes, the same element order and one blank between list items.  A peer may spell the
same message differently: other prefixes (also for the QNames inside wsd:Types, also the default namespace), declarations on inner elements,
other white space between list items, ``<Address/>`` instead of ``<Address></Address>``, reference parameters inside an endpoint reference,
another order of the header blocks.  ``render`` takes the same message dicts as ``vf.props.c14.build``.
"""
from __future__ import annotations

from xml.sax.saxutils import escape, quoteattr

NS_S12 = 'http://www.w3.org/2003/05/soap-envelope'
NS_WSA = 'http://www.w3.org/2005/08/addressing'
NS_WSD = 'http://docs.oasis-open.org/ws-dd/ns/discovery/2009/01'
ADDRESS_ALL = 'urn:docs-oasis-open-org:ws-dd:ns:discovery:2009:01'
WSA_ANONYMOUS = NS_WSA + '/anonymous'

_P_S12 = ['s12', 'e', 'soap', 'S', 'env']
_P_WSA = ['wsa', 'a', 'wsa5', 'addr']
_P_WSD = ['wsd', 'd', 'disco', 'wsd2009']
_SEPS = [' ', ' ', '  ', '\n', '\n      ', '\t', ' \n ']


def _sep_join(rng, items):
    if not items:
        return rng.choice(['', '', ' ', '\n  '])
    lead = rng.choice(['', '', '', ' ', '\n    '])
    trail = rng.choice(['', '', '', ' ', '\n  '])
    out = lead
    for i, it in enumerate(items):
        if i:
            out += rng.choice(_SEPS)
        out += it
    return out + trail


def _types_element(rng, d, types):
    """<d:Types ...>q-names</d:Types>; every namespace gets a prefix of its own (declared here), one of them may be the default namespace."""
    if types is None:
        return ''
    if not types and rng.random() < 0.5:
        return f'<{d}:Types/>'
    spaces = []
    for ns, _ in types:
        if ns not in spaces:
            spaces.append(ns)
    rng.shuffle(spaces)
    default_ns = spaces[0] if spaces and rng.random() < 0.3 else None
    names = {}
    decl = ''
    style = rng.choice(['n', 'tns', 'q', 'x-'])
    for i, ns in enumerate(spaces):
        if ns == default_ns:
            decl += f' xmlns={quoteattr(ns)}'
            names[ns] = ''
        else:
            p = f'{style}{i}' if not style.endswith('-') else f'x-{i}.y'
            decl += f' xmlns:{p}={quoteattr(ns)}'
            names[ns] = p + ':'
    return f'<{d}:Types{decl}>{_sep_join(rng, [names[ns] + local for ns, local in types])}</{d}:Types>'


def _scopes_element(rng, d, scopes, rule):
    if scopes is None:
        return ''
    attr = '' if rule is None else f' MatchBy={quoteattr(rule)}'
    if not scopes and rng.random() < 0.5:
        return f'<{d}:Scopes{attr}/>'
    return f'<{d}:Scopes{attr}>{_sep_join(rng, [escape(s) for s in scopes])}</{d}:Scopes>'


def _xaddrs_element(rng, d, xaddrs):
    if xaddrs is None:
        return ''
    if not xaddrs and rng.random() < 0.5:
        return f'<{d}:XAddrs/>'
    return f'<{d}:XAddrs>{_sep_join(rng, [escape(x) for x in xaddrs])}</{d}:XAddrs>'


def _epr_element(rng, a, epr):
    if epr == '' and rng.random() < 0.5:
        addr = f'<{a}:Address/>'
    else:
        addr = f'<{a}:Address>{escape(epr)}</{a}:Address>'
    extra = ''
    r = rng.random()
    if r < 0.15:
        extra = f'<{a}:ReferenceParameters><p:Ticket xmlns:p="urn:x:params">{rng.randrange(100)}</p:Ticket></{a}:ReferenceParameters>'
    elif r < 0.25:
        extra = f'<{a}:Metadata/>'
    return f'<{a}:EndpointReference>{addr}{extra}</{a}:EndpointReference>'


def _announcement(rng, a, d, item):
    return (_epr_element(rng, a, item['epr']) + _types_element(rng, d, item['types']) + _scopes_element(rng, d, item['scopes'], item.get('rule'))
            + _xaddrs_element(rng, d, item['xaddrs']) + f'<{d}:MetadataVersion>{item["v"]}</{d}:MetadataVersion>')


def render(msg: dict, rng, mid: str | None = None) -> bytes:
    """bytes of the message; ``msg`` as for c14.build (kinds hello, bye, probematches, resolvematches, probe, resolve)."""
    kind = msg['kind']
    e, a, d = rng.choice(_P_S12), rng.choice(_P_WSA), rng.choice(_P_WSD)
    action = {'hello': 'Hello', 'bye': 'Bye', 'probematches': 'ProbeMatches', 'resolvematches': 'ResolveMatches', 'probe': 'Probe', 'resolve': 'Resolve'}[kind]
    mid = msg.get('mid') or mid or 'urn:uuid:raw-%032x' % rng.getrandbits(128)
    to = WSA_ANONYMOUS if kind in ('probematches', 'resolvematches') else ADDRESS_ALL
    blocks = [f'<{a}:To>{to}</{a}:To>', f'<{a}:Action>{NS_WSD}/{action}</{a}:Action>', f'<{a}:MessageID>{escape(mid)}</{a}:MessageID>']
    if kind in ('probematches', 'resolvematches'):
        blocks.append(f'<{a}:RelatesTo>urn:uuid:some-request</{a}:RelatesTo>')
    appseq = msg.get('appseq')
    if appseq:
        seq_id = '' if rng.random() < 0.7 else ' SequenceId="urn:uuid:seq-1"'
        blocks.append(f'<{d}:AppSequence InstanceId="{appseq[0]}"{seq_id} MessageNumber="{appseq[1]}"/>')
    if rng.random() < 0.5:
        rng.shuffle(blocks)
    if kind == 'hello':
        body = f'<{d}:Hello>{_announcement(rng, a, d, msg["items"][0])}</{d}:Hello>'
    elif kind == 'bye':
        inner = _epr_element(rng, a, msg['epr'])
        if 'v' in msg:  # optional parts of a Bye
            inner += _types_element(rng, d, msg.get('types')) + _scopes_element(rng, d, msg.get('scopes'), None) + _xaddrs_element(rng, d, msg.get('xaddrs'))
            if msg['v'] is not None:
                inner += f'<{d}:MetadataVersion>{msg["v"]}</{d}:MetadataVersion>'
        body = f'<{d}:Bye>{inner}</{d}:Bye>'
    elif kind == 'probematches':
        body = f'<{d}:ProbeMatches>' + ''.join(f'<{d}:ProbeMatch>{_announcement(rng, a, d, it)}</{d}:ProbeMatch>' for it in msg['items']) + f'</{d}:ProbeMatches>'
    elif kind == 'resolvematches':
        body = f'<{d}:ResolveMatches>' + ''.join(f'<{d}:ResolveMatch>{_announcement(rng, a, d, it)}</{d}:ResolveMatch>' for it in msg['items'][:1]) + f'</{d}:ResolveMatches>'
    elif kind == 'probe':
        body = f'<{d}:Probe>{_types_element(rng, d, msg["types"])}{_scopes_element(rng, d, msg["scopes"], msg.get("rule"))}</{d}:Probe>'
    elif kind == 'resolve':
        body = f'<{d}:Resolve>{_epr_element(rng, a, msg["epr"])}</{d}:Resolve>'
    else:
        raise ValueError(kind)
    # namespace declarations: all on the envelope, or the discovery namespace only where it is first needed
    if rng.random() < 0.6:
        env_decl = f'xmlns:{e}="{NS_S12}" xmlns:{a}="{NS_WSA}" xmlns:{d}="{NS_WSD}"'
        hdr_decl = body_decl = ''
    else:
        env_decl = f'xmlns:{e}="{NS_S12}" xmlns:{a}="{NS_WSA}"'
        hdr_decl = body_decl = f' xmlns:{d}="{NS_WSD}"'
    nl = rng.choice(['', '', '\n'])
    head = rng.choice(['<?xml version="1.0" encoding="UTF-8"?>', "<?xml version='1.0' encoding='utf-8'?>\n", ''])
    text = (f'{head}<{e}:Envelope {env_decl}>{nl}<{e}:Header{hdr_decl}>{"".join(blocks)}</{e}:Header>{nl}'
            f'<{e}:Body{body_decl}>{body}</{e}:Body>{nl}</{e}:Envelope>')
    return text.encode('utf-8')
