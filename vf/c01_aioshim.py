"""C01 only, TEMPORARY: keeps the loop-back transport usable with the asynchronous SOAP client of the current /repo HEAD.

/repo commit 968f31b changed SoapClientAsync.async_post_message_to: it now calls ``await resp.read()``, reads
``resp.headers.getall('Content-Encoding', [])`` and may pass ``chunked=True`` with an async generator as ``data``.  The shared
``vf.loopback._FakeAioResponse`` / ``_FakeAioSession`` (not a C01 file) only know the old interface (``text()``, ``post(path, data, headers)``),
so every notification of a provider with the asynchronous subscription manager fails with AttributeError and no consumer follows.
``ensure()`` adds the missing members at run time, in this process only, and does nothing once vf/loopback.py has them itself.
"""
from __future__ import annotations

from . import loopback


def ensure() -> bool:
    resp_cls, sess_cls = loopback._FakeAioResponse, loopback._FakeAioSession  # noqa: SLF001
    if hasattr(resp_cls, 'read'):
        return False
    from multidict import CIMultiDict

    async def read(self):
        return self._body  # noqa: SLF001

    orig_aenter = resp_cls.__aenter__

    async def aenter(self):
        if not isinstance(self.data, (bytes, bytearray, str, type(None))) and hasattr(self.data, '__aiter__'):
            self.data = b''.join([piece async for piece in self.data])   # chunked request body: the pieces, put together again
        try:
            return await orig_aenter(self)
        finally:
            self.headers = CIMultiDict()   # from now on: the response headers (the fake server answers uncompressed)

    def post(self, path, data=None, headers=None, **_kw):
        return resp_cls(self, path, data, headers)

    resp_cls.read = read
    resp_cls.__aenter__ = aenter
    sess_cls.post = post
    return True
