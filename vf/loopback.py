"""Socket-free loop-back transport (DESIGN 2.1, fidelity L1) with wire log and fault injection.

``Network`` is a registry ``netloc -> FakeHttpServer``.  ``LoopSoapClient`` / ``LoopSoapClientAsync`` are the library's real SOAP
clients with only ``_mk_http_connection`` replaced, so serialisation, outgoing schema validation, compression choice, chunking
and fault handling stay real.  The server side decodes the body with the real ``HTTPReader.read_request_body`` and calls the
addressed ``MessageConverterMiddleware.do_post / do_get`` - the same call the real request handler makes.

Every message is appended to ``Network.log`` *before* it is handed on and completed with the reply afterwards.
A ``policy(entry) -> action`` hook of the network decides per message: deliver, or answer with an injected fault.
"""
from __future__ import annotations

import email.message
import io
import threading
from dataclasses import dataclass, field
from http.client import HTTPException
from urllib.parse import urlparse

from sdc11073.dispatch import PathElementRegistry
from sdc11073.exceptions import InvalidPathError
from sdc11073.httpserver.httpreader import HTTPReader
from sdc11073.pysoap.soapclient import SoapClient
from sdc11073.pysoap.soapclient_async import SoapClientAsync


@dataclass
class WireEntry:
    seq: int
    netloc: str
    method: str
    path: str
    headers: dict
    raw_body: bytes  # as put on the wire (possibly compressed / chunked)
    body: bytes | None = None  # decoded
    status: int | None = None
    reason: str | None = None
    response: bytes | None = None
    injected: str | None = None  # name of the injected fault, if any
    thread: str = ''
    extra: dict = field(default_factory=dict)


class Deliver:
    """policy result: hand the message to the addressed component."""


class Respond:
    """policy result: do not deliver; answer with status (and optional body)."""

    def __init__(self, status: int, reason: str = 'injected', body: bytes = b'', name: str | None = None):
        self.status, self.reason, self.body = status, reason, body
        self.name = name or f'http{status}'


class Raise:
    """policy result: do not deliver; raise an exception in the client (refused, timeout ...)."""

    def __init__(self, exc: BaseException, name: str | None = None):
        self.exc = exc
        self.name = name or type(exc).__name__


class FakeHttpServer:
    """What SdcProvider / SdcConsumer need from a ``shared_http_server``."""

    def __init__(self, network: 'Network', host: str, port: int, scheme: str = 'http', supported_encodings=None, chunk_size=0):
        self.network = network
        self.host, self.port, self.scheme = host, port, scheme
        self.dispatcher = PathElementRegistry()
        self.server_port = port
        self.base_url = f'{scheme}://{host}:{port}/'
        self.supported_encodings = supported_encodings
        self.chunk_size = chunk_size
        self.started_evt = threading.Event()
        self.started_evt.set()
        network.servers[f'{host}:{port}'] = self

    def start(self):
        pass

    def stop(self):
        pass


class Network:
    def __init__(self):
        self.servers: dict[str, FakeHttpServer] = {}
        self.log: list[WireEntry] = []
        self.lock = threading.RLock()
        self.policy = None  # callable(entry) -> Deliver | Respond | Raise | None
        self.observers = []  # callables(entry) called after completion
        self._next_port = 20000
        self.connections = []  # (netloc, ssl_context) of every connection object created by a loop-back client
        self.async_delay = None  # callable(netloc, path, data) -> seconds: the async client's transfer suspends that long

    def new_server(self, host='127.0.0.1', scheme='http', **kw) -> FakeHttpServer:
        with self.lock:
            self._next_port += 1
            port = self._next_port
        return FakeHttpServer(self, host, port, scheme, **kw)

    # -- the transport ---------------------------------------------------------------------------
    def transmit(self, netloc: str, method: str, path: str, headers: dict, raw_body: bytes, bypass_policy: bool = False,
                 extra: dict | None = None) -> WireEntry:
        with self.lock:
            entry = WireEntry(len(self.log), netloc, method, path, dict(headers), raw_body or b'', thread=threading.current_thread().name)
            if extra:
                entry.extra.update(extra)
            self.log.append(entry)
        action = self.policy(entry) if (self.policy is not None and not bypass_policy) else None
        if isinstance(action, Raise):
            entry.injected = action.name
            self._done(entry)
            raise action.exc
        if isinstance(action, Respond):
            entry.injected = action.name
            entry.status, entry.reason, entry.response = action.status, action.reason, action.body
            self._done(entry)
            return entry
        server = self.servers.get(netloc)
        if server is None:
            entry.injected = 'no-server'
            self._done(entry)
            raise ConnectionRefusedError(f'loop-back: nothing listens on {netloc}')
        self._serve(server, entry)
        self._done(entry)
        return entry

    def _done(self, entry):
        for obs in list(self.observers):
            obs(entry)

    @staticmethod
    def _serve(server: FakeHttpServer, entry: WireEntry):
        msg = email.message.Message()
        for k, v in entry.headers.items():
            msg[k] = v
        parsed = urlparse(entry.path)
        elems = parsed.path.split('/')
        first = elems[0] if len(elems[0]) > 0 else (elems[1] if len(elems) > 1 else '')
        peer = ('127.0.0.1', 1)
        if entry.method == 'POST':
            fake_request = type('Req', (), {'headers': msg, 'rfile': io.BytesIO(entry.raw_body)})()
            entry.body = HTTPReader.read_request_body(fake_request, server.supported_encodings)
            try:
                component = server.dispatcher.get_instance(first)
            except InvalidPathError as ex:
                entry.status, entry.reason, entry.response = ex.status, ex.reason, b''
                return
            entry.status, entry.reason, entry.response = component.do_post(msg, entry.path, peer, entry.body)
        else:
            try:
                component = server.dispatcher.get_instance(first)
            except InvalidPathError as ex:
                entry.status, entry.reason, entry.response = ex.status, ex.reason, b''
                return
            status, reason, response, _ctype = component.do_get(msg, entry.path, peer)
            if isinstance(response, str):
                response = response.encode('utf-8')
            entry.status, entry.reason, entry.response = status, reason, response


# ------------------------------------------------------------------------------------------------
# sync client
# ------------------------------------------------------------------------------------------------
class _FakeSock:
    def getsockname(self):
        return ('127.0.0.1', 55555)

    def getpeercert(self, binary_form=False):
        return b'' if binary_form else {}

    def setsockopt(self, *a):
        pass


class _FakeResponse:
    def __init__(self, entry: WireEntry):
        self.status = entry.status
        self.reason = entry.reason
        self._body = entry.response or b''
        self._pos = 0
        self._headers = {'content-length': str(len(self._body)), 'content-type': 'application/soap+xml; charset=utf-8'}

    def getheader(self, name, default=None):
        return self._headers.get(name.lower(), default)

    def getheaders(self):
        return list(self._headers.items())

    def read(self, amt=None):
        if amt is None:
            data = self._body[self._pos:]
            self._pos = len(self._body)
        else:
            data = self._body[self._pos:self._pos + amt]
            self._pos += len(data)
        return data


class FakeConnection:
    def __init__(self, network: Network, netloc: str, ssl_context=None):
        self.network, self.netloc, self.ssl_context = network, netloc, ssl_context
        self.sock = None
        self._entry = None
        network.connections.append((netloc, ssl_context))

    def connect(self):
        server = self.network.servers.get(self.netloc)
        if server is None:
            raise ConnectionRefusedError(f'loop-back: nothing listens on {self.netloc}')
        # what a real TLS / plaintext mismatch looks like to the client
        if self.ssl_context is not None and server.scheme != 'https':
            import ssl
            raise ssl.SSLError(1, '[SSL: WRONG_VERSION_NUMBER] loop-back: TLS client hello sent to a plaintext server')
        if self.ssl_context is None and server.scheme == 'https':
            raise ConnectionResetError('loop-back: plaintext request sent to a TLS server')
        self.sock = _FakeSock()

    def close(self):
        self.sock = None

    def request(self, method, url, body=None, headers=None):
        if self.sock is None:
            self.connect()
        if isinstance(body, str):
            body = body.encode('utf-8')
        self._entry = self.network.transmit(self.netloc, method, url, headers or {}, body or b'')

    def getresponse(self):
        entry, self._entry = self._entry, None
        if entry is None:
            raise HTTPException('loop-back: getresponse without request')
        return _FakeResponse(entry)


NETWORK: Network | None = None  # the network used by clients that are constructed by library code


def mk_soap_client_class(network: Network):
    class LoopSoapClient(SoapClient):
        def _mk_http_connection(self):
            return FakeConnection(network, self._netloc, self._ssl_context)

    return LoopSoapClient


class _FakeAioResponse:
    """async context manager returned by ``session.post``; the transmission happens when it is entered, after the optional delay
    the network dictates for this message (``Network.async_delay`` - a transfer that really suspends, like a slow link).

    Offers both interfaces SoapClientAsync has used: ``text()`` (aiohttp decodes) and ``read()`` + ``headers.getall()`` (the client
    decodes itself, /repo 617bbaa); a request body given as async generator (``chunked=True``, /repo 968f31b) is put together again -
    the loop-back replaces the HTTP framing, the fake server answers uncoded."""

    def __init__(self, session, path, data, headers, chunked=False):
        self.session, self.path, self.data, self.request_headers = session, path, data, dict(headers or {})
        self.chunked = chunked
        self.status = self.reason = None
        self._body = b''
        try:
            from multidict import CIMultiDict
            self.headers = CIMultiDict()   # response headers
        except ImportError:  # pragma: no cover
            self.headers = {}

    async def text(self):
        return self._body.decode('utf-8')

    async def read(self):
        return self._body

    async def __aenter__(self):
        net = self.session.network
        if not isinstance(self.data, (bytes, bytearray, str, type(None))) and hasattr(self.data, '__aiter__'):
            self.data = b''.join([piece async for piece in self.data])
        if net.async_delay is not None:
            delay = net.async_delay(self.session.netloc, self.path, self.data)
            if delay:
                import asyncio
                await asyncio.sleep(delay)
        server = net.servers.get(self.session.netloc)
        if server is not None and (self.session.ssl_context is not None) != (server.scheme == 'https'):
            raise ConnectionResetError('loop-back: TLS / plaintext mismatch')
        entry = net.transmit(self.session.netloc, 'POST', self.path, self.request_headers, self.data or b'')
        self.status, self.reason = entry.status, entry.reason
        self._body = entry.response or b''
        return self

    async def __aexit__(self, *a):
        return False


class _FakeAioSession:
    def __init__(self, network, netloc, ssl_context):
        self.network, self.netloc, self.ssl_context = network, netloc, ssl_context
        network.connections.append((netloc, ssl_context))

    def post(self, path, data=None, headers=None, chunked=False, **_kw):
        return _FakeAioResponse(self, path, data, headers, chunked=bool(chunked))

    async def close(self):
        pass


def mk_soap_client_async_class(network: Network):
    class LoopSoapClientAsync(SoapClientAsync):
        async def _mk_http_connection(self):
            return _FakeAioSession(network, self._netloc, self._ssl_context)

    return LoopSoapClientAsync


class WsdStub:
    """WS-Discovery stand-in for provider / consumer."""

    def __init__(self, address='127.0.0.1'):
        self.active_address = address
        self.published = []
        self.cleared = []

    def publish_service(self, epr, types, scopes, x_addrs):
        self.published.append((epr, types, scopes, x_addrs))

    def clear_service(self, epr):
        self.cleared.append(epr)
