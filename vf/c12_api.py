"""C12 helpers: the parts of the PUBLIC API of the container / data-type classes that the generic construct / parse / copy workloads do not reach.

* ``ctor_default_objects(cls)`` - mutable objects that are default arguments of an ``__init__`` in the MRO (class-level objects: a constructor that
  stores one hands the very same object to every instance);
* ``helper_calls(cls)`` - the helper / factory methods of a class found by reflection (everything public that is not part of the two generic base
  classes): ``mk_metric_value``, ``add_report_part``, ``init_end_to``, ``set_filter``, ``add_reason``, ``add_error_message``, ``add_argument``,
  ``mk_reply_header_block``, ``update_from_sdc_location``, ``from_sdc_location``, ``LocalizedStringType.init`` ...  Required arguments are provided by
  parameter NAME (``ARGS``: a factory per name, a new object for every call - an argument object shared by the caller is the caller's sharing);
  a method with a required parameter of an unknown name is left out (serialisers and update functions: they have workloads of their own).
"""
from __future__ import annotations

import inspect


def _lib_bases():
    import sdc11073.mdib.containerbase as cb
    import sdc11073.xml_types.basetypes as bt
    return bt.XMLTypeBase, cb.ContainerBase


def ctor_default_objects(cls, immutable) -> list[tuple[str, object]]:
    """[('<Class>.__init__.<param>', default object)] for every mutable default argument of a constructor in the MRO"""
    out = []
    for c in inspect.getmro(cls):
        f = c.__dict__.get('__init__')
        if not inspect.isfunction(f):
            continue
        try:
            params = inspect.signature(f).parameters
        except (TypeError, ValueError):
            continue
        for pname, p in params.items():
            if p.default is not inspect.Parameter.empty and not immutable(p.default):
                out.append((f'{c.__name__}.__init__.{pname}', p.default))
    return out


def _sdc_location():
    from sdc11073.location import SdcLocation
    return SdcLocation(fac='fac1', poc='poc1', bed='bed1', bldng='b', flr='2', rm='r')


def _version_group():
    from sdc11073.mdib.mdibbase import MdibVersionGroup
    return MdibVersionGroup(7, 'urn:uuid:4c1b2e1a-5f0e-4c7a-9b1f-2a3b4c5d6e7f', 3)


def _argument():
    from sdc11073.xml_types import msg_types
    a = msg_types.Argument()
    a.ArgValue = 'verif'
    return a


def _retrievabilities():
    from sdc11073.xml_types import pm_types
    return [pm_types.Retrievability([pm_types.RetrievabilityInfo(pm_types.RetrievabilityMethod.GET)])]


ARGS = {
    'text': lambda: 'verif text', 'filter_text': lambda: 'http://verif/action1 http://verif/action2', 'the_string': lambda: 'verif',
    'handle': lambda: 'verif.handle', 'date_time_of_birth_string': lambda: '2001-02-03', 'sdc_location': _sdc_location,
    'mdib_version_group': _version_group, 'arg_value': _argument, 'retrievabilities': _retrievabilities,
    'descriptor_container': lambda: None,
}
# not helpers of ONE instance: covered by the copy workload / need a document
LEFT_OUT = {'update_from_other_container', 'from_node', 'value_class_from_node'}


def helper_calls(cls) -> list[tuple[str, bool, list]]:
    """[(method name, is classmethod, [factory per required positional argument])]"""
    xml_base, container_base = _lib_bases()
    generic = set(dir(xml_base)) | set(dir(container_base))
    out = []
    for name in sorted(dir(cls)):
        if name.startswith('_') or name in generic or name in LEFT_OUT:
            continue
        raw = inspect.getattr_static(cls, name)
        is_cm = isinstance(raw, classmethod)
        f = raw.__func__ if isinstance(raw, (classmethod, staticmethod)) else raw
        if not inspect.isfunction(f) or isinstance(raw, staticmethod):
            continue
        if not (getattr(f, '__module__', '') or '').startswith('sdc11073'):
            continue
        try:
            params = list(inspect.signature(f).parameters.values())[1:]
        except (TypeError, ValueError):
            continue
        required = [p for p in params if p.default is inspect.Parameter.empty and p.kind in (p.POSITIONAL_ONLY, p.POSITIONAL_OR_KEYWORD)]
        if any(p.name not in ARGS for p in required):
            continue
        out.append((name, is_cm, [ARGS[p.name] for p in required]))
    return out
