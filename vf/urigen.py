"""Generators of strings / URIs / discovery scopes for C16 and C14 (generators only - no oracle in here).

hypothesis is used as a *source of strings* (seeded, no shrinking, no database); everything else is drawn from the
``random.Random`` handed in by the check, so a run is reproducible from (seed, tier).
"""
from __future__ import annotations

import unicodedata
from urllib.parse import quote

RESERVED = "/?#&=+%; :@[]!$'()*,"


# ---------------------------------------------------------------------------------------------
# hypothesis as a string source
# ---------------------------------------------------------------------------------------------
def hyp_draw(strategy, n: int, seed_value: int) -> list:
    """n draws (possibly fewer distinct) from a hypothesis strategy, deterministic in seed_value."""
    from hypothesis import HealthCheck, Phase, given, seed, settings
    out = []

    @seed(seed_value)
    @settings(max_examples=n, database=None, phases=[Phase.generate], deadline=None,
              suppress_health_check=list(HealthCheck), derandomize=False)
    @given(strategy)
    def collect(x):
        out.append(x)

    collect()
    return out


def hyp_text_pool(n: int, seed_value: int, max_size: int = 40) -> list[str]:
    """non-empty texts over all Unicode planes (no lone surrogates: they are not encodable, not Unicode scalar values)."""
    from hypothesis import strategies as st
    any_char = st.characters(exclude_categories=('Cs',))
    reserved = st.sampled_from(list(RESERVED) + ['%2F', '%25', '%zz', '%C3', '\u00e4', '\u4e2d', '\U0001F600', '\U0010FFFD'])
    strat = st.one_of(
        st.text(any_char, min_size=1, max_size=max_size),
        st.lists(st.one_of(reserved, st.characters(min_codepoint=0x20, max_codepoint=0x7e)), min_size=1, max_size=max_size).map(''.join),
        st.lists(st.one_of(reserved, any_char), min_size=1, max_size=max_size).map(''.join),
        st.text(st.characters(min_codepoint=0x10000, max_codepoint=0x10FFFF), min_size=1, max_size=8),
    )
    return [s for s in hyp_draw(strat, n, seed_value) if s]


DIRECTED_VALUES = [
    'HOSP1', 'CU1', 'Bed42', '0', 'None', '.', '..', '/', '//', 'a/b', '/a', 'a/', '?', '#', '&', '=', '+', '%', ';', ' ', '  ',
    ' lead', 'trail ', 'a b', 'a+b', 'a%20b', '%2F', '%25', '%2f', '%zz', '%', '%%', '%C3', '%C3%A4', 'a&fac=b', 'a=b', 'a;b', 'a&b',
    'a#b?c', '?x=1', '#frag', ':', '@', '[::1]', '[', ']', 'http://x/y?z=1#f', '\u00e4\u00f6\u00fc\u00df', '\u4e2d\u6587', '\u0416',
    '\U0001F600', '\U0010FFFF', '\U00010000', 'A\u030a', '\u00c5', '\u200b', '\ufeff', '\u202e', '\ufffd', '\u2028', '\t', '\n', '\r\n',
    '\x00', '\x01', '\x7f', '\x85', '\xa0', '\\', '"', "'", '<', '>', '{}', '|', '^', '`', '~', 'x' * 300, '\u00e4/' * 200, 'A' * 5000,
    '&' * 100, '%' * 64, '+' * 17, 'fac', 'bed=1', 'sdc.ctxt.loc.detail', 'sdc.ctxt.loc:/x/y?fac=z',
]


def char_classes(s: str) -> str:
    """short signature of the kinds of characters in s (used for the *shape* of a case)."""
    out = set()
    for ch in s:
        o = ord(ch)
        if ch.isascii() and ch.isalnum():
            out.add('a')
        elif ch in RESERVED:
            out.add({'/': 's', '%': 'p', ' ': 'w', '+': '+', '&': '&', '=': '=', '?': '?', '#': '#', ';': ';'}.get(ch, 'r'))
        elif o < 0x20 or o == 0x7f:
            out.add('c')
        elif o < 0x80:
            out.add('o')
        elif o < 0x100:
            out.add('1')
        elif o < 0x10000:
            out.add('b')
        else:
            out.add('A')
    if len(s) > 200:
        out.add('L')
    return ''.join(sorted(out))


def coarse_classes(s: str) -> str:
    """coarser signature: a=ASCII alnum, r=reserved/punctuation, c=control, b=non-ASCII BMP, A=astral, L=long."""
    m = {'a': 'a', 'c': 'c', '1': 'b', 'b': 'b', 'A': 'A', 'L': 'L'}
    return ''.join(sorted({m.get(c, 'r') for c in char_classes(s)}))


def pick_value(rng, pool: list[str]) -> str:
    r = rng.random()
    if r < 0.25:
        return rng.choice(DIRECTED_VALUES)
    if r < 0.30:
        return rng.choice(DIRECTED_VALUES) + rng.choice(pool)
    return rng.choice(pool)


def different_values(rng, value: str, pool: list[str]) -> list[str]:
    """strings that are all != value (the caller relies on that), close to it."""
    cand = [value + 'x', 'x' + value, value + ' ', value + '/', value[:-1], value.swapcase(), value.lower(), value.upper(),
            quote(value, safe=''), quote(value), value.replace(' ', '+'), value + '%', value * 2,
            unicodedata.normalize('NFD', value), unicodedata.normalize('NFKC', value), rng.choice(pool), rng.choice(DIRECTED_VALUES)]
    out = []
    for c in cand:
        if c and c != value and c not in out:
            out.append(c)
    return out


# ---------------------------------------------------------------------------------------------
# hostile scope strings for the location filter (C16)
# ---------------------------------------------------------------------------------------------
LOC_SCHEMES = ['sdc.ctxt.loc'] * 12 + ['SDC.CTXT.LOC', 'Sdc.Ctxt.Loc', 'sdc.ctxt.LOC']
OTHER_SCHEMES = ['sdc.ctxt.opr', 'sdc.ctxt.ens', 'sdc.ctxt.wfl', 'sdc.ctxt.mns', 'sdc.ctxt.pat', 'sdc.cdc.type', 'sdc.mds.pkp', 'http', 'https',
                 'HTTP', 'urn', 'ldap', 'mailto', 'file', 'ws', 'x', 'a+b-c.d', '1ab', 'sdc.ctxt.loc.detail', 'sdc.ctxt.lo', 'sdc.ctxt.locx', '', ' ',
                 '\u00e4', 'sdc_ctxt_loc']
AUTHORITIES = ['', '', '', '', '', '', '', '', '//', '//host', '//host:80', '//HOST', '//user:pw@host', '//[::1]', '//[::1]:3702', '//[::1', '//::1]',
               '//[', '//]', '//[zz]', '//[v1.x]', '//[1.2.3.4]', '//a\u2100b', '//\uff0f', '//\u2488com', '//host:notaport', '//host:99999',
               '//%5B::1', '//[fe80::1%25eth0]', '//\u00e4.example', '//a b', '//\x00', '//[::1]x']
SEGMENTS = ['sdc.ctxt.loc.detail'] * 6 + ['root', 'biceps.uri.unk', '', '', '%2F', '%2F%2F%2F%2F%2F', 'a%2Fb', 'H%2F%2F%2FCU1%2F%2FBed', '..', '.', '%',
                                           '%zz', '%C3', '%C3%A4', '\u00e4', '\U0001F600', ' ', 'a b', '\t', '\n', '\x00', '\x7f', ';x=1', 'a;b', '@', ':',
                                           'a:b', '[', ']', '\\', 'x' * 3000, '%252F', '+', 'sdc.ctxt.loc.detail%2Fx', 'SDC.CTXT.LOC.DETAIL']
QUERIES = [None, None, '', 'fac=a', 'fac=HOSP1&poc=CU1&bed=Bed42', 'fac=a&bldng=b&flr=c&poc=d&rm=e&bed=f', '&', '&&&', '=', '=a', '==', 'fac', 'fac=',
           'fac==', 'fac=a=b', 'fac=%', 'fac=%zz', 'fac=%C3', 'fac=%FF%FE', 'fac=a;bed=b', 'fac=a&fac=b', 'root=x', 'self=1', 'cls=1', 'FAC=a',
           'fac=a&unknown=1', 'fac=+', 'fac=%20', 'fac=a%26bed%3Db', 'fac=\u00e4', 'fac=\U0001F600', 'fac=a b', 'fac=a\tb', 'fac=\x00', '?', '?fac=a',
           'fac=a?bed=b', 'fac=a#', 'fac=' + 'x' * 20000, '&'.join(f'k{i}=v' for i in range(2000)), 'fac=a&' * 500, '%', '%%%', ';', ';;;',
           'fac[]=a', 'fac=a&poc', 'bed=&fac=', '\u2028', 'fac=%00', 'fac=%0A', 'fac=%u00e4', ' fac=a', 'fac =a', 'fac= a ']
FRAGMENTS = [None, None, None, None, '', 'frag', 'fac=a', '?', '#', '\u00e4', '%zz']
RAW = ['', ' ', '  ', ':', '::', '/', '//', '///', '?', '#', '?#', 'sdc.ctxt.loc', 'sdc.ctxt.loc:', 'sdc.ctxt.loc:/', 'sdc.ctxt.loc://', 'sdc.ctxt.loc:///',
       'sdc.ctxt.loc:?', 'sdc.ctxt.loc:#', 'sdc.ctxt.loc:?fac=a', 'sdc.ctxt.loc:root', 'sdc.ctxt.loc:root/ext', 'sdc.ctxt.loc:/root', 'sdc.ctxt.loc:/root/',
       'sdc.ctxt.loc:/root/ext', 'sdc.ctxt.loc:/root/ext/', 'sdc.ctxt.loc:/root/ext/more', 'sdc.ctxt.loc://root/ext', 'sdc.ctxt.loc:/a/b/c/d/e/f',
       'sdc.ctxt.loc:/sdc.ctxt.loc.detail', 'sdc.ctxt.loc:/sdc.ctxt.loc.detail?fac=a', 'sdc.ctxt.loc:/biceps.uri.unk', 'sdc.ctxt.loc:/biceps.uri.unk/x',
       'sdc.ctxt.loc://[::1', 'sdc.ctxt.loc://[::1]/root/ext', 'http://[::1', 'http://[::1]', 'http://::1]', 'http://[', 'HTTP://[::1/x', 'http://a\u2100b/',
       'sdc.ctxt.loc://a\u2100b/r/e', 'urn:uuid:1234', 'sdc.mds.pkp:1.2.840.10004.20701.1.1', 'sdc.cdc.type:///130535', 'sdc.cdc.type:/a/b/c',
       '\x00', '\n', 'sdc.ctxt.loc:\n/root/ext', ' sdc.ctxt.loc:/root/ext', 'sdc.ctxt.loc:/root/ext ', '\tsdc.ctxt.loc:/r/e', 'sdc.ctxt.loc:/r\n/e',
       'sdc.ctxt.loc:/%2F', 'sdc.ctxt.loc:/%2F/%2F', 'sdc.ctxt.loc:%2Froot%2Fext', 'sdc.ctxt.loc:\\root\\ext', 'sdc.ctxt.loc:/root;p=1/ext;q=2',
       'sdc.ctxt.loc:/r/e?fac=a#f', 'sdc.ctxt.loc:/r/e#f?fac=a', 'SDC.CTXT.LOC:/R', 'sdc.ctxt.loc', 'sdc.ctxt.loc/r/e', '//sdc.ctxt.loc:/r/e',
       '[', ']', '[]', 'a[b]c', 'x://[', 'x://]', 'x:[', 'sdc.ctxt.loc:[', 'sdc.ctxt.loc:/[/]', 'sdc.ctxt.loc:/[::1/x']


def foreign_scope(rng, pool: list[str]) -> tuple[str, tuple]:
    """a scope string some other device might publish + its shape (scheme class, authority class, #segments, query class, fragment)."""
    r = rng.random()
    if r < 0.12:
        s = rng.choice(RAW)
        return s, ('raw', s[:40])
    if r < 0.17:
        s = rng.choice(pool)
        if rng.random() < 0.5:
            s = 'sdc.ctxt.loc:' + s
        return s, ('hyp', coarse_classes(s), s.count('/') if s.count('/') < 8 else 8, '?' in s, '[' in s or ']' in s)
    loc = rng.random() < 0.8
    scheme = rng.choice(LOC_SCHEMES) if loc else rng.choice(OTHER_SCHEMES)
    auth = rng.choice(AUTHORITIES)
    nseg = rng.choice([0, 1, 1, 2, 2, 2, 3, 3, 4, 5, 6])
    segs = []
    for _ in range(nseg):
        q = rng.random()
        if q < 0.7:
            segs.append(rng.choice(SEGMENTS))
        elif q < 0.85:
            segs.append(quote(rng.choice(pool), safe=''))
        else:
            segs.append(rng.choice(pool).replace('\n', ''))
    lead = rng.random() < 0.9
    path = ('/' if lead and nseg else '') + '/'.join(segs)
    if rng.random() < 0.08:
        path += '/'
    qi = rng.randrange(len(QUERIES))
    query = QUERIES[qi]
    if query is not None and rng.random() < 0.15:
        query = 'fac=' + rng.choice(pool) + '&bed=' + quote(rng.choice(pool), safe='')
        qi = -1
    fi = rng.randrange(len(FRAGMENTS))
    frag = FRAGMENTS[fi]
    s = (scheme + ':' if scheme or rng.random() < 0.5 else '') + auth + path
    if query is not None:
        s += '?' + query
    if frag is not None:
        s += '#' + frag
    kind = 'loc' if loc else ('ctx' if scheme.startswith('sdc.') else 'other')
    return s, ('gen', kind, auth[:12], nseg, qi)
