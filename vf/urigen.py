"""Generators of strings / URIs / discovery scopes for C16 and C14 (generators only - no oracle in here).

hypothesis is used as a *source of strings* (seeded, no shrinking, no database); everything else is drawn from the
``random.Random`` handed in by the check, so a run is reproducible from (seed, tier).
"""
from __future__ import annotations

import unicodedata
from urllib.parse import quote

RESERVED = "/?#&=+%; :@[]!$'()*,"


# ---------------------------------------------------------------------------------------------
# hypothesis as a string source
# ---------------------------------------------------------------------------------------------
def hyp_draw(strategy, n: int, seed_value: int) -> list:
    """n draws (possibly fewer distinct) from a hypothesis strategy, deterministic in seed_value."""
    from hypothesis import HealthCheck, Phase, given, seed, settings
    out = []

    @seed(seed_value)
    @settings(max_examples=n, database=None, phases=[Phase.generate], deadline=None,
              suppress_health_check=list(HealthCheck), derandomize=False)
    @given(strategy)
    def collect(x):
        out.append(x)

    collect()
    return out


def hyp_text_pool(n: int, seed_value: int, max_size: int = 40) -> list[str]:
    """non-empty texts over all Unicode planes (no lone surrogates: they are not encodable, not Unicode scalar values)."""
    from hypothesis import strategies as st
    any_char = st.characters(exclude_categories=('Cs',))
    reserved = st.sampled_from(list(RESERVED) + ['%2F', '%25', '%zz', '%C3', '\u00e4', '\u4e2d', '\U0001F600', '\U0010FFFD'])
    strat = st.one_of(
        st.text(any_char, min_size=1, max_size=max_size),
        st.lists(st.one_of(reserved, st.characters(min_codepoint=0x20, max_codepoint=0x7e)), min_size=1, max_size=max_size).map(''.join),
        st.lists(st.one_of(reserved, any_char), min_size=1, max_size=max_size).map(''.join),
        st.text(st.characters(min_codepoint=0x10000, max_codepoint=0x10FFFF), min_size=1, max_size=8),
    )
    return [s for s in hyp_draw(strat, n, seed_value) if s]


DIRECTED_VALUES = [
    'HOSP1', 'CU1', 'Bed42', '0', 'None', '.', '..', '/', '//', 'a/b', '/a', 'a/', '?', '#', '&', '=', '+', '%', ';', ' ', '  ',
    ' lead', 'trail ', 'a b', 'a+b', 'a%20b', '%2F', '%25', '%2f', '%zz', '%', '%%', '%C3', '%C3%A4', 'a&fac=b', 'a=b', 'a;b', 'a&b',
    'a#b?c', '?x=1', '#frag', ':', '@', '[::1]', '[', ']', 'http://x/y?z=1#f', '\u00e4\u00f6\u00fc\u00df', '\u4e2d\u6587', '\u0416',
    '\U0001F600', '\U0010FFFF', '\U00010000', 'A\u030a', '\u00c5', '\u200b', '\ufeff', '\u202e', '\ufffd', '\u2028', '\t', '\n', '\r\n',
    '\x00', '\x01', '\x7f', '\x85', '\xa0', '\\', '"', "'", '<', '>', '{}', '|', '^', '`', '~', 'x' * 300, '\u00e4/' * 200, 'A' * 5000,
    '&' * 100, '%' * 64, '+' * 17, 'fac', 'bed=1', 'sdc.ctxt.loc.detail', 'sdc.ctxt.loc:/x/y?fac=z',
]


def char_classes(s: str) -> str:
    """short signature of the kinds of characters in s (used for the *shape* of a case)."""
    out = set()
    for ch in s:
        o = ord(ch)
        if ch.isascii() and ch.isalnum():
            out.add('a')
        elif ch in RESERVED:
            out.add({'/': 's', '%': 'p', ' ': 'w', '+': '+', '&': '&', '=': '=', '?': '?', '#': '#', ';': ';'}.get(ch, 'r'))
        elif o < 0x20 or o == 0x7f:
            out.add('c')
        elif o < 0x80:
            out.add('o')
        elif o < 0x100:
            out.add('1')
        elif o < 0x10000:
            out.add('b')
        else:
            out.add('A')
    if len(s) > 200:
        out.add('L')
    return ''.join(sorted(out))


def coarse_classes(s: str) -> str:
    """coarser signature: a=ASCII alnum, r=reserved/punctuation, c=control, b=non-ASCII BMP, A=astral, L=long."""
    m = {'a': 'a', 'c': 'c', '1': 'b', 'b': 'b', 'A': 'A', 'L': 'L'}
    return ''.join(sorted({m.get(c, 'r') for c in char_classes(s)}))


def pick_value(rng, pool: list[str]) -> str:
    r = rng.random()
    if r < 0.25:
        return rng.choice(DIRECTED_VALUES)
    if r < 0.30:
        return rng.choice(DIRECTED_VALUES) + rng.choice(pool)
    return rng.choice(pool)


def different_values(rng, value: str, pool: list[str]) -> list[str]:
    """strings that are all != value (the caller relies on that), close to it."""
    cand = [value + 'x', 'x' + value, value + ' ', value + '/', value[:-1], value.swapcase(), value.lower(), value.upper(),
            quote(value, safe=''), quote(value), value.replace(' ', '+'), value + '%', value * 2,
            unicodedata.normalize('NFD', value), unicodedata.normalize('NFKC', value), rng.choice(pool), rng.choice(DIRECTED_VALUES)]
    out = []
    for c in cand:
        if c and c != value and c not in out:
            out.append(c)
    return out


# ---------------------------------------------------------------------------------------------
# hostile scope strings for the location filter (C16)
# ---------------------------------------------------------------------------------------------
LOC_SCHEMES = ['sdc.ctxt.loc'] * 12 + ['SDC.CTXT.LOC', 'Sdc.Ctxt.Loc', 'sdc.ctxt.LOC']
OTHER_SCHEMES = ['sdc.ctxt.opr', 'sdc.ctxt.ens', 'sdc.ctxt.wfl', 'sdc.ctxt.mns', 'sdc.ctxt.pat', 'sdc.cdc.type', 'sdc.mds.pkp', 'http', 'https',
                 'HTTP', 'urn', 'ldap', 'mailto', 'file', 'ws', 'x', 'a+b-c.d', '1ab', 'sdc.ctxt.loc.detail', 'sdc.ctxt.lo', 'sdc.ctxt.locx', '', ' ',
                 '\u00e4', 'sdc_ctxt_loc']
AUTHORITIES = ['', '', '', '', '', '', '', '', '//', '//host', '//host:80', '//HOST', '//user:pw@host', '//[::1]', '//[::1]:3702', '//[::1', '//::1]',
               '//[', '//]', '//[zz]', '//[v1.x]', '//[1.2.3.4]', '//a\u2100b', '//\uff0f', '//\u2488com', '//host:notaport', '//host:99999',
               '//%5B::1', '//[fe80::1%25eth0]', '//\u00e4.example', '//a b', '//\x00', '//[::1]x']
SEGMENTS = ['sdc.ctxt.loc.detail'] * 6 + ['root', 'biceps.uri.unk', '', '', '%2F', '%2F%2F%2F%2F%2F', 'a%2Fb', 'H%2F%2F%2FCU1%2F%2FBed', '..', '.', '%',
                                           '%zz', '%C3', '%C3%A4', '\u00e4', '\U0001F600', ' ', 'a b', '\t', '\n', '\x00', '\x7f', ';x=1', 'a;b', '@', ':',
                                           'a:b', '[', ']', '\\', 'x' * 3000, '%252F', '+', 'sdc.ctxt.loc.detail%2Fx', 'SDC.CTXT.LOC.DETAIL']
QUERIES = [None, None, '', 'fac=a', 'fac=HOSP1&poc=CU1&bed=Bed42', 'fac=a&bldng=b&flr=c&poc=d&rm=e&bed=f', '&', '&&&', '=', '=a', '==', 'fac', 'fac=',
           'fac==', 'fac=a=b', 'fac=%', 'fac=%zz', 'fac=%C3', 'fac=%FF%FE', 'fac=a;bed=b', 'fac=a&fac=b', 'root=x', 'self=1', 'cls=1', 'FAC=a',
           'fac=a&unknown=1', 'fac=+', 'fac=%20', 'fac=a%26bed%3Db', 'fac=\u00e4', 'fac=\U0001F600', 'fac=a b', 'fac=a\tb', 'fac=\x00', '?', '?fac=a',
           'fac=a?bed=b', 'fac=a#', 'fac=' + 'x' * 20000, '&'.join(f'k{i}=v' for i in range(2000)), 'fac=a&' * 500, '%', '%%%', ';', ';;;',
           'fac[]=a', 'fac=a&poc', 'bed=&fac=', '\u2028', 'fac=%00', 'fac=%0A', 'fac=%u00e4', ' fac=a', 'fac =a', 'fac= a ']
FRAGMENTS = [None, None, None, None, '', 'frag', 'fac=a', '?', '#', '\u00e4', '%zz']
RAW = ['', ' ', '  ', ':', '::', '/', '//', '///', '?', '#', '?#', 'sdc.ctxt.loc', 'sdc.ctxt.loc:', 'sdc.ctxt.loc:/', 'sdc.ctxt.loc://', 'sdc.ctxt.loc:///',
       'sdc.ctxt.loc:?', 'sdc.ctxt.loc:#', 'sdc.ctxt.loc:?fac=a', 'sdc.ctxt.loc:root', 'sdc.ctxt.loc:root/ext', 'sdc.ctxt.loc:/root', 'sdc.ctxt.loc:/root/',
       'sdc.ctxt.loc:/root/ext', 'sdc.ctxt.loc:/root/ext/', 'sdc.ctxt.loc:/root/ext/more', 'sdc.ctxt.loc://root/ext', 'sdc.ctxt.loc:/a/b/c/d/e/f',
       'sdc.ctxt.loc:/sdc.ctxt.loc.detail', 'sdc.ctxt.loc:/sdc.ctxt.loc.detail?fac=a', 'sdc.ctxt.loc:/biceps.uri.unk', 'sdc.ctxt.loc:/biceps.uri.unk/x',
       'sdc.ctxt.loc://[::1', 'sdc.ctxt.loc://[::1]/root/ext', 'http://[::1', 'http://[::1]', 'http://::1]', 'http://[', 'HTTP://[::1/x', 'http://a\u2100b/',
       'sdc.ctxt.loc://a\u2100b/r/e', 'urn:uuid:1234', 'sdc.mds.pkp:1.2.840.10004.20701.1.1', 'sdc.cdc.type:///130535', 'sdc.cdc.type:/a/b/c',
       '\x00', '\n', 'sdc.ctxt.loc:\n/root/ext', ' sdc.ctxt.loc:/root/ext', 'sdc.ctxt.loc:/root/ext ', '\tsdc.ctxt.loc:/r/e', 'sdc.ctxt.loc:/r\n/e',
       'sdc.ctxt.loc:/%2F', 'sdc.ctxt.loc:/%2F/%2F', 'sdc.ctxt.loc:%2Froot%2Fext', 'sdc.ctxt.loc:\\root\\ext', 'sdc.ctxt.loc:/root;p=1/ext;q=2',
       'sdc.ctxt.loc:/r/e?fac=a#f', 'sdc.ctxt.loc:/r/e#f?fac=a', 'SDC.CTXT.LOC:/R', 'sdc.ctxt.loc', 'sdc.ctxt.loc/r/e', '//sdc.ctxt.loc:/r/e',
       '[', ']', '[]', 'a[b]c', 'x://[', 'x://]', 'x:[', 'sdc.ctxt.loc:[', 'sdc.ctxt.loc:/[/]', 'sdc.ctxt.loc:/[::1/x']


def foreign_scope(rng, pool: list[str]) -> tuple[str, tuple]:
    """a scope string some other device might publish + its shape (scheme class, authority class, #segments, query class, fragment)."""
    r = rng.random()
    if r < 0.12:
        s = rng.choice(RAW)
        return s, ('raw', s[:40])
    if r < 0.17:
        s = rng.choice(pool)
        if rng.random() < 0.5:
            s = 'sdc.ctxt.loc:' + s
        return s, ('hyp', coarse_classes(s), s.count('/') if s.count('/') < 8 else 8, '?' in s, '[' in s or ']' in s)
    loc = rng.random() < 0.8
    scheme = rng.choice(LOC_SCHEMES) if loc else rng.choice(OTHER_SCHEMES)
    auth = rng.choice(AUTHORITIES)
    nseg = rng.choice([0, 1, 1, 2, 2, 2, 3, 3, 4, 5, 6])
    segs = []
    for _ in range(nseg):
        q = rng.random()
        if q < 0.7:
            segs.append(rng.choice(SEGMENTS))
        elif q < 0.85:
            segs.append(quote(rng.choice(pool), safe=''))
        else:
            segs.append(rng.choice(pool).replace('\n', ''))
    lead = rng.random() < 0.9
    path = ('/' if lead and nseg else '') + '/'.join(segs)
    if rng.random() < 0.08:
        path += '/'
    qi = rng.randrange(len(QUERIES))
    query = QUERIES[qi]
    if query is not None and rng.random() < 0.15:
        query = 'fac=' + rng.choice(pool) + '&bed=' + quote(rng.choice(pool), safe='')
        qi = -1
    fi = rng.randrange(len(FRAGMENTS))
    frag = FRAGMENTS[fi]
    s = (scheme + ':' if scheme or rng.random() < 0.5 else '') + auth + path
    if query is not None:
        s += '?' + query
    if frag is not None:
        s += '#' + frag
    kind = 'loc' if loc else ('ctx' if scheme.startswith('sdc.') else 'other')
    return s, ('gen', kind, auth[:12], nseg, qi)


# ---------------------------------------------------------------------------------------------
# URI grammar for WS-Discovery scope matching (C14).  Everything produced here is a syntactically valid RFC 3986 URI
# (plus, at a low rate, IRIs with raw non-ASCII path characters).  A URI is described structurally:
#   {'scheme', 'authority' (None = absent), 'absolute' (bool), 'segments': [bytes, ...] (DECODED octets), 'query', 'fragment'}
# and rendered with a randomly chosen percent-encoding, so that several spellings of the same URI exist.
# ---------------------------------------------------------------------------------------------
URI_SCHEMES = ['http', 'https', 'sdc.ctxt.loc', 'sdc.mds.pkp', 'sdc.cdc.type', 'urn', 'ldap', 'x-y+z.1', 'a', 'ws']
URI_AUTHORITIES = [None, None, None, 'example.com', 'example.com', 'host:8080', 'user@host', 'User:Pw@Host.Example', '[::1]', '[2001:db8::a]:3702',
                   '127.0.0.1', '', 'a-b.c_d~e', 'xn--bcher-kva.example']
SEG_ATOMS = [b'a', b'b', b'c', b'A', b'B', b'abc', b'Abc', b'sdc.ctxt.loc.detail', b'HOSP1', b'CU1', b'Bed42', b'1.2.840.10004', b'x', b'y', b'z', b'0',
             b'a/b', b'/', b'//', b'a%b', b'%', b'%2F', b'%25', b'a b', b' ', b'a+b', b'a?b', b'a#b', b'a&b=c', b'a;b', b'a:b', b'a@b', b'~', b'-._~',
             b"!$&'()*+,;=", 'ä'.encode(), 'Ä'.encode(), '中文'.encode(), '\U0001F600'.encode(), 'Å'.encode(), b'.', b'..', b'',
             b'', b'HOSP1///CU1//Bed42', b'a' * 40]
URI_QUERIES = [None, None, None, 'a=b', 'x', 'p=/q/r', 'fac=HOSP1&poc=CU1', '', 'a?b', '%2F']
URI_FRAGMENTS = [None, None, None, None, 'frag', 'a/b', '', '/x']
UNRESERVED = frozenset(b'ABCDEFGHIJKLMNOPQRSTUVWXYZabcdefghijklmnopqrstuvwxyz0123456789-._~')
PCHAR_RAW = UNRESERVED | frozenset(b"!$&'()*+,;=:@")
INVALID_UTF8 = [b'\xff', b'\xfe', b'\xc3', b'\xc3\x28', b'\xe2\x82', b'\x80', b'\xf8\x88\x80\x80', b'\xed\xa0\x80', b'\xc0\xaf']


def encode_segment(seg: bytes, rng, mode: str) -> str:
    """render decoded octets as a URI path segment.  mode: 'min' (encode only what must be), 'over' (also encode a random part of the
    characters that need not be), 'all', 'iri' (valid UTF-8 non-ASCII stays raw).  Hex digits upper / lower case at random for over/all."""
    out = []
    if mode == 'iri':
        try:
            text = seg.decode('utf-8')
        except UnicodeDecodeError:
            mode, text = 'min', None
        if text is not None:
            for ch in text:
                o = ord(ch)
                if o < 0x80:
                    out.append(ch if o in PCHAR_RAW else '%%%02X' % o)
                elif ch.isprintable() and not ch.isspace():
                    out.append(ch)
                else:
                    out.append(''.join('%%%02X' % b for b in ch.encode()))
            return ''.join(out)
    for b in seg:
        raw_ok = b in PCHAR_RAW
        if mode == 'min':
            enc = not raw_ok
        elif mode == 'all':
            enc = True
        else:
            enc = (not raw_ok) or rng.random() < 0.35
        if enc:
            h = '%%%02X' % b
            if mode != 'min' and rng.random() < 0.5:
                h = h.lower()
            out.append(h)
        else:
            out.append(chr(b))
    return ''.join(out)


def render_uri(u: dict, rng, mode: str = None) -> str:
    mode = mode or rng.choice(['min', 'min', 'over', 'over', 'all', 'iri'])
    s = u['scheme'] + ':'
    if u['authority'] is not None:
        s += '//' + u['authority']
    segs = [encode_segment(x, rng, mode) for x in u['segments']]
    if u['absolute'] or u['authority'] is not None:
        s += '/' + '/'.join(segs) if segs else ''
    else:
        s += '/'.join(segs)
    if u['query'] is not None:
        s += '?' + u['query']
    if u['fragment'] is not None:
        s += '#' + u['fragment']
    return s


def _segment(rng, pool_bytes) -> bytes:
    r = rng.random()
    if r < 0.75:
        return rng.choice(SEG_ATOMS)
    if r < 0.9:
        return rng.choice(SEG_ATOMS) + rng.choice(SEG_ATOMS)
    return rng.choice(pool_bytes)


def gen_uri(rng, pool_bytes) -> dict:
    scheme = rng.choice(URI_SCHEMES)
    if rng.random() < 0.2:
        scheme = ''.join(c.upper() if rng.random() < 0.5 else c for c in scheme)
    authority = rng.choice(URI_AUTHORITIES)
    n = rng.choice([0, 1, 1, 2, 2, 3, 3, 4, 5])
    segs = [_segment(rng, pool_bytes) for _ in range(n)]
    absolute = True
    if authority is None and n and rng.random() < 0.3:
        absolute = False
        if segs[0] == b'':
            segs[0] = b'r'  # path-rootless starts with a non-empty segment
    if authority is None and absolute and segs and segs[0] == b'':
        segs[0] = b's'  # a path cannot begin with '//' when there is no authority
    if not segs:
        absolute = rng.random() < 0.5  # '' or ... rendered '' either way (absolute with zero segments renders as empty path)
    return {'scheme': scheme, 'authority': authority, 'absolute': absolute, 'segments': segs, 'query': rng.choice(URI_QUERIES),
            'fragment': rng.choice(URI_FRAGMENTS)}


def _swapcase_ascii(s: str) -> str:
    return ''.join(c.swapcase() if c.isascii() else c for c in s)


VARIANTS = ['same', 'same', 'reencode', 'reencode', 'scheme_case', 'auth_case', 'path_case', 'seg_prefix', 'seg_prefix', 'seg_prefix', 'seg_prefix_trailing_slash',
            'longer', 'string_prefix', 'slash_vs_2F', 'split_2F', 'other_scheme', 'other_auth', 'query_differs', 'fragment_differs', 'unrelated',
            'invalid_utf8', 'empty_path', 'swap_prefix', 'empty_segment_dropped', 'abs_vs_rootless', 'dot_segment']


def derive(rng, base: dict, variant: str, pool_bytes) -> dict | None:
    """a second URI standing in a named relation to base (None if the relation cannot be built from this base).
    The relation name is only used for the shape / mechanism key - the oracle works on the rendered strings."""
    u = {**base, 'segments': list(base['segments'])}
    segs = u['segments']
    if variant in ('same', 'reencode'):
        return u
    if variant == 'scheme_case':
        u['scheme'] = _swapcase_ascii(u['scheme'])
        return u
    if variant == 'auth_case':
        if not u['authority'] or u['authority'] == _swapcase_ascii(u['authority']):
            return None
        u['authority'] = _swapcase_ascii(u['authority'])
        return u
    if variant == 'path_case':
        idx = [i for i, s in enumerate(segs) if any(65 <= b <= 90 or 97 <= b <= 122 for b in s)]
        if not idx:
            return None
        i = rng.choice(idx)
        segs[i] = bytes((b ^ 0x20) if (65 <= b <= 90 or 97 <= b <= 122) else b for b in segs[i])
        return u
    if variant == 'seg_prefix':
        if not segs:
            return None
        u['segments'] = segs[:rng.randrange(len(segs))]
        return u
    if variant == 'seg_prefix_trailing_slash':
        if len(segs) < 2:
            return None
        u['segments'] = segs[:rng.randrange(1, len(segs))] + [b'']
        return u
    if variant == 'longer':
        u['segments'] = segs + [_segment(rng, pool_bytes)]
        if not u['absolute'] and len(u['segments']) == 1 and u['segments'][0] == b'':
            u['segments'] = [b'q']
        if u['authority'] is None and u['absolute'] and u['segments'][0] == b'':
            u['segments'][0] = b's'
        return u
    if variant == 'string_prefix':
        if not segs or len(segs[-1]) < 2:
            return None
        try:
            segs[-1].decode('utf-8')
            cut = segs[-1].decode('utf-8')[:-1].encode('utf-8')
        except UnicodeDecodeError:
            cut = segs[-1][:-1]
        if not cut:
            return None
        segs[-1] = cut
        return u
    if variant == 'slash_vs_2F':  # two segments a, b  ->  ONE segment whose octets are a '/' b
        if len(segs) < 2:
            return None
        i = rng.randrange(len(segs) - 1)
        u['segments'] = segs[:i] + [segs[i] + b'/' + segs[i + 1]] + segs[i + 2:]
        if u['authority'] is None and u['absolute'] and u['segments'][0] == b'':
            return None
        return u
    if variant == 'split_2F':  # a segment containing '/' octets is split into real segments
        idx = [i for i, s in enumerate(segs) if b'/' in s]
        if not idx:
            return None
        i = rng.choice(idx)
        parts = segs[i].split(b'/')
        u['segments'] = segs[:i] + parts + segs[i + 1:]
        if u['segments'][0] == b'' and (u['authority'] is None or not u['absolute']):
            return None
        return u
    if variant == 'other_scheme':
        u['scheme'] = rng.choice([s for s in URI_SCHEMES if s.lower() != base['scheme'].lower()])
        return u
    if variant == 'other_auth':
        cand = [a for a in URI_AUTHORITIES + ['example.com:80', 'example.org', 'host'] if (a or '').lower() != (base['authority'] or '').lower()]
        u['authority'] = rng.choice(cand)
        if u['authority'] is None:
            if u['absolute'] and segs and segs[0] == b'':
                return None
        elif not u['absolute'] and segs:
            u['absolute'] = True
        return u
    if variant == 'query_differs':
        u['query'] = rng.choice([q for q in URI_QUERIES + ['zzz'] if q != base['query']])
        return u
    if variant == 'fragment_differs':
        u['fragment'] = rng.choice([f for f in URI_FRAGMENTS + ['zzz'] if f != base['fragment']])
        return u
    if variant == 'unrelated':
        return gen_uri(rng, pool_bytes)
    if variant == 'invalid_utf8':  # handled by the caller: both URIs get an invalid octet sequence
        if not segs:
            return None
        i = rng.randrange(len(segs))
        a, b = rng.sample(INVALID_UTF8, 2)
        base['segments'][i] = base['segments'][i] + a
        segs[i] = segs[i] + (b if rng.random() < 0.7 else a)
        return u
    if variant == 'empty_path':
        u['segments'] = []
        return u
    if variant == 'swap_prefix':
        return derive(rng, base, 'longer', pool_bytes)
    if variant == 'empty_segment_dropped':
        idx = [i for i, s in enumerate(segs) if s == b'']
        if not idx:
            return None
        del segs[rng.choice(idx)]
        if u['authority'] is None and u['absolute'] and segs and segs[0] == b'':
            return None
        if not u['absolute'] and segs and segs[0] == b'':
            return None
        return u
    if variant == 'abs_vs_rootless':
        if u['authority'] is not None or not segs or segs[0] == b'':
            return None
        u['absolute'] = not u['absolute']
        return u
    if variant == 'dot_segment':
        if not segs:
            return None
        i = rng.randrange(len(segs))
        segs.insert(i, rng.choice([b'.', b'..']))
        return u
    raise ValueError(variant)
