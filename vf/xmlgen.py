"""Structural value generator for the declarative XML types of sdc11073 (properties C05 / C12, reused by MDIB generators).

Driven by the property descriptor objects of ``sdc11073.xml_types.xml_structure``: for every class that lists members in
``_props`` the generator walks ``sorted_container_properties()`` and picks ONE VALUE STRATEGY PER PROPERTY CLASS
(``HandleAttributeProperty`` -> non-empty string, ``QualityIndicatorAttributeProperty`` -> Decimal in [0, 1],
``DecimalListAttributeProperty`` -> list of Decimals, ``SubElementListProperty`` -> list of generated value_class
instances incl. registered xsi:type substitutions ...).  The strategy is *constrained to the schema facets*: when the
schema type of the owner is known (``NODETYPE`` or the ``HOME`` table) the declaration of the attribute / element is
looked up in ``xsdoracle.SchemaIndex`` (built-in base type, enumeration, minLength, value bounds, minOccurs, required)
and the context is handed down into nested values; when it is not known, all declarations of that name are intersected.

The generator never decides anything - it only produces values from the schema value space.
"""
from __future__ import annotations

import enum
import importlib
import inspect
from dataclasses import dataclass, field
from decimal import Decimal

from lxml import etree

from . import xsdoracle as xo

MODULES = (
    ('pm_types', 'sdc11073.xml_types.pm_types'),
    ('msg_types', 'sdc11073.xml_types.msg_types'),
    ('eventing_types', 'sdc11073.xml_types.eventing_types'),
    ('wsd_types', 'sdc11073.xml_types.wsd_types'),
    ('addressing_types', 'sdc11073.xml_types.addressing_types'),
    ('dpws_types', 'sdc11073.xml_types.dpws_types'),
    ('mex_types', 'sdc11073.xml_types.mex_types'),
    ('descriptorcontainers', 'sdc11073.mdib.descriptorcontainers'),
    ('statecontainers', 'sdc11073.mdib.statecontainers'),
)

PM, MSG, EXT, WSA, WSE, WSD, DPWS, WSX = (xo.NS[k] for k in ('pm', 'msg', 'ext', 'wsa', 'wse', 'wsd', 'dpws', 'wsx'))

# schema home of classes that carry no NODETYPE: ('type', clark) named complex type, ('element', clark) global element,
# ('child', home-of-host, child tag) anonymous type of a child element of the host type
HOME = {
    'pm_types.Translation': ('child', ('type', xo.clark(PM, 'CodedValue')), xo.clark(PM, 'Translation')),
    'pm_types.AbstractMetricValue': ('type', xo.clark(PM, 'AbstractMetricValue')),
    'pm_types.ActivateOperationDescriptorArgument': ('child', ('type', xo.clark(PM, 'ActivateOperationDescriptor')), xo.clark(PM, 'Argument')),
    'pm_types.Relation': ('child', ('type', xo.clark(PM, 'AbstractMetricDescriptor')), xo.clark(PM, 'Relation')),
    'pm_types.ContainmentTreeEntry': ('type', xo.clark(PM, 'ContainmentTreeEntry')),
    'pm_types.ContainmentTree': ('type', xo.clark(PM, 'ContainmentTree')),
    'pm_types.Retrievability': ('element', xo.clark(MSG, 'Retrievability')),
    'statecontainers.AllowedValuesType': ('child', ('type', xo.clark(PM, 'SetStringOperationState')), xo.clark(PM, 'AllowedValues')),
    'msg_types.InvocationInfo': ('type', xo.clark(MSG, 'InvocationInfo')),
    'msg_types.AbstractReportPart': ('type', xo.clark(MSG, 'AbstractReportPart')),
    'msg_types.MetricReportPart': ('child', ('type', xo.clark(MSG, 'AbstractMetricReport')), xo.clark(MSG, 'ReportPart')),
    'msg_types.ContextReportPart': ('child', ('type', xo.clark(MSG, 'AbstractContextReport')), xo.clark(MSG, 'ReportPart')),
    'msg_types.OperationalStateReportPart': ('child', ('type', xo.clark(MSG, 'AbstractOperationalStateReport')), xo.clark(MSG, 'ReportPart')),
    'msg_types.AlertReportPart': ('child', ('type', xo.clark(MSG, 'AbstractAlertReport')), xo.clark(MSG, 'ReportPart')),
    'msg_types.ComponentReportPart': ('child', ('type', xo.clark(MSG, 'AbstractComponentReport')), xo.clark(MSG, 'ReportPart')),
    'msg_types.OperationInvokedReportPart': ('child', ('element', xo.clark(MSG, 'OperationInvokedReport')), xo.clark(MSG, 'ReportPart')),
    'msg_types.DescriptionModificationReportPart': ('child', ('element', xo.clark(MSG, 'DescriptionModificationReport')), xo.clark(MSG, 'ReportPart')),
    'msg_types.SystemErrorReportPart': ('child', ('element', xo.clark(MSG, 'SystemErrorReport')), xo.clark(MSG, 'ReportPart')),
    'msg_types.AbstractReport': ('type', xo.clark(MSG, 'AbstractReport')),
    'msg_types.AbstractMetricReport': ('type', xo.clark(MSG, 'AbstractMetricReport')),
    'msg_types.AbstractContextReport': ('type', xo.clark(MSG, 'AbstractContextReport')),
    'msg_types.AbstractOperationalStateReport': ('type', xo.clark(MSG, 'AbstractOperationalStateReport')),
    'msg_types.AbstractAlertReport': ('type', xo.clark(MSG, 'AbstractAlertReport')),
    'msg_types.AbstractComponentReport': ('type', xo.clark(MSG, 'AbstractComponentReport')),
    'msg_types.AbstractSetResponse': ('type', xo.clark(MSG, 'AbstractSetResponse')),
    'msg_types.AbstractSet': ('type', xo.clark(MSG, 'AbstractSet')),
    'msg_types.AbstractGetResponse': ('type', xo.clark(MSG, 'AbstractGetResponse')),
    'msg_types.MdState': ('type', xo.clark(PM, 'MdState')),
    'msg_types.MdDescription': ('type', xo.clark(PM, 'MdDescription')),
    'msg_types.Mds': ('type', xo.clark(PM, 'MdsDescriptor')),
    'msg_types.Vmd': ('type', xo.clark(PM, 'VmdDescriptor')),
    'msg_types.Channel': ('type', xo.clark(PM, 'ChannelDescriptor')),
    'msg_types.Argument': ('child', ('element', xo.clark(MSG, 'Activate')), xo.clark(MSG, 'Argument')),
    'addressing_types.EndpointReferenceType': ('type', xo.clark(WSA, 'EndpointReferenceType')),
    'addressing_types.RelatesTo': ('type', xo.clark(WSA, 'RelatesToType')),
    'eventing_types.DeliveryType': ('type', xo.clark(WSE, 'DeliveryType')),
    'eventing_types.FilterType': ('type', xo.clark(WSE, 'FilterType')),
    'eventing_types.LanguageSpecificStringType': ('type', xo.clark(WSE, 'LanguageSpecificStringType')),
    'wsd_types.ScopesType': ('type', xo.clark(WSD, 'ScopesType')),
    'wsd_types.ProbeMatchType': ('type', xo.clark(WSD, 'ProbeMatchType')),
    'wsd_types.ResolveMatchType': ('type', xo.clark(WSD, 'ResolveMatchType')),
    'dpws_types.HostServiceType': ('type', xo.clark(DPWS, 'HostServiceType')),
    'dpws_types.HostedServiceType': ('type', xo.clark(DPWS, 'HostedServiceType')),
    'dpws_types.LocalizedStringType': ('type', xo.clark(DPWS, 'LocalizedStringType')),
    'dpws_types.ThisDeviceType': ('type', xo.clark(DPWS, 'ThisDeviceType')),
    'dpws_types.ThisModelType': ('type', xo.clark(DPWS, 'ThisModelType')),
    'mex_types.ThisModelMetadataSection': ('element', xo.clark(WSX, 'MetadataSection')),
    'mex_types.ThisDeviceMetadataSection': ('element', xo.clark(WSX, 'MetadataSection')),
    'mex_types.RelationshipMetadataSection': ('element', xo.clark(WSX, 'MetadataSection')),
    'mex_types.LocationMetadataSection': ('element', xo.clark(WSX, 'MetadataSection')),
    'mex_types.MetaDataRelationship': ('element', xo.clark(DPWS, 'Relationship')),
}

# MetadataExchange.xsd: MetadataSection is an xs:choice of ( ##other element | MetadataReference | Location ) - exactly one of them
FORCED_ABSENT = {'ThisModelMetadataSection': {'Location'}, 'ThisDeviceMetadataSection': {'Location'},
                 'RelationshipMetadataSection': {'Location'}}
FORCED_PRESENT = {'LocationMetadataSection': {'Location'}}
# the dialect URI identifies the section class itself (mex_types.dialect_lookup); another URI is another class, not another value
FORCED_KEEP = {'ThisModelMetadataSection': {'Dialect'}, 'ThisDeviceMetadataSection': {'Dialect'},
               'RelationshipMetadataSection': {'Dialect'}, 'LocationMetadataSection': {'Dialect'}}

CORNER_STRINGS = ('', ' ', 'a', 'A b', '  lead', 'trail  ', 'x\ty', 'line1\nline2', 'cr\rlf', '&amp;', '<tag/>', '"quoted"', "it's",
                  ']]>', 'ü中Ж', '\U0001F600', 'á', ' x', 'x' * 300, '&<>"\'', '\U00010000\U0010FFFD', '0', 'None')
_TOKEN_ALPHABET = 'abcdefghijklmnopqrstuvwxyzABCDEFGHIJKLMNOPQRSTUVWXYZ0123456789_-.:/'
_TOKEN_SPECIAL = ('&', '<', '>', '"', "'", 'ü', '中', '\U0001F600', '%20', '+', '=', '?', '#', '@', '!', '~', '*', '(', ')')
URIS = ('urn:uuid:4c1b2e1a-5f0e-4c7a-9b1f-2a3b4c5d6e7f', 'http://127.0.0.1:8080/a/b?x=1&y=2#frag', 'https://host.example/p%20q',
        'urn:oid:1.2.840.10004.1.1.1.0.0.1', 'sdc.ctxt.loc:/sdc.ctxt.loc.detail/HOSP%2F1?fac=f&bldng=b', 'biceps.uri.unk', '../rel/path', 'a',
        'http://exämple.org/ü', 'mailto:x@y.z', 'http://[::1]:6464/sdc', 'urn:x-verif:' + 'y' * 200)
LANGS = ('en', 'de', 'en-US', 'zh-Hans-CN', 'x-private', 'abcdefgh-12345678', 'EN')
FOREIGN_NS = 'urn:verif:foreign'


# =============================================================================================
# class enumeration
# =============================================================================================
@dataclass
class ClassInfo:
    key: str            # '<module short name>.<class name>'
    module: str
    name: str
    cls: type
    kind: str           # 'state' | 'descriptor' | 'message' | 'type'
    nprops: int = 0


def _lib():
    import sdc11073.mdib.containerbase as cb
    import sdc11073.xml_types.basetypes as bt
    return bt.XMLTypeBase, cb.ContainerBase, bt.MessageType


def enumerate_classes() -> list[ClassInfo]:
    """All classes of the nine modules that are built from property descriptors (reflection, no hand-written list)."""
    xml_base, container_base, message_type = _lib()
    out = []
    for short, modname in MODULES:
        mod = importlib.import_module(modname)
        for name, cls in sorted(vars(mod).items()):
            if not inspect.isclass(cls) or cls.__module__ != modname or name != cls.__name__:
                continue
            if not issubclass(cls, (xml_base, container_base)):
                continue
            if short == 'descriptorcontainers' or (issubclass(cls, container_base) and getattr(cls, 'is_descriptor_container', False)):
                kind = 'descriptor'
            elif issubclass(cls, container_base):
                kind = 'state'
            elif issubclass(cls, message_type) and getattr(cls, 'NODETYPE', None) is not None:
                kind = 'message'
            else:
                kind = 'type'
            out.append(ClassInfo(f'{short}.{name}', short, name, cls, kind))
    return out


def class_registry(infos=None) -> dict[str, list[type]]:
    reg: dict[str, list[type]] = {}
    for i in infos or enumerate_classes():
        reg.setdefault(i.name, []).append(i.cls)
    return reg


def declaring_class(cls: type, member: str) -> str:
    """Name of the class in the MRO whose own ``_props`` lists ``member`` (mechanism keys use it, not every subclass)."""
    for c in reversed(inspect.getmro(cls)):
        if member in c.__dict__.get('_props', ()):
            return c.__name__
    return cls.__name__


def props_of(cls: type) -> list[tuple[str, object]]:
    """(name, descriptor) in declaration order; works on the class (no instance needed); raises what the library raises."""
    ret = []
    for c in reversed(inspect.getmro(cls)):
        for name in c.__dict__.get('_props', ()):
            obj = getattr(c, name)
            if obj is not None:
                ret.append((name, obj))
    return ret


def mro_names(prop) -> set[str]:
    return {c.__name__ for c in type(prop).__mro__}


# =============================================================================================
# schema context
# =============================================================================================
def _resolve_home(index: xo.SchemaIndex, home):
    if home is None:
        return None
    kind = home[0]
    if kind == 'type':
        return index.complex(home[1])
    if kind == 'element':
        t = index.element_type(home[1])
        return t if isinstance(t, xo.Complex) else None
    if kind == 'child':
        host = _resolve_home(index, home[1])
        if host is None:
            return None
        decl = host.elem(home[2])
        return decl.type if decl is not None and isinstance(decl.type, xo.Complex) else None
    return None


def schema_home(index: xo.SchemaIndex, info_or_cls, key: str | None = None):
    """-> (Complex | None, home tuple | None) for a class."""
    cls = info_or_cls.cls if isinstance(info_or_cls, ClassInfo) else info_or_cls
    key = key or (info_or_cls.key if isinstance(info_or_cls, ClassInfo) else None)
    node_type = getattr(cls, 'NODETYPE', None)
    if node_type is not None:
        q = node_type.text if hasattr(node_type, 'text') else str(node_type)
        c = index.complex(q)
        if c is not None:
            return c, ('type', q)
        t = index.element_type(q)
        if isinstance(t, xo.Complex):
            return t, ('element', q)
    if key in HOME:
        return _resolve_home(index, HOME[key]), HOME[key]
    if node_type is not None:
        # NODETYPE names a local element with an anonymous type (pm:MetricQuality, pm:AllowedValue ...): unique -> that is the home
        cands = index.anonymous_types().get(q, [])
        if len(cands) == 1:
            return cands[0], ('child', None, q)
    return None, None


# =============================================================================================
# generator
# =============================================================================================
@dataclass
class Plan:
    """Directives for the top level object; everything not mentioned follows ``mode``."""

    mode: str = 'rand'                      # 'min' | 'max' | 'rand'
    present: dict = field(default_factory=dict)     # member -> bool
    lens: dict = field(default_factory=dict)        # member -> list length
    values: dict = field(default_factory=dict)      # member -> concrete value (enum member, corner string ...)
    subst: dict = field(default_factory=dict)       # member -> class to instantiate
    trust: dict = field(default_factory=dict)       # member -> 'lib' | 'schema': whose notion of "optional" decides (default: both agree)


class CannotGenerate(Exception):
    pass


class Gen:
    """``Gen(rng).instance(cls, plan)`` -> a populated instance of ``cls`` (real constructors, real setters)."""

    MAX_DEPTH = 4

    def __init__(self, rng, index: xo.SchemaIndex | None = None):
        self.rng = rng
        self.index = index or xo.oracle().index
        self.setter_rejects: set[str] = set()       # '<Class>.<member>': typed setter refused a schema-conformant value
        self.setget_mismatches: list = []           # (DeclClass.member, value set, value read back): a scalar that was set reads differently
        self.setget_checked = 0
        self.strategy_use: dict[str, int] = {}
        self._registry_pm = None
        self._handles = 0
        self._keys = {i.cls: i.key for i in enumerate_classes()}

    # ---- construction ------------------------------------------------------------------------
    def construct(self, cls):
        """A blank instance through the real constructor (the same way the class' own from_node does it)."""
        _, container_base, _ = _lib()
        if issubclass(cls, container_base):
            if getattr(cls, 'is_descriptor_container', False):
                return cls(None, None)
            return cls(None)
        try:
            sig = inspect.signature(cls.__init__)
        except (TypeError, ValueError):
            return cls()
        required = [p for n, p in list(sig.parameters.items())[1:]
                    if p.default is inspect.Parameter.empty and p.kind in (p.POSITIONAL_ONLY, p.POSITIONAL_OR_KEYWORD)]
        last = None
        for filler in (None, '', 0):
            try:
                return cls(*[filler] * len(required))
            except Exception as ex:  # noqa: BLE001
                last = ex
        raise CannotGenerate(f'constructor of {cls.__name__} refuses None / "" / 0 for its required arguments: {last!r}')

    def instance(self, cls, plan: Plan | None = None, ctx=None, depth: int = 0, ctx_known: bool | None = None):
        plan = plan or Plan()
        if ctx is None and ctx_known is None:
            ctx, _home = schema_home(self.index, cls, self._keys.get(cls))
        obj = self.construct(cls)
        for name, prop in obj.sorted_container_properties():
            top = plan if depth == 0 else None
            try:
                self._fill(obj, cls, name, prop, plan.mode, top, ctx, depth)
            except CannotGenerate:
                raise
        self._post(obj, depth)
        return obj

    def _post(self, obj, depth):
        if getattr(obj, 'is_descriptor_container', False):
            # not part of the descriptor's XML: top level -> handed to from_node; nested -> set by the reader of the host
            obj.parent_handle = (self.handle() if self.rng.random() < 0.7 else None) if depth == 0 else None
        if type(obj).__name__ == 'DescriptionModificationReport':
            for part in obj.ReportPart:   # DescriptionModificationReport.from_node copies ParentDescriptor into the descriptors
                for d in part.Descriptor:
                    d.parent_handle = part.ParentDescriptor

    # ---- one member --------------------------------------------------------------------------------
    def _fill(self, obj, cls, name, prop, mode, top: Plan | None, ctx, depth):
        names = mro_names(prop)
        if top is not None and name in top.values:
            self._assign(obj, cls, name, prop, top.values[name])
            return
        if 'CurrentTimestampAttributeProperty' in names:
            return  # rewritten with time.time() on every serialisation, excluded from the value
        is_list = bool(names & {'_ElementListProperty', '_AttributeListBase'})
        decl = self._decl(ctx, prop, names)
        optional = self._optional(prop, names, decl, top.trust.get(name) if top is not None else None)
        if is_list:
            n = self._list_len(name, mode, top, depth, decl, names)
            value = self._list_value(prop, names, n, ctx, decl, depth, mode, top.subst.get(name) if top else None, cls)
            self._assign(obj, cls, name, prop, value)
            return
        has_default = getattr(prop, '_default_py_value', None) is not None
        if name in FORCED_KEEP.get(cls.__name__, ()):
            return
        if name in FORCED_ABSENT.get(cls.__name__, ()):
            self._assign(obj, cls, name, prop, None)
            return
        if name in FORCED_PRESENT.get(cls.__name__, ()):
            optional = False
        if 'ExtensionNodeProperty' in names:
            # behaves like a list: absent == empty ExtensionLocalValue (None is refused by the setter)
            if top is not None and name in top.present:
                present = top.present[name]
            elif mode == 'min' or depth >= self.MAX_DEPTH:
                present = False
            elif mode == 'max':
                present = depth <= 1
            else:
                present = self.rng.random() < (0.4, 0.25, 0.15, 0.1, 0.0)[min(depth, 4)]
            if present:
                self._assign(obj, cls, name, prop, self._scalar_value(obj, prop, names, name, ctx, decl, depth, mode, None))
            return
        if optional and not has_default:
            if top is not None and name in top.present:
                present = top.present[name]
            elif mode == 'min' or depth >= self.MAX_DEPTH:
                present = False
            elif mode == 'max':
                present = depth <= 1 or self.rng.random() < 0.3
            else:
                present = self.rng.random() < (0.6, 0.4, 0.3, 0.15, 0.0)[min(depth, 4)]
            if not present:
                self._assign(obj, cls, name, prop, None)
                return
        elif has_default:
            # absence on the wire is read back as the default -> None is not a distinct value; keep or replace the default
            keep = (top.present.get(name) is False) if (top is not None and name in top.present) else (
                mode == 'min' or depth >= self.MAX_DEPTH or (mode == 'rand' and self.rng.random() < 0.3))
            current = prop.get_actual_value(obj)
            if names & {'SubElementProperty', 'ContainerProperty'} and 'SubElementWithSubElementListProperty' not in names:
                keep = False    # a default *object* is a blank instance: its own mandatory members still have to be filled
            if keep and (current is not None or optional):
                return
        value = self._scalar_value(obj, prop, names, name, ctx, decl, depth, mode, top.subst.get(name) if top else None)
        self._assign(obj, cls, name, prop, value)

    def _assign(self, obj, cls, name, prop, value):
        try:
            setattr(obj, name, value)
            if value is not None and isinstance(value, (bool, int, float, str, Decimal, enum.Enum)):
                # a present value is what the member reads, also when it is falsy (0, False, '') and an implied value exists
                self.setget_checked += 1
                got = getattr(obj, name)
                if got is not value and not (type(got) is type(value) and got == value):
                    self.setget_mismatches.append((f'{declaring_class(cls, name)}.{name}', repr(value), repr(got)))
        except Exception as ex:  # noqa: BLE001
            if isinstance(value, list):
                self.setter_rejects.add(f'{declaring_class(cls, name)}.{name}: {type(ex).__name__}')
                current = getattr(obj, name)
                current[:] = value  # the way the library itself fills lists (append / extend)
            else:
                raise CannotGenerate(f'{cls.__name__}.{name}: setter refuses generated value {value!r}: {ex!r}') from ex

    # ---- schema look-up ------------------------------------------------------------------------------
    def decl_is_exact(self, ctx, prop, names) -> bool:
        """True when the declaration comes from the owner's own schema type (not from the name keyed fall-back)"""
        if not isinstance(ctx, xo.Complex):
            return False
        if '_AttributeBase' in names:
            an = prop._attribute_name  # noqa: SLF001
            return ctx.attr(an.text if hasattr(an, 'text') else an) is not None
        sub = getattr(prop, '_sub_element_name', None)
        return sub is not None and ctx.elem(sub.text if hasattr(sub, 'text') else str(sub)) is not None

    def _decl(self, ctx, prop, names):
        """-> ('attr', Simple, required) | ('elem', ElemDecl) | ('text', Simple) | None"""
        if '_AttributeBase' in names:
            aname = prop._attribute_name  # noqa: SLF001
            aname = aname.text if hasattr(aname, 'text') else aname
            if aname.startswith('{'):   # qualified attribute = reference to a global attribute declaration (xml:lang)
                g = self.index.global_attr(aname)
                if g is not None:
                    return ('attr', g, False)
            if isinstance(ctx, xo.Complex):
                a = ctx.attr(aname)
                if a is not None:
                    return ('attr', a[0], a[1])
                return None if not ctx.any_attribute else ('attr', xo.Simple(primitive='anySimpleType'), False)
            # owner unknown: intersect every declaration of that name
            decls = self.index.all_attr_decls(aname)
            return ('attr', _intersect(decls), False) if decls else None
        sub = getattr(prop, '_sub_element_name', None)
        if sub is None:
            if isinstance(ctx, xo.Complex) and ctx.simple_content is not None:
                return ('text', ctx.simple_content)
            return None
        tag = sub.text if hasattr(sub, 'text') else str(sub)
        if isinstance(ctx, xo.Complex):
            e = ctx.elem(tag)
            return ('elem', e) if e is not None else None
        decls = self.index.all_elem_decls(tag)
        if not decls:
            return None
        simple = [d.type for d in decls if isinstance(d.type, xo.Simple)]
        merged = xo.ElemDecl(tag, max(d.min for d in decls), None, _intersect(simple) if len(simple) == len(decls) else None)
        if len(simple) != len(decls):
            cplx = [d.type for d in decls if isinstance(d.type, xo.Complex)]
            merged.type = cplx[0] if len(cplx) == 1 and len(decls) == 1 else None
        return ('elem', merged)

    def _optional(self, prop, names, decl, trust=None) -> bool:
        """Whether the member may be absent: the library's declaration AND (if known) the schema's.
        ``trust`` (directed plans only): 'lib' / 'schema' lets one side decide where the two disagree."""
        lib = bool(prop.is_optional)
        if decl is None or trust == 'lib':
            return lib
        if trust == 'schema':
            return (not decl[2]) if decl[0] == 'attr' else (decl[1].min == 0 if decl[0] == 'elem' else lib)
        if decl[0] == 'attr':
            return lib and not decl[2]
        if decl[0] == 'elem':
            return lib and decl[1].min == 0
        return lib

    def _list_len(self, name, mode, top, depth, decl, names):
        lo = 0
        if decl is not None and decl[0] == 'elem' and not (names & {'NodeTextListProperty', 'NodeTextQNameListProperty', 'AnyEtreeNodeListProperty'}):
            lo = decl[1].min
        hi = 10 ** 6
        if decl is not None and decl[0] == 'elem' and decl[1].max is not None and not (
                names & {'NodeTextListProperty', 'NodeTextQNameListProperty', 'AnyEtreeNodeListProperty'}):
            hi = decl[1].max        # the library models some maxOccurs=1 elements as lists
        if top is not None and name in top.lens:
            return min(hi, max(lo, top.lens[name]))
        return min(hi, self._list_len2(mode, depth, lo))

    def _list_len2(self, mode, depth, lo):
        if mode == 'min' or depth >= self.MAX_DEPTH:
            return lo
        if mode == 'max':
            return max(lo, 2 if depth <= 1 else 1)
        r = self.rng.random()
        if depth == 0:
            n = 0 if r < 0.35 else 1 if r < 0.65 else 2 if r < 0.9 else 5
        else:
            n = 0 if r < (0.55, 0.7, 0.8)[min(depth - 1, 2)] else 1 if r < 0.9 else 2
        return max(lo, n)

    # ---- scalars -------------------------------------------------------------------------------------
    def _use(self, what):
        self.strategy_use[what] = self.strategy_use.get(what, 0) + 1

    def handle(self) -> str:
        self._handles += 1
        return f'h{self._handles}.{self.rng.randrange(10 ** 6)}'

    def string(self, simple: xo.Simple | None, min_len: int = 0, flavour: str = 'string') -> str:
        rng = self.rng
        if simple is not None:
            min_len = max(min_len, simple.min_len)
            if simple.enums:
                return rng.choice(simple.enums)
            prim = simple.primitive
            if prim == 'union':
                return self.string(rng.choice(simple.union), min_len)
            if prim == 'language':
                return rng.choice(LANGS)
            if prim == 'anyURI':
                flavour = 'uri'
            elif prim in ('dateTime', 'date', 'gYearMonth', 'gYear'):
                return self.date_string(prim)
            elif prim in ('token', 'NCName', 'ID', 'IDREF', 'Name', 'NMTOKEN'):
                flavour = 'ncname' if prim != 'token' else 'token'
            elif prim == 'QName':
                flavour = 'ncname'
            elif prim == 'boolean':
                return rng.choice(('true', 'false', '1', '0'))
            elif prim in ('integer', 'decimal'):
                return str(rng.randrange(0, 1000))
            elif prim == 'base64Binary':
                return 'QUJD'
        if flavour == 'uri':
            s = rng.choice(URIS)
            return s
        if flavour == 'ncname':
            return 'n' + ''.join(rng.choice('abcXYZ019_-.') for _ in range(rng.randrange(0, 8)))
        if flavour == 'token':
            return self.token()
        r = rng.random()
        if r < 0.45:
            cands = [s for s in CORNER_STRINGS if len(s) >= min_len and (simple is None or simple.max_len is None or len(s) <= simple.max_len)]
            return rng.choice(cands)
        n = rng.randrange(max(min_len, 1), 24)
        pool = _TOKEN_ALPHABET + ' äß€'
        s = ''.join(rng.choice(pool) for _ in range(n))
        if simple is not None and simple.max_len is not None:
            s = s[:simple.max_len]
        return s

    def token(self) -> str:
        """non-empty string without whitespace (item of a space separated list)"""
        rng = self.rng
        n = rng.randrange(1, 12)
        parts = [rng.choice(_TOKEN_ALPHABET) for _ in range(n)]
        if rng.random() < 0.3:
            parts[rng.randrange(n)] = rng.choice(_TOKEN_SPECIAL)
        return ''.join(parts)

    def date_string(self, prim: str = 'dateTime') -> str:
        rng = self.rng
        y, mo, d = rng.randrange(1, 9999), rng.randrange(1, 13), rng.randrange(1, 29)
        tz = rng.choice(('', 'Z', '+01:00', '-05:30', '+14:00', '-14:00'))
        if prim == 'gYear':
            return f'{y:04d}{tz}'
        if prim == 'gYearMonth':
            return f'{y:04d}-{mo:02d}{tz}'
        if prim == 'date':
            return f'{y:04d}-{mo:02d}-{d:02d}{tz}'
        frac = rng.choice(('', '.5', '.123', '.000001'))
        return f'{y:04d}-{mo:02d}-{d:02d}T{rng.randrange(24):02d}:{rng.randrange(60):02d}:{rng.randrange(60):02d}{frac}{tz}'

    def integer(self, simple: xo.Simple | None, lo=None, hi=None) -> int:
        rng = self.rng
        if simple is not None and simple.primitive == 'integer':
            lo = simple.lo if lo is None else (lo if simple.lo is None else max(lo, simple.lo))
            hi = simple.hi if hi is None else (hi if simple.hi is None else min(hi, simple.hi))
        if lo is None:
            lo = -2 ** 63
        if hi is None:
            hi = 2 ** 63 - 1
        r = rng.random()
        if r < 0.15:
            return lo
        if r < 0.3:
            return hi
        if r < 0.6:
            return max(lo, min(hi, rng.randrange(0, 1000)))
        return rng.randrange(lo, hi + 1)

    def decimal(self, simple: xo.Simple | None = None) -> Decimal:
        rng = self.rng
        lo = Decimal(simple.lo) if simple is not None and simple.lo is not None and simple.primitive == 'decimal' else None
        hi = Decimal(simple.hi) if simple is not None and simple.hi is not None and simple.primitive == 'decimal' else None
        if lo is not None and hi is not None:
            k = rng.randrange(0, 10 ** 6 + 1)
            v = lo + (hi - lo) * Decimal(k) / Decimal(10 ** 6)
            return rng.choice((lo, hi, v, v.normalize()))
        ndig = rng.randrange(1, 19)
        digits = rng.randrange(10 ** (ndig - 1), 10 ** ndig) if ndig > 1 else rng.randrange(0, 10)
        scale = rng.randrange(0, ndig + 1) if rng.random() < 0.8 else rng.randrange(0, 18 - ndig + 1) + ndig
        scale = min(scale, 18)
        v = Decimal(digits).scaleb(-scale)
        r = rng.random()
        if r < 0.35:
            v = -v
        if r > 0.9:
            v = rng.choice((Decimal(0), Decimal('0.0000001'), Decimal('1E+3'), Decimal('1.50'), Decimal('-0.5'), Decimal(10) ** 17))
        return v

    def timestamp(self) -> float:
        rng = self.rng
        r = rng.random()
        if r < 0.1:
            ms = 0
        elif r < 0.6:
            ms = 1_790_000_000_000 + rng.randrange(0, 10 ** 9)
        else:
            ms = rng.randrange(0, 10 ** 13)
        return ms / 1000

    def duration(self):
        rng = self.rng
        r = rng.random()
        if r < 0.1:
            return 0
        if r < 0.2:
            return rng.randrange(0, 100000)
        if r < 0.3:
            return Decimal(rng.randrange(0, 10 ** 9)) / Decimal(1000)
        us = rng.choice((1, 999_999, 1_000_000, 60_000_000, 3_600_000_000, 86_400_000_000, rng.randrange(0, 10 ** 13), rng.randrange(0, 10 ** 8)))
        return us / 1_000_000

    def qname(self):
        rng = self.rng
        from sdc11073.xml_utils import QName   # the library's own QName type (what its readers produce): copyable
        ns = rng.choice((PM, MSG, FOREIGN_NS, 'http://example.org/q?x=1'))
        return QName(ns, 'n' + ''.join(rng.choice('abcXYZ019_-.') for _ in range(rng.randrange(0, 8))))

    def foreign_element(self, depth: int = 0, retrievability: bool = False):
        rng = self.rng
        if retrievability:
            el = etree.Element(xo.clark(MSG, 'Retrievability'), nsmap={'msg': MSG})
            for _ in range(rng.randrange(0, 3)):
                by = etree.SubElement(el, xo.clark(MSG, 'By'))
                by.set('Method', rng.choice(('Get', 'Per', 'Ep', 'Strm')))
                if rng.random() < 0.5:
                    by.set('UpdatePeriod', rng.choice(('PT1S', 'PT0.25S', 'PT2M')))
            return el
        el = etree.Element('{%s}E%d' % (FOREIGN_NS, rng.randrange(5)), nsmap={'vx': FOREIGN_NS})
        for i in range(rng.randrange(0, 3)):
            el.set(f'a{i}', self.string(None))
        if depth < 2 and rng.random() < 0.4:
            for _ in range(rng.randrange(1, 3)):
                el.append(self.foreign_element(depth + 1))
        elif rng.random() < 0.7:
            el.text = self.string(None, 1)
        return el

    def date_info(self):
        from sdc11073.xml_types import isoduration
        import datetime
        rng = self.rng
        year = rng.choice((rng.randrange(1, 10000), rng.randrange(1900, 2030), 1, 9999, 12345))
        tz = rng.choice((None, None, datetime.timezone.utc, datetime.timezone(datetime.timedelta(minutes=rng.randrange(-840, 841)))))
        kind = rng.randrange(5)
        if kind == 0:
            return isoduration.XsdDateInformation(year=year, tz_info=tz)
        month = rng.randrange(1, 13)
        if kind == 1:
            return isoduration.XsdDateInformation(year=year, month=month, tz_info=tz)
        day = rng.randrange(1, 29)
        if kind == 2:
            return isoduration.XsdDateInformation(year=year, month=month, day=day, tz_info=tz)
        if kind == 3:
            return isoduration.XsdDateInformation(year=year, month=month, day=day, end_of_day=True, tz_info=tz)
        second = rng.choice((0.0, float(rng.randrange(60)), rng.randrange(60000) / 1000, 59.999999, 0.000001, 7.5))
        return isoduration.XsdDateInformation(year=year, month=month, day=day, hour=rng.randrange(24), minute=rng.randrange(60),
                                              second=second, tz_info=tz)

    def minimal_element(self, decl: xo.ElemDecl, depth: int = 0):
        """A minimal valid instance of a declared element (required attributes and children only)."""
        el = etree.Element(decl.tag, nsmap={xo.PREFIX_OF.get(xo.split_clark(decl.tag)[0], 'q'): xo.split_clark(decl.tag)[0]})
        t = decl.type
        if isinstance(t, xo.Complex):
            for aname, (simple, required) in t.attrs.items():
                if required and not aname.startswith('{'):
                    el.set(aname, self._lexical(simple))
            if depth < 3:
                for child in t.elems:
                    for _ in range(child.min):
                        el.append(self.minimal_element(child, depth + 1))
            if t.simple_content is not None:
                el.text = self._lexical(t.simple_content)
        elif isinstance(t, xo.Simple):
            el.text = self._lexical(t)
        return el

    def _lexical(self, simple: xo.Simple) -> str:
        if simple.is_list:
            return ' '.join(self._lexical(simple.item) for _ in range(self.rng.randrange(0, 3)))
        if simple.primitive == 'integer':
            return str(self.integer(simple))
        if simple.primitive == 'decimal':
            return format(self.decimal(simple), 'f')
        if simple.primitive == 'duration':
            return 'PT1S'
        return self.string(simple, 1)

    def _scalar_value(self, obj, prop, names, name, ctx, decl, depth, mode, subst):  # noqa: PLR0911, PLR0912, C901
        rng = self.rng
        conv = getattr(prop, '_converter', None)
        conv_names = {c.__name__ for c in type(conv).__mro__} | ({conv.__name__} if inspect.isclass(conv) else set())
        if inspect.isclass(conv):
            conv_names |= {c.__name__ for c in conv.__mro__}
        simple = None
        if decl is not None:
            if decl[0] in ('attr', 'text'):
                simple = decl[1]
            elif decl[0] == 'elem':
                t = decl[1].type
                simple = t if isinstance(t, xo.Simple) else (t.simple_content if isinstance(t, xo.Complex) else None)
        # ---------------- attributes and text nodes: decided by the converter --------------------------------
        if names & {'SubElementProperty', 'ContainerProperty'}:
            return self._sub_object(prop, names, ctx, decl, depth, mode, subst, obj)
        if 'ExtensionNodeProperty' in names:
            self._use('ExtensionNodeProperty')
            from sdc11073.xml_types.xml_structure import ExtensionLocalValue
            n = rng.choice((1, 1, 2, 3))
            is_descr = getattr(obj, 'is_descriptor_container', False)
            return ExtensionLocalValue([self.foreign_element(retrievability=is_descr and rng.random() < 0.3) for _ in range(n)])
        if 'AnyEtreeNodeProperty' in names:
            self._use('AnyEtreeNodeProperty')
            if isinstance(ctx, xo.Complex) and getattr(prop, '_sub_element_name', None) is None:
                own = [e for e in ctx.elems if e.tag not in (xo.clark(EXT, 'Extension'),)]
                if own:
                    return [self.minimal_element(own[0])]
            return [self.foreign_element() for _ in range(rng.randrange(1, 3))]
        if 'DateOfBirthProperty' in names:
            self._use('DateOfBirthProperty')
            return self.date_info()
        if 'QNameAttributeProperty' in names or 'NodeTextQNameProperty' in names:
            self._use('QName')
            return self.qname()
        if 'EnumConverter' in conv_names:
            self._use('Enum')
            klass = conv._klass  # noqa: SLF001
            return rng.choice(list(klass))
        if 'TimestampConverter' in conv_names:
            self._use('Timestamp')
            return self.timestamp()
        if 'DurationConverter' in conv_names:
            self._use('Duration')
            return self.duration()
        if 'DecimalConverter' in conv_names:
            self._use('QualityIndicator' if 'QualityIndicatorAttributeProperty' in names else 'Decimal')
            if 'QualityIndicatorAttributeProperty' in names and (simple is None or simple.lo is None):
                simple = xo.Simple(primitive='decimal', lo='0', hi='1')
            return self.decimal(simple)
        if 'BooleanConverter' in conv_names:
            self._use('Boolean')
            return rng.random() < 0.5
        if 'IntegerConverter' in conv_names:
            self._use('Integer')
            lo = hi = None
            if names & {'UnsignedIntAttributeProperty'} or 'UnsignedIntConverter' in conv_names:
                lo, hi = 0, 2 ** 32 - 1
            if 'VersionCounterAttributeProperty' in names:
                lo, hi = 0, 2 ** 64 - 1
            if simple is None or simple.primitive != 'integer':
                if lo is None:
                    lo, hi = -2 ** 31, 2 ** 31 - 1
                simple = None
            return self.integer(simple, lo, hi)
        if 'StringConverter' in conv_names:
            min_len = 1 if names & {'HandleAttributeProperty', 'HandleRefAttributeProperty', 'CodeIdentifierAttributeProperty',
                                    'SymbolicCodeNameAttributeProperty', 'LocalizedTextRefAttributeProperty',
                                    'ExtensionAttributeProperty'} else 0
            flavour = 'uri' if names & {'AnyURIAttributeProperty', 'AnyUriTextElement'} else 'string'
            if simple is not None and simple.primitive == 'anySimpleType':
                simple = None
            self._use(sorted(names & {'HandleAttributeProperty', 'HandleRefAttributeProperty', 'CodeIdentifierAttributeProperty',
                                      'SymbolicCodeNameAttributeProperty', 'LocalizedTextRefAttributeProperty', 'ExtensionAttributeProperty',
                                      'AnyURIAttributeProperty', 'AnyUriTextElement', 'TimeZoneAttributeProperty'} or {'String'})[0])
            if names & {'HandleAttributeProperty', 'HandleRefAttributeProperty'} and rng.random() < 0.6:
                return self.handle()
            return self.string(simple, min_len, flavour)
        raise CannotGenerate(f'no value strategy for property class {type(prop).__name__} (converter {conv!r})')

    # ---- nested objects ------------------------------------------------------------------------------------
    def _pm_registry(self):
        if self._registry_pm is None:
            from sdc11073.xml_types import pm_types
            self._registry_pm = list(pm_types._name_class_lookup.values())  # noqa: SLF001
        return self._registry_pm

    def substitutions(self, prop, names, owner_cls=None) -> list[type]:
        """value_class and every registered xsi:type substitution of it (concrete in the schema)."""
        vc = prop.value_class
        if not vc.__dict__.get('_props') and getattr(vc, 'NODETYPE', None) is None and owner_cls is not None and not hasattr(vc, 'mk_node'):
            # a bare base class (mex_types.Metadata.MetadataSection: PropertyBasedPMType): the concrete classes of the owner's module
            import sys
            mod = sys.modules[owner_cls.__module__]
            return sorted((c for c in vars(mod).values() if inspect.isclass(c) and c.__module__ == mod.__name__
                           and issubclass(c, vc) and c is not vc and c is not owner_cls and c.__dict__.get('_props')
                           and 'Dialect' in c.__dict__), key=lambda c: c.__name__)
        _, container_base, _ = _lib()
        out = []
        if issubclass(vc, container_base):
            from sdc11073.mdib import descriptorcontainers, statecontainers
            pool = list(statecontainers._state_lookup_by_type.values()) + list(  # noqa: SLF001
                {c for c in descriptorcontainers._name_class_lookup.values()})  # noqa: SLF001
            pool = sorted(set(pool), key=lambda c: c.__name__)
            for c in pool:
                if issubclass(c, vc) and c.NODETYPE is not None:
                    t = self.index.complex(c.NODETYPE.text)
                    if t is not None and not t.abstract:
                        out.append(c)
            return out
        cands = [vc] + [c for c in self._pm_registry() if c is not vc and issubclass(c, vc)]
        for c in cands:
            nt = getattr(c, 'NODETYPE', None)
            if c is not vc and nt is not None:
                t = self.index.complex(nt.text)
                if t is None or t.abstract:
                    continue
            out.append(c)
        # an abstract value_class itself cannot appear on the wire when concrete substitutions exist
        nt = getattr(vc, 'NODETYPE', None)
        if nt is not None and len(out) > 1:
            t = self.index.complex(nt.text)
            if t is not None and t.abstract:
                out.remove(vc)
        return out

    def _child_ctx(self, sub_cls, ctx, decl):
        nt = getattr(sub_cls, 'NODETYPE', None)
        if nt is not None:
            c = self.index.complex(nt.text)
            if c is not None:
                return c, True
        if decl is not None and decl[0] == 'elem' and isinstance(decl[1].type, xo.Complex):
            return decl[1].type, True
        home, _ = schema_home(self.index, sub_cls, self._keys.get(sub_cls))
        if home is not None:
            return home, True
        return None, False

    def _sub_object(self, prop, names, ctx, decl, depth, mode, subst, obj=None):
        kind = 'ContainerProperty' if 'ContainerProperty' in names else (
            'SubElementWithSubElementListProperty' if 'SubElementWithSubElementListProperty' in names else 'SubElementProperty')
        self._use(kind)
        options = self.substitutions(prop, names, type(obj) if obj is not None else None)
        if not options:
            raise CannotGenerate(f'no concrete class for value_class {prop.value_class.__name__}')
        sub_cls = subst or (options[0] if (mode == 'min' and prop.value_class in options) else self.rng.choice(options))
        if getattr(prop, '_sub_element_name', None) is None:
            child_ctx, known = ctx, ctx is not None   # the property describes the owner node itself (msg_types.Channel.container)
        else:
            child_ctx, known = self._child_ctx(sub_cls, ctx, decl)
        return self.instance(sub_cls, Plan(mode=mode), child_ctx, depth + 1, ctx_known=known)

    # ---- lists ------------------------------------------------------------------------------------------------
    def _list_value(self, prop, names, n, ctx, decl, depth, mode, subst, owner_cls=None):  # noqa: PLR0911
        rng = self.rng
        if names & {'SubElementListProperty', 'ContainerListProperty'}:
            self._use('ContainerListProperty' if 'ContainerListProperty' in names else 'SubElementListProperty')
            options = self.substitutions(prop, names, owner_cls)
            if not options and n:
                raise CannotGenerate(f'no concrete class for value_class {prop.value_class.__name__}')
            out = []
            for _ in range(n):
                sub_cls = subst or rng.choice(options)
                child_ctx, known = self._child_ctx(sub_cls, ctx, decl)
                out.append(self.instance(sub_cls, Plan(mode=mode), child_ctx, depth + 1, ctx_known=known))
            return out
        if '_StringAttributeListBase' in names:
            self._use(type(prop).__name__)
            return [self.handle() if rng.random() < 0.5 else self.token() for _ in range(n)]
        if 'DecimalListAttributeProperty' in names:
            self._use('DecimalListAttributeProperty')
            return [self.decimal() for _ in range(n)]
        if 'AnyEtreeNodeListProperty' in names:
            self._use('AnyEtreeNodeListProperty')
            return [self.foreign_element() for _ in range(n)]
        if 'NodeTextQNameListProperty' in names:
            self._use('NodeTextQNameListProperty')
            return [self.qname() for _ in range(n)]
        if 'NodeTextListProperty' in names:
            self._use('NodeTextListProperty')
            return [rng.choice(URIS).replace(' ', '') for _ in range(n)]
        if 'SubElementTextListProperty' in names:
            self._use(type(prop).__name__)
            elem_conv = prop._converter._element_converter  # noqa: SLF001
            klass = getattr(elem_conv, '_klass', (str,))
            klass = klass[0] if isinstance(klass, tuple) else klass
            simple = decl[1].type if decl is not None and decl[0] == 'elem' and isinstance(decl[1].type, xo.Simple) else None
            if inspect.isclass(klass) and issubclass(klass, str) and klass is not str:
                return [rng.choice(list(klass)) for _ in range(n)]     # enum valued (GetLocalizedText.TextWidth)
            if klass is int:
                return [self.integer(simple, 0, 1000) for _ in range(n)]
            min_len = 1 if 'SubElementHandleRefListProperty' in names else 0
            return [self.string(simple, min_len) for _ in range(n)]
        raise CannotGenerate(f'no list strategy for property class {type(prop).__name__}')


def _intersect(simples: list[xo.Simple]) -> xo.Simple | None:
    """Most restrictive combination of several declarations of the same name (owner type unknown)."""
    simples = [s for s in simples if s is not None]
    if not simples:
        return None
    prims = {s.primitive for s in simples}
    order = ('language', 'dateTime', 'date', 'QName', 'NCName', 'token', 'anyURI', 'integer', 'decimal', 'duration', 'boolean', 'string')
    prim = next((p for p in order if p in prims), simples[0].primitive)
    res = xo.Simple(primitive=prim)
    res.min_len = max(s.min_len for s in simples)
    lens = [s.max_len for s in simples if s.max_len is not None]
    res.max_len = min(lens) if lens else None
    enums = [set(s.enums) for s in simples if s.enums]
    if enums and len(enums) == len(simples):
        common = set.intersection(*enums)
        res.enums = tuple(sorted(common)) or None
    if prim == 'integer':
        los = [s.lo for s in simples if s.primitive == 'integer' and s.lo is not None]
        his = [s.hi for s in simples if s.primitive == 'integer' and s.hi is not None]
        res.lo = max(los) if los else None
        res.hi = min(his) if his else None
    if prim == 'decimal':
        los = [Decimal(s.lo) for s in simples if s.primitive == 'decimal' and s.lo is not None]
        his = [Decimal(s.hi) for s in simples if s.primitive == 'decimal' and s.hi is not None]
        res.lo = str(max(los)) if los else None
        res.hi = str(min(his)) if his else None
    items = [s.item for s in simples if s.item is not None]
    if items:
        res.item = _intersect(items)
    return res


# =============================================================================================
# member introspection for plans (which members are optional, lists, enums, sub-objects ...)
# =============================================================================================
@dataclass
class MemberInfo:
    name: str
    prop: object
    names: set
    is_list: bool
    optional: bool          # may be absent (library AND schema)
    has_default: bool
    enum: type | None
    is_string: bool
    is_sub: bool
    decl: object
    lib_optional: bool = False
    schema_optional: bool | None = None     # None: owner type unknown


def members(gen: Gen, cls, ctx) -> list[MemberInfo]:
    out = []
    for name, prop in props_of(cls):
        names = mro_names(prop)
        if 'CurrentTimestampAttributeProperty' in names:
            continue
        decl = gen._decl(ctx, prop, names)  # noqa: SLF001
        conv = getattr(prop, '_converter', None)
        enum_cls = getattr(conv, '_klass', None) if type(conv).__name__ == 'EnumConverter' else None
        is_list = bool(names & {'_ElementListProperty', '_AttributeListBase'})
        is_string = (inspect.isclass(conv) and conv.__name__ == 'StringConverter') and not is_list
        mi = MemberInfo(name, prop, names, is_list, gen._optional(prop, names, decl) and not is_list,  # noqa: SLF001
                        getattr(prop, '_default_py_value', None) is not None, enum_cls, is_string,
                        bool(names & {'SubElementProperty', 'ContainerProperty', 'SubElementListProperty', 'ContainerListProperty'}), decl)
        mi.lib_optional = bool(prop.is_optional)
        if decl is not None and decl[0] in ('attr', 'elem') and gen.decl_is_exact(ctx, prop, names):
            mi.schema_optional = (not decl[2]) if decl[0] == 'attr' else decl[1].min == 0
        out.append(mi)
    return out
