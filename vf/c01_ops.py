"""C01 only: provider transactions the shared generator (vf.mdibops) does not draw, all of them REPORTABLE (the consumer is told everything):

descr_ctx_purge     a context entity written in a DESCRIPTOR transaction after some / all of its states were removed from entity.states:
                    the update report part lists the context descriptor and the states that still exist (possibly none) - the consumer has
                    to drop every context state of that descriptor the part does not list
descr_create_ctx    a new context descriptor (0..n per SystemContext kinds) created together with 0..2 context states
descr_create_tree   a channel and its metrics created in ONE transaction (parent and children new at once)
descr_update_kind   descriptor update of an arbitrary descriptor kind (MDS, SCO, operation, clock, battery, system context, alert system,
                    real-time metric ... - the shared generator updates metrics, alerts, channels, VMDs and context descriptors only)

``gen(rng, mdib, memo)`` -> op dict | None,  ``apply_op(mdib, op, memo)`` -> mdibops.Applied (falls through to mdibops for its kinds).
"""
from __future__ import annotations

import random
from sdc11073.xml_types import pm_qnames as pm

from . import mdibops
from .mdibops import Applied, BodyAbort, _coded, _new_numeric, mutate_context_state, mutate_descriptor, mutate_state

PURGE_SUBS = ('all', 'one', 'all_but_one', 'all_add_new', 'one_update_other')
NEW_CTX_TYPES = ('EnsembleContextDescriptor', 'MeansContextDescriptor', 'WorkflowContextDescriptor', 'OperatorContextDescriptor')


def ctx_states_of(mdib, descr):
    return sorted(s.Handle for s in mdib.context_states.descriptor_handle.get(descr, []))


def gen_purge(rng: random.Random, mdib, memo, sub=None, descr=None):
    cat = mdibops.catalog(mdib)
    have = [d for d in cat['context'] if mdib.context_states.descriptor_handle.get(d)]
    if descr is not None:
        have = [d for d in have if d == descr]
    if not have:
        return None
    descr = rng.choice(have)
    existing = ctx_states_of(mdib, descr)
    sub = sub or rng.choice(PURGE_SUBS)
    if sub in ('one', 'all_but_one', 'one_update_other') and len(existing) < 2:
        sub = 'all'
    if sub in ('all', 'all_add_new'):
        victims = existing
    elif sub == 'all_but_one':
        victims = sorted(rng.sample(existing, len(existing) - 1))
    else:
        victims = [rng.choice(existing)]
    memo['n'] = memo.get('n', 0) + 1
    return {'op': 'descr_ctx_purge', 'sub': sub, 'descr': descr, 'victims': victims, 'iface': 'entity',
            'other': next((h for h in existing if h not in victims), None), 'new_handle': f'ctxp{memo["n"]}_{rng.randrange(1000)}',
            'seed': rng.randrange(1 << 30)}


def gen_create_ctx(rng, mdib, memo, n_states=None):
    parents = sorted(d.Handle for d in mdib.descriptions.objects if d.NODETYPE == pm.SystemContextDescriptor)
    if not parents:
        return None
    memo['n'] = memo.get('n', 0) + 1
    h = f'nctx{memo["n"]}_{rng.randrange(1000)}'
    n_states = rng.choice([0, 1, 2, 2]) if n_states is None else n_states
    return {'op': 'descr_create_ctx', 'sub': f'{n_states}states', 'parent': rng.choice(parents), 'handle': h, 'type': rng.choice(NEW_CTX_TYPES),
            'states': [f'{h}_s{k}' for k in range(n_states)], 'iface': rng.choice(['classic', 'entity']), 'seed': rng.randrange(1 << 30)}


def gen_create_tree(rng, mdib, memo):
    vmds = mdibops.catalog(mdib)['vmd']
    if not vmds:
        return None
    memo['n'] = memo.get('n', 0) + 1
    h = f'tree{memo["n"]}_{rng.randrange(1000)}'
    n = rng.choice([1, 2, 3])
    # classic interface only: entities.new_entity needs a parent that is already part of the mdib
    return {'op': 'descr_create_tree', 'sub': f'{n}children', 'parent': rng.choice(vmds),
            'handle': h, 'children': [f'{h}_m{k}' for k in range(n)], 'iface': 'classic', 'seed': rng.randrange(1 << 30)}


def kinds_present(mdib) -> dict:
    """descriptor NODETYPE local name -> sorted handles"""
    out = {}
    for d in mdib.descriptions.objects:
        out.setdefault(d.NODETYPE.localname, []).append(d.Handle)
    for v in out.values():
        v.sort()
    return out


def gen_update_kind(rng, mdib, memo, kind=None, iface=None):
    kinds = kinds_present(mdib)
    kind = kind or rng.choice(sorted(kinds))
    if kind not in kinds:
        return None
    return {'op': 'descr_update_kind', 'sub': kind, 'handles': [rng.choice(kinds[kind])], 'iface': iface or rng.choice(['classic', 'entity']),
            'seed': rng.randrange(1 << 30)}


GENERATORS = {'descr_ctx_purge': gen_purge, 'descr_create_ctx': gen_create_ctx, 'descr_create_tree': gen_create_tree,
              'descr_update_kind': gen_update_kind}
WEIGHTS = {'descr_ctx_purge': 4, 'descr_create_ctx': 2, 'descr_create_tree': 2, 'descr_update_kind': 4}


def gen(rng: random.Random, mdib, memo: dict):
    kinds = sorted(WEIGHTS)
    for _ in range(5):
        kind = rng.choices(kinds, [WEIGHTS[k] for k in kinds])[0]
        op = GENERATORS[kind](rng, mdib, memo)
        if op is not None:
            return op
    return None


# ------------------------------------------------------------------------------------------------
def _x_purge(mdib, op, rng, ap):
    ent = mdib.entities.by_handle(op['descr'])
    for h in op['victims']:
        del ent.states[h]
    if op['sub'] == 'one_update_other' and op.get('other') in ent.states:
        mutate_context_state(ent.states[op['other']], rng)
    if op['sub'] == 'all_add_new':
        mutate_context_state(ent.new_state(op['new_handle']), rng)
    if op.get('mutate_descriptor', True):
        mutate_descriptor(ent.descriptor, rng)
    with mdib.descriptor_transaction() as mgr:
        mgr.write_entity(ent)
    ap.touched_descr.add(op['descr'])
    ap.deleted_ctx = set(op['victims'])
    ap.touched_ctx |= set(ctx_states_of(mdib, op['descr'])) | set(op['victims'])


def _x_create_ctx(mdib, op, rng, ap):
    qname = getattr(pm, op['type'])
    with mdib.descriptor_transaction() as mgr:
        if op['iface'] == 'entity':
            ent = mdib.entities.new_entity(qname, op['handle'], op['parent'])
            ent.descriptor.Type = _coded(rng)
            for sh in op['states']:
                mutate_context_state(ent.new_state(sh), rng)
            mgr.write_entity(ent)
        else:
            cls = mdib.data_model.get_descriptor_container_class(qname)
            d = cls(handle=op['handle'], parent_handle=op['parent'])
            d.Type = _coded(rng)
            mgr.add_descriptor(d)
            for sh in op['states']:
                st = mdib.data_model.mk_state_container(d)
                st.Handle = sh
                mutate_context_state(st, rng)
                mgr.add_state(st)
    ap.created.add(op['handle'])
    ap.touched_descr |= {op['handle'], op['parent']}
    ap.touched_ctx |= set(op['states'])


def _new_channel(mdib, handle, parent, rng):
    cls = mdib.data_model.get_descriptor_container_class(pm.ChannelDescriptor)
    d = cls(handle=handle, parent_handle=parent)
    d.Type = _coded(rng)
    return d


def _x_create_tree(mdib, op, rng, ap):
    with mdib.descriptor_transaction() as mgr:
        d = _new_channel(mdib, op['handle'], op['parent'], rng)
        mgr.add_descriptor(d, state_container=mdib.data_model.mk_state_container(d))
        for c in op['children']:
            m = _new_numeric(mdib, c, op['handle'], rng)
            st = mdib.data_model.mk_state_container(m)
            mutate_state(st, rng)
            mgr.add_descriptor(m, state_container=st)
    ap.created |= {op['handle'], *op['children']}
    ap.touched_descr |= {op['handle'], op['parent'], *op['children']}
    ap.touched_states |= ap.touched_descr


def _x_update_kind(mdib, op, rng, ap):
    with mdib.descriptor_transaction() as mgr:
        for h in op['handles']:
            if op['iface'] == 'entity':
                ent = mdib.entities.by_handle(h)
                mutate_descriptor(ent.descriptor, rng)
                mgr.write_entity(ent)
            else:
                mutate_descriptor(mgr.get_descriptor(h), rng)
            ap.touched_descr.add(h)


_EXEC = {'descr_ctx_purge': _x_purge, 'descr_create_ctx': _x_create_ctx, 'descr_create_tree': _x_create_tree, 'descr_update_kind': _x_update_kind}


def apply_op(mdib, op: dict, memo: dict | None = None) -> Applied:
    if op['op'] not in _EXEC:
        return mdibops.apply_op(mdib, op, memo)
    rng = random.Random(op.get('seed', 0))
    ap = Applied(op, 'commit')
    try:
        _EXEC[op['op']](mdib, op, rng, ap)
        ap.outcome = 'ok'
    except BodyAbort as ex:
        ap.outcome, ap.exception = 'raised:BodyAbort', ex
    except Exception as ex:  # noqa: BLE001
        import traceback
        ap.outcome, ap.exception = f'raised:{type(ex).__name__}', ex
        ap.tb = [f'{f.filename.rsplit("/", 1)[-1]}:{f.lineno}:{f.name}' for f in traceback.extract_tb(ex.__traceback__)][-6:]
    if memo is not None and ap.outcome == 'ok':
        memo.setdefault('created', []).extend(sorted(ap.created))
    return ap
