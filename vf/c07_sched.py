"""C07 - deterministic schedules of SEVERAL threads at lock granularity ("gate scheduler").

``vf/sched.py`` runs foreign transactions synchronously inside ONE observed thread.  This module parks real threads instead:

* every thread that touches the MDIB lock or a table lock of an instrumented MDIB reports ('before', name) before an outermost acquire
  and ('released', name) after an outermost release;
* a thread that works for an *actor* is parked at such a point until the controller (the thread that owns the ``Sched``) lets it go;
  exactly one actor runs at any time, so a schedule (= sequence of steps) is reproduced exactly;
* reader actors are parked only while they do NOT hold the MDIB lock (the points a writer could be scheduled at); writer actors are
  parked only while they DO hold it (the points inside a commit a reader could arrive at);
* an acquire that cannot succeed at once (the lock is held by a parked actor) reports the actor as *blocked* - that is how the
  controller learns that a reader waits for the open transaction (it is not a hang);
* threads are adopted: an unknown thread reaching a point works for the actor being stepped (the HTTP server thread of a real socket
  request).

Every wait of the controller has a wall-clock watchdog; a watchdog that fires makes the run inconclusive (``Sched.stuck``), it never is
a verdict.
"""
from __future__ import annotations

import threading

WATCHDOG = 120.0          # one wait of a parked thread (it waits again)
CONTROLLER_WATCHDOG = 900.0  # the controller waits for ONE segment of one actor; firing = inconclusive, never a verdict


class GateLock:
    def __init__(self, real, name: str, owner: 'Sched'):
        self._real = real
        self._name = name
        self._owner = owner
        self._depth = threading.local()

    def _d(self):
        return getattr(self._depth, 'n', 0)

    def acquire(self, blocking=True, timeout=-1):
        outer = self._d() == 0
        if outer:
            self._owner.event('before', self._name)
            ok = self._real.acquire(False)
            if not ok and blocking:
                self._owner.blocked(self._name)
                ok = self._real.acquire(blocking, timeout)
                self._owner.unblocked()
        else:
            ok = self._real.acquire(blocking, timeout)
        if ok:
            self._depth.n = self._d() + 1
        return ok

    def release(self):
        self._depth.n = self._d() - 1
        self._real.release()
        if self._d() == 0:
            self._owner.event('released', self._name)

    __enter__ = acquire

    def __exit__(self, *a):
        self.release()

    def held(self):
        return self._d() > 0


class Actor:
    def __init__(self, name: str, mode: str, fn):
        self.name = name
        self.mode = mode  # 'reader' | 'writer'
        self.fn = fn
        self.state = 'new'  # new | running | parked | blocked | done
        self.go = False
        self.point = None
        self.points: list = []  # every point this actor was parked at
        self.was_blocked = 0
        self.result = None
        self.exception = None
        self.thread = None


class Sched:
    def __init__(self, mdib):
        self.mdib = mdib
        self.cv = threading.Condition()
        self.controller = threading.current_thread()
        self.current: Actor | None = None
        self.by_thread: dict[int, Actor] = {}
        self.active = False
        self.stuck: list[str] = []
        self.quiet = threading.local()  # .on = True: this thread's lock events are the harness' own (no points)
        self.locks = {}
        self.locks['mdib'] = mdib.mdib_lock = GateLock(mdib.mdib_lock, 'mdib', self)
        for tname in ('descriptions', 'states', 'context_states'):
            table = getattr(mdib, tname)
            proxy = GateLock(table._lock, tname, self)  # noqa: SLF001
            table._lock = proxy  # noqa: SLF001
            for idx in table._idx_defs.values():  # noqa: SLF001
                idx.set_lock(proxy)
            self.locks[tname] = proxy

    # -- called by the lock proxies (any thread) ------------------------------------------------------
    def _actor_of_this_thread(self, adopt: bool) -> Actor | None:
        t = threading.current_thread()
        if not self.active or t is self.controller or getattr(self.quiet, 'on', False):
            return None
        actor = self.by_thread.get(t.ident)
        if actor is None and adopt and self.current is not None:
            actor = self.by_thread[t.ident] = self.current
        return actor

    def event(self, kind: str, name: str):
        actor = self._actor_of_this_thread(adopt=True)
        if actor is None or actor.state == 'done':
            return
        holds = self.locks['mdib'].held()
        if actor.mode == 'reader' and holds:
            return
        if actor.mode == 'writer' and not holds:
            return
        with self.cv:
            actor.state = 'parked'
            actor.point = (kind, name)
            actor.points.append((kind, name))
            self.cv.notify_all()
            waited = 0
            while not actor.go:
                # a parked thread simply waits for the controller (which may be busy with other actors for a long time on a loaded
                # machine): waiting is never a finding; only a controller that is gone for an hour ends it
                if not self.cv.wait(WATCHDOG):
                    waited += 1
                    if waited > 30 or not self.active:
                        break
            actor.go = False
            actor.state = 'running'

    def blocked(self, name: str):
        actor = self._actor_of_this_thread(adopt=True)
        if actor is None:
            return
        with self.cv:
            actor.state = 'blocked'
            actor.was_blocked += 1
            actor.point = ('blocked', name)
            self.cv.notify_all()

    def unblocked(self):
        actor = self._actor_of_this_thread(adopt=False)
        if actor is None:
            return
        with self.cv:
            actor.state = 'running'
            self.cv.notify_all()

    # -- controller ----------------------------------------------------------------------------------------
    def begin(self):
        self.by_thread.clear()
        self.current = None
        self.active = True

    def end(self):
        self.active = False
        self.current = None
        self.by_thread.clear()

    def _body(self, actor: Actor):
        try:
            actor.result = actor.fn()
        except BaseException as ex:  # noqa: BLE001
            actor.exception = ex
        with self.cv:
            actor.state = 'done'
            self.cv.notify_all()

    def step(self, actor: Actor) -> str:
        """let the actor run to its next point / its end; returns its state afterwards (parked | blocked | done)."""
        with self.cv:
            if actor.state == 'running':  # just unblocked: it runs to its next point on its own
                return self._wait(actor, ('parked', 'blocked', 'done'))
            if actor.state in ('done', 'blocked'):
                return actor.state
            self.current = actor
            if actor.state == 'new':
                actor.state = 'running'
                actor.thread = threading.Thread(target=self._body, args=(actor,), daemon=True, name=f'c07-{actor.name}')
                actor.thread.start()
                self.by_thread[actor.thread.ident] = actor  # (a thread that is faster than this line is adopted: current is this actor)
            elif actor.state == 'parked':
                actor.state = 'running'
                actor.go = True
                self.cv.notify_all()
            return self._wait(actor, ('parked', 'blocked', 'done'))

    def _wait(self, actor: Actor, states) -> str:
        # caller holds self.cv
        while actor.state not in states:
            if not self.cv.wait(CONTROLLER_WATCHDOG):
                self.stuck.append(f'actor {actor.name} did not reach a point (state {actor.state})')
                break
        return actor.state

    def settle(self, actors):
        """blocked actors continue as soon as the lock holder is gone: wait until each of them is parked or done (only when no writer
        is parked inside its commit any more)."""
        with self.cv:
            if any(a.mode == 'writer' and a.state == 'parked' for a in actors):
                return
            for a in actors:
                if a.state in ('blocked', 'running'):
                    self._wait(a, ('parked', 'done'))

    def drain(self, actors, max_steps: int = 20000) -> bool:
        """run every actor to its end (writers first: they may hold the lock)."""
        n = 0
        order = sorted(actors, key=lambda a: a.mode != 'writer')
        while any(a.state != 'done' for a in order):
            progressed = False
            for a in order:
                if a.state in ('new', 'parked'):
                    self.step(a)
                    progressed = True
                    n += 1
                self.settle(order)
            if self.stuck or n > max_steps or not progressed and all(a.state in ('blocked', 'done') for a in order):
                if any(a.state != 'done' for a in order):
                    self.stuck.append('drain: actors left ' + ', '.join(f'{a.name}:{a.state}' for a in order if a.state != 'done'))
                break
        for a in order:
            if a.thread is not None:
                a.thread.join(WATCHDOG)
        return not self.stuck
