"""C12 - instances never share mutable state or alter the defaults of later instances.

Monitors (real constructors, real ``from_node`` / ``update_from_node``, real copy functions):

* **baseline stability** - ``canon(cls())`` of EVERY enumerated class is taken before any activity of the process and
  re-evaluated after every activity batch (construct / parse with absent members / copy / deep mutation);
* **aliasing walk** - the ``__dict__`` graphs of two independently obtained instances (two fresh constructions, two
  parses of *different* nodes, a parse and a fresh instance, an instance and its deep copy) must not reach one common
  mutable object; a common object that is a class-level ``_default_py_value`` (or lives inside one) is keyed
  ``shared_default.<Class>.<member>``;
* **write-through** - every reachable member of one instance is rewritten in place (nested attribute writes, list
  appends, lxml attribute sets) while the canonical form of the other instance(s) is watched.

``mk_copy`` and ``update_from_other_container`` are exercised the same way (keys ``copy_alias.*``).

Round 4 (the PUBLIC read API, not only the raw storage):

* **getter monitor** (``run_cleared``) - every member of a fresh / a fully parsed / a parsed-with-defaults-absent instance is set to ``None`` through
  its setter and read back through the ATTRIBUTE; a mutable object that is handed out must be neither a class-level object
  (``getter.class_default.<Class.member>``: ``_default_py_value`` / ``_implied_py_value`` / a default argument of ``__init__``) nor reachable from an
  independent instance (``getter.shared_object.*``); it is then rewritten like an application does (``if x.M is None: x.M = New(); x.M.a = v``) and
  the other instance / the defaults are watched.  ``walk`` follows the getters as well, ``mutate`` clears-and-re-reads members with probability
  ``p_clear``, so the pattern is part of every workload and of the random histories;
* **re-parse** (``run_reparse``) - ``update_from_node`` into an already populated instance (keys ``shared_object.two_reparses.*``, ``write_through.reparse.*``);
* **helper / factory methods** (``run_helpers``, found by reflection in ``vf/c12_api.py``): ``mk_metric_value``, ``add_report_part``, ``set_filter``,
  ``update_from_sdc_location`` ... called on two fresh instances (keys ``shared_object.helper.*``, ``write_through.helper.*``).
"""
from __future__ import annotations

import copy
import enum
import itertools
from decimal import Decimal

from lxml import etree

from .. import c12_api, core
from .. import xmlgen as xg
from ..canon import canon, canon_diff
from . import c05

MODULE = 'vf.props.c12'
SKIP_DICT_KEYS = ('_property_instance_data', 'descriptor_container')   # source node / intended reference to the descriptor


def _immutable(v) -> bool:
    if v is None or isinstance(v, (str, bytes, int, float, bool, Decimal, enum.Enum, etree.QName, type)):
        return True
    if isinstance(v, (tuple, frozenset)):
        return all(_immutable(x) for x in v)
    mod = type(v).__module__
    if mod in ('datetime',):
        return True
    params = getattr(type(v), '__dataclass_params__', None)
    if params is not None and params.frozen:
        return all(_immutable(getattr(v, f)) for f in getattr(v, '__dataclass_fields__', {}))
    return callable(v) and not hasattr(v, 'sorted_container_properties')


def walk(root, max_depth: int = 12, getters: bool = True) -> dict[int, tuple[str, object, object, str]]:
    """id -> (path, object, owner object, member name) of every mutable object reachable through ``__dict__`` / containers and (``getters``)
    through the attribute getter of every declared member - what the public read API hands out; on a healthy library these are the stored objects."""
    found: dict[int, tuple] = {}
    stack = [(root, '', None, '', 0)]
    while stack:
        obj, path, owner, member, depth = stack.pop()
        if _immutable(obj) or id(obj) in found or depth > max_depth:
            continue
        found[id(obj)] = (path, obj, owner, member)
        if isinstance(obj, etree._Element):  # noqa: SLF001  leaf: the element stands for its subtree
            continue
        if isinstance(obj, (list, set)):
            for i, x in enumerate(obj):
                stack.append((x, f'{path}[{i}]', owner, member, depth + 1))
            continue
        if isinstance(obj, dict):
            for k, x in obj.items():
                stack.append((x, f'{path}[{k!r}]', owner, member, depth + 1))
            continue
        names = {}
        if hasattr(obj, 'sorted_container_properties'):
            try:
                names = {p._local_var_name: n for n, p in obj.sorted_container_properties()}  # noqa: SLF001
            except Exception:  # noqa: BLE001
                names = {}
        d = getattr(obj, '__dict__', None)
        if isinstance(d, dict):
            for k, x in d.items():
                if k in SKIP_DICT_KEYS:
                    continue
                m = names.get(k, k)
                stack.append((x, f'{path}.{m}' if path else m, obj, m, depth + 1))
        if getters:
            for m in names.values():
                try:
                    x = getattr(obj, m)
                except Exception:  # noqa: BLE001, S112
                    continue
                if not _immutable(x) and id(x) not in found:
                    stack.append((x, f'{path}.{m}' if path else m, obj, m, depth + 1))
    found.pop(id(root), None)
    return found


def _decl_member(owner, member: str) -> str:
    if owner is None:
        return member
    return f'{xg.declaring_class(type(owner), member)}.{member}'


# =============================================================================================
class Monitor:
    def __init__(self, ctx: core.Ctx):
        self.ctx = ctx
        self.chk = c05.Checker(ctx)          # codecs (how each class is written / read); its round-trip oracles are not used here
        self.infos = self.chk.infos
        self.by_key = {i.key: i for i in self.infos}
        self.index = self.chk.oracle.index
        self.builder = xg.Gen(ctx.rng('c12', 'builder'), self.index)
        self.instantiable = []
        self.baseline: dict[str, object] = {}
        self.volatile: dict[str, set] = {}
        self.shared_defaults_found: set[str] = set()
        self.default_by_key: dict[str, object] = {}
        self.related: dict[str, list] = {}
        self.defaults: dict[int, tuple[str, str, str]] = {}   # id -> (DeclClass.member, inner path, class key)
        self._default_refs = []                               # keep the default objects alive (ids stay valid)
        self._take_baseline()

    # ---- baseline ------------------------------------------------------------------------------------------------
    def _take_baseline(self):
        for info in self.infos:
            try:
                obj = self.builder.construct(info.cls)
                first, second = canon(obj), canon(self.builder.construct(info.cls))
                # members whose initial value is different on every construction by design (HeaderInformationBlock.MessageID = uuid4())
                vol = {path.split('.')[0].split('[')[0].split('#')[0] for path, _l, _r in canon_diff(first, second, limit=50)}
                if vol:
                    self.volatile[info.key] = vol
                    self.ctx.extra.setdefault('volatile_initial_values_masked', []).append(f'{info.key}: {sorted(vol)}')
                self.baseline[info.key] = self._mask(info.key, first)
                self.instantiable.append(info)
            except Exception:  # noqa: BLE001  (C05 reports classes that cannot be instantiated)
                self.ctx.count('classes.not_instantiable')
                continue
            try:
                props = xg.props_of(info.cls)
            except Exception:  # noqa: BLE001
                continue
            for name, prop in props:
                key = f'{xg.declaring_class(info.cls, name)}.{name}'
                # class-level objects of the descriptor: the default AND the implied value (the getter hands the implied value out as it is)
                for attr in ('_default_py_value', '_implied_py_value'):
                    dv = getattr(prop, attr, None)
                    if dv is None or _immutable(dv):
                        continue
                    self.default_by_key.setdefault(key, dv)
                    self._register_class_level(dv, key, info.key)
            # mutable default ARGUMENTS of the constructors: one object per process as well
            for key, dv in c12_api.ctor_default_objects(info.cls, _immutable):
                self._register_class_level(dv, key, info.key)
        self.ctx.count('baseline.classes', len(self.baseline))
        self.ctx.count('baseline.mutable_class_level_default_objects', len({v[0] for v in self.defaults.values()}))

    def _register_class_level(self, dv, key, class_key):
        if id(dv) in self.defaults:
            return
        self.defaults[id(dv)] = (key, '', class_key)
        self._default_refs.append(dv)
        # getters=False: reading through the getters stores values (ExtensionNodeProperty) - never touch the class-level objects themselves
        for _oid, (path, inner, _o, _m) in walk(dv, getters=False).items():
            self.defaults.setdefault(id(inner), (key, path, class_key))
            self._default_refs.append(inner)

    def _mask(self, key, c):
        vol = self.volatile.get(key)
        if not vol:
            return c
        return c[:3] + (tuple((n, ('volatile',) if n in vol else v) for n, v in c[3]),)

    def recheck_baseline(self, activity: str, only=None, pool=()):
        """canon(cls()) of every class (or of the classes in ``only``) must still be what it was before any activity."""
        ctx = self.ctx
        for info in (self.instantiable if only is None else only):
            try:
                now = self._mask(info.key, canon(self.builder.construct(info.cls)))
            except Exception as ex:  # noqa: BLE001
                ctx.witness(f'default_altered.{info.name}.constructor_raises', f'{info.name}() raises after {activity}: {ex!r}', {'class': info.key})
                continue
            ctx.count('baseline.rechecks')
            was = self.baseline[info.key]
            if now != was:
                for path, left, right in canon_diff(was, now, limit=3):
                    member = path.split('.')[0].split('[')[0].split('#')[0]
                    dkey = f'{xg.declaring_class(info.cls, member)}.{member}'
                    if dkey not in self.shared_defaults_found and dkey in self.default_by_key:
                        # random histories: is the class-level default object itself held by one of the live instances?
                        dobj = self.default_by_key[dkey]
                        for pinfo, inst in pool:
                            hit = [v[0] for k, v in walk(inst).items() if k == id(dobj)]
                            if hit:
                                self.shared_defaults_found.add(dkey)
                                ctx.witness(f'shared_default.{dkey}',
                                            f'{pinfo.name} (obtained in a random history): member {hit[0]} IS the class-level default object of {dkey}',
                                            {'class': pinfo.key, 'relation': 'random history', 'path': hit[0], 'activity': activity})
                                break
                    if dkey in self.shared_defaults_found:
                        # the reported shared class-level default was written through: every later instance starts from the altered value
                        ctx.count('default_altered.through_reported_shared_default')
                        lst = ctx.extra.setdefault('fresh_instances_altered_through_shared_default', [])
                        if f'{info.name}.{member}' not in lst:
                            lst.append(f'{info.name}.{member}')
                        continue
                    ctx.witness(f'default_altered.{dkey}',
                                f'a freshly constructed {info.name} differs from the one constructed at start-up after: {activity}; '
                                f'{path}: {c05._brief(left)} -> {c05._brief(right)}',  # noqa: SLF001
                                {'class': info.key, 'path': path, 'was': repr(left)[:500], 'now': repr(right)[:500], 'activity': activity})
                self.baseline[info.key] = now   # report every alteration once

    # ---- aliasing ------------------------------------------------------------------------------------------------
    def check_alias(self, a, b, relation: str, info, detail=None, label: str = 'pair') -> list[str]:
        """no mutable object reachable from both; returns the paths (in ``a`` and in ``b``) of the shared objects"""
        ctx = self.ctx
        wa, wb = walk(a), walk(b)
        ctx.count('alias.pairs_walked')
        ctx.count('alias.objects_walked', len(wa) + len(wb))
        common = set(wa) & set(wb)
        shared_paths: list[str] = []
        reported = set()
        for oid in common:
            path, obj, owner, member = wa[oid]
            # report the outermost shared object only (everything below it is shared as a consequence)
            if owner is not None and id(owner) in common:
                continue
            if isinstance(obj, etree._Element) and any(id(p) in common for p in obj.iterancestors()):  # noqa: SLF001
                continue
            # an element of a shared list is a consequence of the shared list
            if '[' in path.split('.')[-1] and any(wa[o][0] == path[:path.rindex('[')] for o in common if o != oid):
                continue
            shared_paths += [path, wb[oid][0]]
            dm = _decl_member(owner, member) or type(obj).__name__
            if oid in self.defaults:
                dkey, inner, _ckey = self.defaults[oid]
                key = f'shared_default.{dkey}'
                self.shared_defaults_found.add(dkey)
                what = (f'{info.name}: {relation}: member {path} IS the class-level default object of {dkey}'
                        + (f' (its inner object {inner})' if inner else ''))
            else:
                key = f'shared_object.{label}.{dm}'
                what = f'{info.name}: {relation}: both instances reach the same {type(obj).__name__} object at {path}'
            if key in reported:
                continue
            reported.add(key)
            ctx.witness(key, what, {'class': info.key, 'relation': relation, 'path': path, 'other_path': wb[oid][0],
                                    'object_type': type(obj).__name__, **(detail or {})})
        return shared_paths

    # ---- mutation ------------------------------------------------------------------------------------------------
    p_clear = 0.1

    def gen_for(self, rng):
        """one value generator per random stream (constructing a Gen enumerates all classes: not once per nested object)"""
        cache = self.__dict__.setdefault('_gens', {})
        hit = cache.get(id(rng))
        if hit is None or hit[0] is not rng:
            hit = cache[id(rng)] = (rng, xg.Gen(rng, self.index))
        return hit[1]

    def mutate(self, obj, rng, depth: int = 0) -> int:  # noqa: C901, PLR0912
        """rewrite every reachable member in place; returns the number of writes.

        With probability ``p_clear`` a member is first set to None and read back through the ATTRIBUTE, the way applications (and
        ``LocationContextStateContainer.update_from_sdc_location``) do it: ``if x.M is None: x.M = New()`` and then ``x.M.attr = value`` - when
        the getter hands out an object instead of None, the nested writes go into THAT object."""
        writes = 0
        if depth > 4 or not hasattr(obj, 'sorted_container_properties'):
            return 0
        gen = self.gen_for(rng)
        cls = type(obj)
        ctx_schema, _ = xg.schema_home(self.index, cls, gen._keys.get(cls))  # noqa: SLF001
        for name, prop in obj.sorted_container_properties():
            names = xg.mro_names(prop)
            if 'CurrentTimestampAttributeProperty' in names:
                continue
            try:
                value = prop.get_actual_value(obj)
            except Exception:  # noqa: BLE001
                continue
            if value is not None and not isinstance(value, list) and self.p_clear and rng.random() < self.p_clear:
                try:
                    setattr(obj, name, None)
                except Exception:  # noqa: BLE001  (ExtensionNodeProperty, AllowedValues: None is refused)
                    self.ctx.count('mutate.clear_refused')
                else:
                    self.ctx.count('mutate.cleared_then_read')
                    got = getattr(obj, name)
                    if got is None or _immutable(got):
                        try:
                            setattr(obj, name, value)  # the None-branch: the member is filled again (here: with the object it held before)
                        except Exception:  # noqa: BLE001
                            setattr(obj, prop._local_var_name, value)  # noqa: SLF001
                    else:
                        self.ctx.count('mutate.cleared_member_read_as_object')
                        value = got                    # no None-branch: the application writes into what it was handed
            try:
                if isinstance(value, list):
                    for x in list(value)[:2]:
                        if isinstance(x, etree._Element):  # noqa: SLF001
                            x.set('verif-mutated', str(rng.randrange(10 ** 6)))
                            writes += 1
                        elif hasattr(x, 'sorted_container_properties'):
                            writes += self.mutate(x, rng, depth + 1)
                    decl = gen._decl(ctx_schema, prop, names)  # noqa: SLF001
                    if 'ExtensionNodeProperty' in names:
                        value.append(gen.foreign_element())
                    else:
                        extra = gen._list_value(prop, names, 1, ctx_schema, decl, min(depth + 1, 3), 'min', None, cls)  # noqa: SLF001
                        value.extend(extra)       # in place: the list object itself is what may be shared
                    writes += 1
                elif hasattr(value, 'sorted_container_properties'):
                    writes += self.mutate(value, rng, depth + 1)   # nested attribute writes
                else:
                    decl = gen._decl(ctx_schema, prop, names)  # noqa: SLF001
                    before = canon(value)
                    for _ in range(4):
                        if 'ExtensionNodeProperty' in names:
                            getattr(obj, name).append(gen.foreign_element())
                            writes += 1
                            break
                        new = gen._scalar_value(obj, prop, names, name, ctx_schema, decl, min(depth + 1, 3), 'min', None)  # noqa: SLF001
                        if canon(new) != before:
                            setattr(obj, name, new)
                            writes += 1
                            break
            except Exception:  # noqa: BLE001  a refused write is no write
                self.ctx.count('mutate.write_refused')
        extra = getattr(obj, 'reference_parameters', None)
        if isinstance(extra, list):
            extra.append(gen.foreign_element())
            writes += 1
        return writes

    def check_write_through(self, writer, watched: list, relation: str, info, rng, key_prefix: str, explained=()):
        """``explained``: paths of objects the aliasing walk has already reported as shared for this pair - a change below such a
        path is the same finding seen a second way (counted, not reported again)"""
        ctx = self.ctx
        before = [canon(w) for w in watched]
        n = self.mutate(writer, rng)
        ctx.count('mutate.writes', n)
        ctx.count('write_through.watched', len(watched))
        for w, was in zip(watched, before):
            now = canon(w)
            if now != was:
                for path, left, right in canon_diff(was, now, limit=3):
                    if any(path == e or path.startswith((e + '.', e + '[', e + '#')) for e in explained if e):
                        ctx.count('write_through.confirms_reported_shared_object')
                        continue
                    blame = _blame_path(w, path)
                    ctx.witness(f'{key_prefix}.{blame}',
                                f'{info.name}: {relation}: writing into one instance changed the other at {path}: {c05._brief(left)} -> {c05._brief(right)}',  # noqa: SLF001
                                {'class': info.key, 'relation': relation, 'path': path, 'member': blame})
        return n

    # ---- per class ------------------------------------------------------------------------------------------------
    def parse_inputs(self, info, rng, n_rand: int):
        """serialised documents of the class: minimal, maximal and random instances written by the library itself"""
        codec = self.chk.codec(info)
        gen = xg.Gen(rng, self.index)
        texts = []
        for mode in ['min', 'max'] + ['rand'] * n_rand:
            try:
                obj = gen.instance(info.cls, xg.Plan(mode=mode))
                doc, _ = codec.write(obj)
                if doc is None:
                    continue
                texts.append((mode, etree.tostring(doc), obj))
            except Exception:  # noqa: BLE001  (C05 reports write failures)
                self.ctx.count('inputs.write_failed')
        return codec, texts

    def removable(self, info, codec, node):
        out = []
        for name, prop in xg.props_of(info.cls):
            names = xg.mro_names(prop)
            if getattr(prop, '_sub_element_name', 1) is None and '_AttributeBase' not in names:
                continue
            if c05._present_in(node, prop, names):  # noqa: SLF001
                out.append((name, prop, names))
        return out

    def node_of(self, info, codec, text, absent):
        """a NEW document of ``text`` with the members ``absent`` removed -> the node the class is read from"""
        doc = etree.fromstring(text)
        node = doc if info.key == 'mex_types.Metadata' else codec.locate(doc)
        target = node if info.key != 'mex_types.Metadata' else node[0]
        for _name, prop, names in absent:
            c05._remove(target, prop, names)  # noqa: SLF001
        return node

    def parse(self, info, codec, text, absent, template):
        return codec.read(self.node_of(info, codec, text, absent), template)

    # ---- S2b: update_from_node into a populated instance ---------------------------------------------------------------------
    def run_reparse(self, info, codec, text, absent, template, rng, family):
        ctx = self.ctx
        names_absent = sorted(n for n, _p, _n in absent)
        pair = []
        for _ in range(2):
            try:
                r = self.parse(info, codec, text, (), template)             # populated: every member of the document present
                r.update_from_node(self.node_of(info, codec, text, absent))  # ... read again, from another node, members absent
                pair.append(r)
            except Exception:  # noqa: BLE001  (classes whose from_node is not the generic one may refuse; not this property)
                ctx.count('reparse.refused')
                return
        ctx.count('reparse.pairs')
        ctx.case(('reparse', info.key, tuple(names_absent) if len(names_absent) <= 2 else len(names_absent)))
        relation = f'two populated instances updated from different nodes with update_from_node, absent={names_absent}'
        fresh = self.builder.construct(info.cls)
        shared = self.check_alias(pair[0], pair[1], relation, info, {'absent': names_absent}, label='two_reparses')
        shared += self.check_alias(pair[0], fresh, 'a re-parsed and a fresh instance', info, {'absent': names_absent}, label='reparsed_vs_fresh')
        self.check_write_through(pair[0], [pair[1], fresh], relation, info, rng, 'write_through.reparse', shared)
        self.recheck_baseline(f'update_from_node of a populated {info.name} with {names_absent} absent and rewriting all members of the result', family)

    # ---- S4: what the attribute getter hands out after None was assigned -------------------------------------------------------
    def run_cleared(self, info, codec, texts, rng, family):  # noqa: C901, PLR0912, PLR0915
        ctx = self.ctx
        cls = info.cls
        subjects = []
        try:
            subjects.append(('fresh', self.builder.construct(cls), self.builder.construct(cls)))
        except Exception:  # noqa: BLE001
            return
        by_mode = {}
        for mode, text, template in texts:
            by_mode.setdefault(mode, (text, template))
        for mode, kind in (('max', 'parsed'), ('min', 'parsed_defaults_absent')):
            if mode not in by_mode:
                continue
            text, template = by_mode[mode]
            try:
                absent = ()
                if kind == 'parsed_defaults_absent':
                    node = self.node_of(info, codec, text, ())
                    target = node if info.key != 'mex_types.Metadata' else node[0]
                    absent = tuple(r for r in self.removable(info, codec, target) if getattr(r[1], '_default_py_value', None) is not None)
                subjects.append((kind, self.parse(info, codec, text, absent, template), self.parse(info, codec, text, absent, template)))
            except Exception:  # noqa: BLE001
                ctx.count('parse.refused')
        for kind, x, other in subjects:
            before = canon(other)
            reach_other = walk(other)
            reported = False
            for name, prop in x.sorted_container_properties():
                if 'CurrentTimestampAttributeProperty' in xg.mro_names(prop):
                    continue
                try:
                    old = prop.get_actual_value(x)
                    setattr(x, name, None)
                except Exception:  # noqa: BLE001  (lists of some kinds, ExtensionNodeProperty, AllowedValues refuse None)
                    ctx.count('clear.none_refused')
                    continue
                ctx.count('clear.none_assigned')
                try:
                    got = getattr(x, name)
                except Exception:  # noqa: BLE001
                    ctx.count('clear.read_raised')
                    got = None
                dv = getattr(prop, '_default_py_value', None)
                if dv is not None and not _immutable(dv):
                    ctx.count('clear.reads_of_member_with_default_object')
                if got is not None and not _immutable(got):
                    ctx.count('clear.mutable_object_handed_out')
                    ids = [id(got), *walk(got, getters=False)]
                    dm = _decl_member(x, name)
                    detail = {'class': info.key, 'subject': kind, 'member': name, 'object_type': type(got).__name__}
                    hit = [k for k in ids if k in self.defaults]
                    if hit:
                        dkey, inner, _ckey = self.defaults[hit[0]]
                        self.shared_defaults_found.add(dkey)
                        reported = True
                        ctx.witness(f'getter.class_default.{dkey}',
                                    f'{info.name} ({kind}): after None was assigned to {name}, reading the attribute hands out the class-level '
                                    f'object of {dkey}' + (f' (inner object {inner})' if inner else '') + ' - a nested write through it alters every later instance',
                                    detail)
                    elif any(k in reach_other for k in ids):
                        reported = True
                        ctx.witness(f'getter.shared_object.{dm}',
                                    f'{info.name} ({kind}): after None was assigned to {name}, reading the attribute hands out an object that an '
                                    f'independently obtained {info.name} holds', detail)
                    # the application writes into what it was handed ("if x.M is None" was False)
                    n = 0
                    if hasattr(got, 'sorted_container_properties'):
                        n = self.mutate(got, rng, 1)
                    elif isinstance(got, list):
                        got.append(copy.deepcopy(got[0]) if got else 'verif')
                        n = 1
                    ctx.count('mutate.writes', n)
                try:
                    setattr(x, name, old)
                except Exception:  # noqa: BLE001
                    setattr(x, prop._local_var_name, old)  # noqa: SLF001
            ctx.case(('cleared', info.key, kind))
            now = canon(other)
            if now != before:
                for path, left, right in canon_diff(before, now, limit=3):
                    if reported:
                        ctx.count('write_through.confirms_reported_shared_object')
                        continue
                    ctx.witness(f'write_through.getter.{_blame_path(other, path)}',
                                f'{info.name} ({kind}): assigning None to a member, reading it back and writing into the object handed out changed an '
                                f'independent instance at {path}: {c05._brief(left)} -> {c05._brief(right)}',  # noqa: SLF001
                                {'class': info.key, 'subject': kind, 'path': path})
            self.recheck_baseline(f'None assigned to every member of a {kind} {info.name} in turn, the member read back through the attribute and '
                                  'rewritten', family)

    # ---- S5: helper / factory methods ----------------------------------------------------------------------------------------
    def run_helpers(self, info, rng, family, sample: float = 1.0):  # noqa: C901
        ctx = self.ctx
        cls = info.cls
        calls = c12_api.helper_calls(cls)
        if not calls:
            return 0
        try:
            a, b = self.builder.construct(cls), self.builder.construct(cls)
        except Exception:  # noqa: BLE001
            return 0
        ra, rb, done = [], [], []
        for name, is_cm, factories in calls:
            if sample < 1.0 and rng.random() > sample:
                continue
            try:
                fa, fb = (getattr(cls, name), getattr(cls, name)) if is_cm else (getattr(a, name), getattr(b, name))
                xa, xb = fa(*[f() for f in factories]), fb(*[f() for f in factories])
            except Exception:  # noqa: BLE001  (mk_metric_value with a value present, update_descriptor_version without descriptor ...)
                ctx.count('helper.call_refused')
                continue
            ctx.count('helper.calls')
            done.append(name)
            used = ctx.extra.setdefault('helper_methods_called', [])
            if name not in used:
                used.append(name)
            if xa is not None and not _immutable(xa) and not _immutable(xb):
                ra.append(xa)
                rb.append(xb)
        if not done:
            return 0
        ctx.case(('helper', info.key, tuple(done)))
        relation = f'two fresh instances, each after its own calls of {done}'
        shared = self.check_alias([a, *ra], [b, *rb], relation, info, {'helpers': done}, label='helper')
        watched = [w for w in [b, *rb] if hasattr(w, 'sorted_container_properties')]
        before = [canon(w) for w in watched]
        n = sum(self.mutate(w, rng) for w in [a, *ra] if hasattr(w, 'sorted_container_properties'))
        ctx.count('mutate.writes', n)
        ctx.count('write_through.watched', len(watched))
        for w, was in zip(watched, before):
            now = canon(w)
            if now == was:
                continue
            for path, left, right in canon_diff(was, now, limit=3):
                if shared:
                    ctx.count('write_through.confirms_reported_shared_object')
                    continue
                ctx.witness(f'write_through.helper.{_blame_path(w, path)}',
                            f'{info.name}: {relation}: writing into one changed the other at {path}: {c05._brief(left)} -> {c05._brief(right)}',  # noqa: SLF001
                            {'class': info.key, 'helpers': done, 'path': path})
        self.recheck_baseline(f'helper methods {done} on a fresh {info.name} and rewriting all members', family)
        return len(done)

    def run_class(self, info, tier_quick: bool):  # noqa: C901, PLR0912, PLR0915
        ctx = self.ctx
        rng = ctx.rng('c12', info.key)
        cls = info.cls
        # ---- S1: two fresh constructions -------------------------------------------------------------------
        try:
            a1, a2 = self.builder.construct(cls), self.builder.construct(cls)
        except Exception:  # noqa: BLE001
            return
        ctx.count('classes.exercised')
        # frequent re-checks look at the class family (bases / subclasses: they share the descriptor objects); ALL classes are
        # re-checked once per class at the end of run_class and at the end of the worker
        family = [i for i in self.instantiable if issubclass(i.cls, cls) or issubclass(cls, i.cls)]
        shared = self.check_alias(a1, a2, 'two fresh constructions', info, label='two_fresh')
        ctx.case(('fresh', info.key))
        if len(ctx.samples) < 2:
            ctx.sample({'class': info.key, 'scenario': 'two fresh constructions, deep mutation of one, baseline of cls() re-checked',
                        'shared_mutable_objects_found': bool(shared)})
        self.check_write_through(a1, [a2], 'two fresh constructions', info, rng, 'write_through.fresh', shared)
        self.recheck_baseline(f'deep mutation of a freshly constructed {info.name}', family)
        # ---- S2: parse with absent members ---------------------------------------------------------------------
        codec, texts = self.parse_inputs(info, rng, 1 if tier_quick else 6)
        has_defaults = False
        for mode, text, template in texts:
            try:
                doc = etree.fromstring(text)
                node = doc if info.key == 'mex_types.Metadata' else codec.locate(doc)
                target = node if info.key != 'mex_types.Metadata' else node[0]
                removable = self.removable(info, codec, target)
            except Exception:  # noqa: BLE001
                continue
            subsets = [()] + [(r,) for r in removable] + ([tuple(removable)] if len(removable) > 1 else [])
            if not tier_quick:
                for k in (2, 3, 4):
                    combos = list(itertools.combinations(removable, k))
                    rng.shuffle(combos)
                    subsets += combos[:40]
            for absent in subsets:
                try:
                    p1 = self.parse(info, codec, text, absent, template)
                    p2 = self.parse(info, codec, text, absent, template)
                except Exception:  # noqa: BLE001  (mandatory member missing -> reader may refuse; not this property)
                    ctx.count('parse.refused')
                    continue
                ctx.count('parse.pairs')
                names_absent = tuple(sorted(n for n, _p, _n in absent))
                with_default = [n for n, p, _ in absent if getattr(p, '_default_py_value', None) is not None]
                if with_default:
                    ctx.count('parse.absent_member_has_default')
                    has_defaults = True
                ctx.case(('parse', info.key, mode, names_absent if len(names_absent) <= 2 else (len(names_absent), hash(names_absent) % 97)))
                relation = f'two parses of different nodes, absent={list(names_absent)}'
                shared = self.check_alias(p1, p2, relation, info, {'absent': list(names_absent)}, label='two_parses')
                fresh = self.builder.construct(cls)
                shared += self.check_alias(p1, fresh, 'a parsed and a fresh instance', info, {'absent': list(names_absent)}, label='parsed_vs_fresh')
                self.check_write_through(p1, [p2, fresh], relation, info, rng, 'write_through.parse', shared)
                self.recheck_baseline(f'parsing a {info.name} with {list(names_absent)} absent and rewriting all members of the result', family)
                if (not absent or (len(absent) == len(removable) and len(absent) > 1) or (with_default and len(absent) == 1)
                        or (with_default and not tier_quick and rng.random() < 0.25)):
                    self.run_reparse(info, codec, text, absent, template, rng, family)
        if has_defaults:
            ctx.count('classes.with_defaulted_member_parsed_absent')
        # ---- S4 / S5: the attribute getters after None-assignment; helper and factory methods ---------------------------------
        self.run_cleared(info, codec, texts, rng, family)
        self.run_helpers(info, rng, family)
        # ---- S3: copies ------------------------------------------------------------------------------------------
        for mode, text, template in texts[:3]:
            try:
                p = self.parse(info, codec, text, (), template)
            except Exception:  # noqa: BLE001
                continue
            ops = [('deepcopy', copy.deepcopy)]
            if hasattr(p, 'mk_copy'):
                ops.append(('mk_copy', lambda x: x.mk_copy()))
                ops.append(('mk_copy_with_node', lambda x: x.mk_copy(copy_node=True)))
            if hasattr(p, 'update_from_other_container'):
                def _update(x, cls=cls):
                    other = self.builder.construct(cls)
                    for ident in ('Handle', 'DescriptorHandle'):
                        if hasattr(x, ident):
                            try:
                                setattr(other, ident, getattr(x, ident))
                            except Exception:  # noqa: BLE001, S110
                                pass
                    other.update_from_other_container(x)
                    return other
                ops.append(('update_from_other_container', _update))
            for opname, op in ops:
                if opname != 'update_from_other_container' and 'node' in dir(type(p)) and mode == texts[0][0]:
                    self.check_node_member(p, op, opname, info)
                try:
                    c = op(p)
                except Exception as ex:  # noqa: BLE001
                    ctx.count(f'copy.{opname}.raised.{type(ex).__name__}')
                    continue
                ctx.count(f'copy.{opname}')
                ctx.case(('copy', info.key, opname, mode))
                if opname == 'update_from_other_container':
                    # the known finding of this operation is about SECOND-level values (each member is copied with copy.copy()); the member
                    # objects themselves (lists, data type instances) must be different objects in source and target
                    same = []
                    for name, prop in p.sorted_container_properties():
                        try:
                            a, b = prop.get_actual_value(p), prop.get_actual_value(c)
                        except Exception:  # noqa: BLE001
                            continue
                        if a is not None and a is b and not _immutable(a):
                            same.append(_decl_member(p, name))
                    ctx.count('copy.update_from_other_container.members_compared')
                    if same:
                        ctx.witness('copy_alias.update_from_other_container.member_object_shared',
                                    f'{info.name}: after update_from_other_container() source and target hold the very same member object(s) {same[:6]} '
                                    '(an append / pop on one is visible in the other)', {'class': info.key, 'members': same})
                before = canon(p)
                if canon(c) != before and opname != 'update_from_other_container':
                    ctx.witness(f'copy_differs.{opname}.{info.name}', f'{opname} of a {info.name} is not equal to the original', {'class': info.key})
                reach_c, reach_p = walk(c), walk(p)
                common = [reach_c[o] for o in set(reach_c) & set(reach_p)]
                ctx.count(f'copy.{opname}.objects_compared', len(reach_c))
                n = self.mutate(c, rng)
                ctx.count('mutate.writes', n)
                now = canon(p)
                if common and now == before:
                    # reachable from both but the rewrite did not show it: still not an independent copy
                    members = sorted({_decl_member(owner, member) for _path, _obj, owner, member in common})
                    key = f'copy_alias.{opname}' if opname != 'deepcopy' else f'copy_alias.deepcopy.{info.name}'
                    ctx.witness(key, f'{info.name}: the result of {opname}() and the original reach the same mutable object(s) (members {members[:6]})',
                                {'class': info.key, 'members': members, 'found_by': 'aliasing walk'})
                if now != before:
                    members = sorted({_blame_path(p, path) for path, _l, _r in canon_diff(before, now, limit=8)})
                    key = f'copy_alias.{opname}' if opname != 'deepcopy' else f'copy_alias.deepcopy.{info.name}'
                    ctx.witness(key, f'{info.name}: writing into the result of {opname}() changes the original (members {members[:6]})',
                                {'class': info.key, 'members': members})
                    ctx.extra.setdefault(f'copy_alias_{opname}_members', [])
                    for m in members:
                        if m not in ctx.extra[f'copy_alias_{opname}_members']:
                            ctx.extra[f'copy_alias_{opname}_members'].append(m)
                    p = self.parse(info, codec, text, (), template)   # restore an unmodified original for the next op
                self.recheck_baseline(f'{opname} of a parsed {info.name} and rewriting all members of the copy', family)
        self.recheck_baseline(f'construct / parse-with-absent-members / copy / rewrite activity on class {info.name}')


def _check_node_member(self, p, op, opname, info):
    """the ``node`` member of containers (the element a container was read from) is not a declared property: the generic walker / mutator
    do not see it.  A copy must not rebind or modify the node of the original, whatever is done with the node of the copy."""
    from lxml import etree
    ctx = self.ctx
    saved = p.node
    try:
        orig_node = etree.Element('vf_original')
        orig_node.set('a', '1')
        p.node = orig_node
        c = op(p)
        ctx.count(f'copy.{opname}.node_checked')
        detail = {'class': info.key, 'operation': opname}
        if p.node is not orig_node:
            ctx.witness(f'copy_alias.node.original_rebound.{opname}', f'{opname}() of a container replaces the node of the ORIGINAL', detail)
            p.node = orig_node
        if opname in ('deepcopy', 'mk_copy_with_node'):
            if c.node is None:
                ctx.count(f'copy.{opname}.copy_has_no_node')   # lossy, but nothing is shared: outside the statement
            elif c.node is orig_node:
                ctx.witness(f'copy_alias.node.not_copied.{opname}', f'{opname}() does not give the copy its own node', detail)
            else:
                c.node.set('a', '2')
                etree.SubElement(c.node, 'child')
                if orig_node.get('a') != '1' or len(orig_node):
                    ctx.witness(f'copy_alias.node.in_place.{opname}', f'modifying the node of the {opname}() result modifies the node of the original', detail)
        c.node = etree.Element('vf_other')
        if p.node is not orig_node:
            ctx.witness(f'copy_alias.node.rebinding_leaks.{opname}', f'assigning a new node to the result of {opname}() changes the node of the original',
                        detail)
        c2 = op(p)
        c2.node = None
        if p.node is None:
            ctx.witness(f'copy_alias.node.rebinding_leaks.{opname}', f'assigning a new node to the result of {opname}() changes the node of the original',
                        detail)
    except Exception as ex:  # noqa: BLE001
        ctx.count(f'copy.{opname}.node_check_raised.{type(ex).__name__}')
    finally:
        p.node = saved


Monitor.check_node_member = _check_node_member


def _blame_path(root, path: str) -> str:
    """'<DeclaringClass>.<member>' of the outermost member on the path (the member through which the write leaked)"""
    member = path.split('.')[0].split('[')[0].split('#')[0]
    return f'{xg.declaring_class(type(root), member)}.{member}'


# =============================================================================================
def w_classes(ctx: core.Ctx, arg):
    mon = Monitor(ctx)
    for key in arg['classes']:
        info = mon.by_key[key]
        try:
            mon.run_class(info, ctx.quick)
        except Exception:  # noqa: BLE001
            import traceback
            ctx.not_decided(f'harness exception in class {key}: {traceback.format_exc()[-1200:]}')
    mon.recheck_baseline('all activity of this worker')


def w_sequences(ctx: core.Ctx, arg):
    """random histories: construct / parse-with-absent-members / deepcopy / deep mutation in random order over a pool of instances"""
    mon = Monitor(ctx)
    mon.p_clear = 0.25
    rng = ctx.rng('c12', 'seq', arg['i'])
    infos = [i for i in mon.instantiable]
    with_helpers = [i for i in infos if c12_api.helper_calls(i.cls)]
    for s in range(arg['n']):
        pool = []     # (info, instance)
        ops_done = []
        inputs_cache = {}
        for _step in range(arg['steps']):
            op = rng.choice(('construct', 'parse', 'parse', 'reparse', 'deepcopy', 'mk_copy', 'helper', 'mutate', 'mutate', 'mutate'))
            try:
                if op == 'construct' or not pool and op in ('deepcopy', 'mk_copy', 'mutate'):
                    info = rng.choice(infos)
                    pool.append((info, mon.builder.construct(info.cls)))
                    op = 'construct'
                elif op == 'parse':
                    info = rng.choice(infos)
                    if info.key not in inputs_cache:
                        inputs_cache[info.key] = mon.parse_inputs(info, rng, 1)
                    codec, texts = inputs_cache[info.key]
                    if not texts:
                        continue
                    mode, text, template = rng.choice(texts)
                    doc = etree.fromstring(text)
                    node = doc if info.key == 'mex_types.Metadata' else codec.locate(doc)
                    removable = mon.removable(info, codec, node if info.key != 'mex_types.Metadata' else node[0])
                    absent = [r for r in removable if rng.random() < 0.5]
                    pool.append((info, mon.parse(info, codec, text, absent, template)))
                elif op == 'reparse':
                    # update_from_node into an instance of the pool (or a new populated one), random members absent
                    cands = [(i, x) for i, x in pool if i.key in inputs_cache and inputs_cache[i.key][1]]
                    if not cands:
                        continue
                    info, inst = rng.choice(cands)
                    codec, texts = inputs_cache[info.key]
                    mode, text, template = rng.choice(texts)
                    node = mon.node_of(info, codec, text, ())
                    removable = mon.removable(info, codec, node if info.key != 'mex_types.Metadata' else node[0])
                    absent = [r for r in removable if rng.random() < 0.5]
                    others = [(i, x) for i, x in pool if x is not inst]
                    before = [canon(x) for _i, x in others]
                    inst.update_from_node(mon.node_of(info, codec, text, absent))
                    for (oi, ox), was in zip(others, before):
                        ctx.count('sequence.instances_watched')
                        if canon(ox) != was:
                            for path, _l, _r in canon_diff(was, canon(ox), limit=2):
                                ctx.witness(f'write_through.sequence.{_blame_path(ox, path)}',
                                            f'update_from_node of a {info.name} changed an independently obtained {oi.name} at {path}',
                                            {'history': ops_done[-12:], 'writer': info.key, 'victim': oi.key, 'path': path})
                elif op == 'deepcopy':
                    info, inst = rng.choice(pool)
                    pool.append((info, copy.deepcopy(inst)))
                elif op == 'mk_copy':
                    cands = [(i, x) for i, x in pool if hasattr(x, 'mk_copy')]
                    if not cands:
                        continue
                    info, inst = rng.choice(cands)
                    pool.append((info, inst.mk_copy(copy_node=rng.random() < 0.5)))
                elif op == 'helper':
                    info = rng.choice(with_helpers)
                    if not mon.run_helpers(info, rng, [info], sample=0.6):
                        continue
                else:
                    idx = rng.randrange(len(pool))
                    info, inst = pool[idx]
                    others = [(i, x) for j, (i, x) in enumerate(pool) if j != idx]
                    before = [canon(x) for _i, x in others]
                    n = mon.mutate(inst, rng)
                    ctx.count('mutate.writes', n)
                    for (oi, ox), was in zip(others, before):
                        now = canon(ox)
                        ctx.count('sequence.instances_watched')
                        if now != was:
                            common = set(walk(inst)) & set(walk(ox))
                            dkeys = sorted({mon.defaults[o][0] for o in common if o in mon.defaults})
                            if dkeys:
                                for dkey in dkeys:
                                    mon.shared_defaults_found.add(dkey)
                                    ctx.witness(f'shared_default.{dkey}', f'random history: a {info.name} and an independently obtained {oi.name} both hold '
                                                f'the class-level default object of {dkey}; rewriting the first changed the second',
                                                {'history': ops_done[-12:], 'writer': info.key, 'victim': oi.key})
                                continue
                            for path, left, right in canon_diff(was, now, limit=2):
                                ctx.witness(f'write_through.sequence.{_blame_path(ox, path)}',
                                            f'rewriting a {info.name} changed an independently obtained {oi.name} at {path}',
                                            {'history': ops_done[-12:], 'writer': info.key, 'victim': oi.key, 'path': path})
                    mon.recheck_baseline(f'history {ops_done[-6:]} + mutate {info.name}', pool=pool)
            except Exception:  # noqa: BLE001
                ctx.count('sequence.op_failed')
                continue
            ops_done.append(f'{op}:{info.name}')
            ctx.count(f'sequence.op.{op}')
        ctx.case(('seq', tuple(ops_done[:8]), len(ops_done)))
        mon.recheck_baseline(f'history of {len(ops_done)} operations', pool=pool)


def dispatch(ctx: core.Ctx, job):
    if job[0] == 'multi':     # several small jobs in one worker (the machine-wide worker slots are acquired per worker)
        for sub in job[1]:
            dispatch(ctx, sub)
        return
    globals()[job[0]](ctx, job[1])


def run(ctx: core.Ctx):
    infos = xg.enumerate_classes()
    ctx.rule = ('per class (all XMLTypeBase / ContainerBase subclasses of the nine type modules): two fresh constructions; for the XML the library '
                'writes for a minimal, a maximal and random instance(s): every single absence of a present member (thorough: + all-absent, up to 40 '
                'random subsets each of size 2, 3, 4) parsed twice from different nodes; deepcopy / mk_copy / update_from_other_container of a parsed '
                'instance; after each: aliasing walk, rewrite of every reachable member of one instance while the others are watched, and '
                'canon(cls()) of ALL classes compared with the value at start-up. Per class also: update_from_node into populated instances (members '
                'absent); None assigned to every member of a fresh / parsed / parsed-with-defaults-absent instance, the member read back through the '
                'attribute and rewritten; the helper / factory methods of the class on two fresh instances. The rewrite clears-and-re-reads members '
                'with p=0.1. Random histories over a pool of instances: construct / parse / update_from_node / deepcopy / mk_copy / helper calls / '
                'rewrite (clear-and-re-read p=0.25). '
                'distinct = (activity kind, class, input kind, set of absent members / copy operation); non-trivial = at least one pair of instances compared')
    ctx.extra['classes_enumerated'] = len(infos)
    order = sorted(infos, key=lambda i: -len(c05._safe_props(i.cls)))  # noqa: SLF001
    njobs = 8 if ctx.quick else 32
    jobs = [['w_classes', {'classes': [i.key for i in order[k::njobs]]}] for k in range(njobs)]
    nseq = ctx.pick(4, 16)
    seqs = [['w_sequences', {'i': k, 'n': ctx.pick(6, 40), 'steps': ctx.pick(30, 60)}] for k in range(nseq)]
    jobs += [['multi', seqs[0::2]], ['multi', seqs[1::2]]] if ctx.quick else seqs
    core.fanout(ctx, MODULE, 'dispatch', jobs, timeout=ctx.pick(600.0, 3000.0))
    ctx.floor('classes.exercised', int(len(infos) * 0.9))
    ctx.floor('baseline.rechecks', 20000)
    ctx.floor('alias.pairs_walked', 3000)
    ctx.floor('parse.pairs', 1500)
    ctx.floor('parse.absent_member_has_default', 30)
    ctx.floor('mutate.writes', 20000)
    ctx.floor('copy.deepcopy', 300)
    ctx.floor('copy.mk_copy', 100)
    ctx.floor('sequence.op.mutate', 100)
    ctx.floor('clear.none_assigned', 3000)
    ctx.floor('clear.reads_of_member_with_default_object', 60)
    ctx.floor('mutate.cleared_then_read', 2000)
    ctx.floor('reparse.pairs', 300)
    ctx.floor('helper.calls', 150)
    ctx.assumptions += [
        'the XML inputs are documents the library itself wrote for generated instances, with members removed by the harness; '
        'absence of a member that the schema makes mandatory is included (the readers do not validate)',
        'references that are shared on purpose are not followed: ContainerBase.node (the source element) and AbstractStateContainer.descriptor_container',
        'mutable = everything except str / bytes / numbers / bool / None / enum members / QName / tuples of those / frozen dataclasses / datetime objects',
        'copy.copy() is shallow by definition and not examined; copy.deepcopy(), mk_copy() and update_from_other_container() are',
        'a getter that hands out a NEW object on every read shares nothing: only objects that are class-level (default / implied value / constructor '
        'default argument) or reachable from an independent instance are reported',
        'helper methods get a new argument object for every call (an argument object the caller passes twice is the caller\'s sharing)',
    ]
