"""C01 - the consumer MDIB is an exact mirror of the provider MDIB after any report history.

Real provider + real consumer(s) + real ConsumerMdib over the loop-back transport (synchronous dispatch).  After every provider
transaction (all its notifications have been delivered in emission order) the canonical snapshot of every consumer MDIB must
equal the provider snapshot at that MdibVersion; the observables the consumer fired while processing the reports of that
transaction must name exactly the entities found in the report bytes on the wire (parsed independently with lxml).
"""
from __future__ import annotations

from lxml import etree

from sdc11073 import observableproperties as properties

from .. import core, mdibops
from ..history import snap, snap_equal
from ..mdibharness import MDIB_FILES, World
from ..tablewalk import index_vs_scan

MODULE = 'vf.props.c01'
MSG = 'http://standards.ieee.org/downloads/11073/11073-10207-2017/message'
PM = 'http://standards.ieee.org/downloads/11073/11073-10207-2017/participant'
S12 = 'http://www.w3.org/2003/05/soap-envelope'

STATE_REPORTS = {
    'EpisodicMetricReport': ('metrics_by_handle', 'MetricState'),
    'EpisodicAlertReport': ('alert_by_handle', 'AlertState'),
    'EpisodicComponentReport': ('component_by_handle', 'ComponentState'),
    'EpisodicOperationalStateReport': ('operation_by_handle', 'OperationState'),
    'EpisodicContextReport': ('context_by_handle', 'ContextState'),
    'WaveformStream': ('waveform_by_handle', 'State'),
}
OBSERVABLES = ['metrics_by_handle', 'alert_by_handle', 'component_by_handle', 'operation_by_handle', 'context_by_handle',
               'waveform_by_handle', 'new_descriptors_by_handle', 'updated_descriptors_by_handle', 'deleted_descriptors_by_handle']


def parse_report(body: bytes):
    """independent parse of a notification: (report local name, version group, {kind: set(handles)})"""
    root = etree.fromstring(body)
    b = root.find(f'{{{S12}}}Body')
    if b is None or len(b) == 0:
        return None
    rep = b[0]
    name = etree.QName(rep).localname
    out = {'name': name, 'version': (int(rep.get('MdibVersion', '0')), rep.get('SequenceId'), rep.get('InstanceId')), 'states': set(),
           'ctx': set(), 'created': set(), 'updated': set(), 'deleted': set(), 'state_versions': {}}
    if name in STATE_REPORTS:
        tag = STATE_REPORTS[name][1]
        for st in rep.iter(f'{{{MSG}}}{tag}'):
            if name == 'EpisodicContextReport':
                out['ctx'].add(st.get('Handle'))
            else:
                out['states'].add(st.get('DescriptorHandle'))
            out['state_versions'][st.get('Handle') or st.get('DescriptorHandle')] = int(st.get('StateVersion', '0'))
    elif name == 'DescriptionModificationReport':
        for part in rep.iter(f'{{{MSG}}}ReportPart'):
            mod = part.get('ModificationType', 'Upt')
            key = {'Crt': 'created', 'Upt': 'updated', 'Del': 'deleted'}[mod]
            for d in part.findall(f'{{{MSG}}}Descriptor'):
                out[key].add(d.get('Handle'))
    return out


class Watch:
    """records the observables of one consumer MDIB."""

    def __init__(self, cmdib):
        self.cmdib = cmdib
        self.fired = {name: [] for name in OBSERVABLES}
        for name in OBSERVABLES:
            properties.strongbind(cmdib, **{name: (lambda value, _n=name: self._on(_n, value))})

    def _on(self, name, value):
        if value:
            self.fired[name].append(dict(value))

    def reset(self):
        for v in self.fired.values():
            v.clear()


def compare(ctx, label, provider_snap, cmdib, detail):
    cs = snap(cmdib)
    diffs = snap_equal(provider_snap, cs)
    ctx.count('mirror.comparisons')
    if diffs:
        kinds = sorted({d.split('[')[0].split(':')[0] for d in diffs})
        op = detail.get('op', {})
        opk = op.get('op', '?') + ('.' + op['sub'] if op.get('sub') else '')
        ctx.witness(f'mirror.differs.{"+".join(kinds)}.after.{opk}', f'consumer MDIB != provider MDIB at the same MdibVersion ({label})',
                    {**detail, 'diff': diffs[:4], 'consumer': label})
        return False
    if cs.get('index_problems'):
        ctx.witness('mirror.consumer_index', 'consumer lookups disagree with a scan of the consumer tables', {**detail, 'problems': cs['index_problems'][:3]})
        return False
    return True


class ReportMonitor:
    """per delivered notification: consumer state of the entities named in the report before delivery (network policy hook) vs
    after delivery (network observer) -> the set of entities this report changed; compared with the observables fired meanwhile."""

    def __init__(self, ctx, network):
        self.ctx = ctx
        self.by_netloc = {}  # netloc -> (name, cmdib, watch)
        self.pre = {}
        self.detail = {}
        network.policy = self._before
        network.observers.append(self._after)

    def add(self, netloc, name, cmdib, watch):
        self.by_netloc[netloc] = (name, cmdib, watch)

    @staticmethod
    def _state_of(cm, rep):
        from ..history import canon, canon_descriptor
        st = {}
        for h in rep['states']:
            o = cm.states.descriptor_handle.get_one(h, allow_none=True)
            st[('state', h)] = canon(o) if o is not None else None
        for h in rep['ctx']:
            o = cm.context_states.handle.get_one(h, allow_none=True)
            st[('ctx', h)] = canon(o) if o is not None else None
        for h in rep['created'] | rep['updated'] | rep['deleted']:
            o = cm.descriptions.handle.get_one(h, allow_none=True)
            st[('descr', h)] = canon_descriptor(o) if o is not None else None
        return st

    def _before(self, entry):
        target = self.by_netloc.get(entry.netloc)
        if target is None or entry.method != 'POST' or not entry.raw_body:
            return None
        name, cm, watch = target
        try:
            import gzip
            body = entry.raw_body
            enc = entry.headers.get('Content-Encoding')
            if enc == 'gzip':
                body = gzip.decompress(body)
            elif enc:
                from sdc11073.httpserver.compression import CompressionHandler
                body = CompressionHandler.decompress_payload(enc, body)
            rep = parse_report(body)
        except Exception:  # noqa: BLE001
            rep = None
        if rep is None:
            return None
        watch.reset()
        self.pre[entry.seq] = (rep, self._state_of(cm, rep))
        return None

    def _after(self, entry):
        item = self.pre.pop(entry.seq, None)
        if item is None:
            return
        rep, before = item
        name, cm, watch = self.by_netloc[entry.netloc]
        ctx = self.ctx
        ctx.count(f'report.{rep["name"]}')
        if len(rep['ctx']) >= 2:
            ctx.count('report.context_with_2plus_states')
        if entry.status is not None and entry.status >= 300:
            ctx.witness(f'consumer.rejects_report.{rep["name"]}', 'the consumer answered a valid report of the provider with an error',
                        {**self.detail, 'status': entry.status, 'response': (entry.response or b'')[:400], 'consumer': name})
            return
        after = self._state_of(cm, rep)
        changed = {k for k in before if before[k] != after[k]}
        detail = {**self.detail, 'consumer': name, 'report': rep['name'], 'report_mdib_version': rep['version'][0]}
        if rep['name'] in STATE_REPORTS:
            obs = STATE_REPORTS[rep['name']][0]
            kind = 'ctx' if rep['name'] == 'EpisodicContextReport' else 'state'
            expected = {h for (k, h) in changed if k == kind}
            objs = {}
            for f in watch.fired[obs]:
                for k, v in f.items():
                    objs[id(v)] = (k, v)
            named = {(v.Handle if kind == 'ctx' else v.DescriptorHandle) for _, v in objs.values()}
            ctx.count(f'observable.{obs}.checked')
            if expected:
                ctx.count(f'observable.{obs}.nonempty')
            if named != expected:
                ctx.witness(f'observable.{obs}.wrong_entities', f'{obs} names entities different from the ones the report changed',
                            {**detail, 'named': sorted(named), 'changed_by_report': sorted(expected), 'in_report': sorted(rep['ctx'] | rep['states'])})
                return
            for k, v in objs.values():
                table_obj = (cm.context_states.handle.get_one(v.Handle, allow_none=True) if kind == 'ctx'
                             else cm.states.descriptor_handle.get_one(v.DescriptorHandle, allow_none=True))
                if table_obj is not v:
                    ctx.witness(f'observable.{obs}.not_table_object', f'{obs} delivers an object that is not the one stored in the consumer MDIB',
                                {**detail, 'key': k})
                    break
        elif rep['name'] == 'DescriptionModificationReport':
            created = {h for (k, h) in changed if k == 'descr' and before[(k, h)] is None}
            deleted = {h for (k, h) in changed if k == 'descr' and after[(k, h)] is None}
            updated = {h for (k, h) in changed if k == 'descr'} - created - deleted
            for obs, expected in (('new_descriptors_by_handle', created), ('updated_descriptors_by_handle', updated),
                                  ('deleted_descriptors_by_handle', deleted)):
                named = set()
                for f in watch.fired[obs]:
                    named |= set(f)
                if not named and not expected:
                    continue
                ctx.count(f'observable.{obs}.checked')
                if named != expected:
                    ctx.witness(f'observable.{obs}.wrong_entities', f'{obs} names descriptors different from the ones the report changed',
                                {**detail, 'named': sorted(named), 'changed_by_report': sorted(expected)})


def w_histories(ctx: core.Ctx, arg):
    rng = ctx.rng('hist', arg['i'])
    for hno in range(arg['n']):
        mdib_file = MDIB_FILES[(arg['i'] + hno) % len(MDIB_FILES)]
        variant = (arg['i'] + hno // 4) % 4
        async_mgr = variant in (1, 3)
        ctx_in_getmdib = variant != 2
        instance_id = [1, 0, None, 42][(arg['i'] // 4 + hno) % 4]  # 0 and None are valid values too
        world = World(mdib_file, async_mgr=async_mgr, role_provider=False, contextstates_in_getmdib=ctx_in_getmdib, instance_id=instance_id)
        mdib = world.mdib
        consumers = []
        monitor = ReportMonitor(ctx, world.network)
        c, cm = world.add_consumer()
        consumers.append(('first', cm, Watch(cm), f'127.0.0.1:{c.vf_server.server_port}'))
        monitor.add(consumers[-1][3], 'first', cm, consumers[-1][2])
        late_at = rng.randrange(3, max(4, arg['len'] - 2))
        memo = {}
        weights = dict(mdibops.DEFAULT_WEIGHTS)
        weights.update({'abort': 1, 'reject': 1})
        label = {'mdib_file': mdib_file, 'async_mgr': async_mgr, 'contextstates_in_getmdib': ctx_in_getmdib, 'instance_id': instance_id,
                 'history': [arg['i'], hno]}
        shapes = []
        ok = True
        for step in range(arg['len']):
            if step == late_at:
                c2, cm2 = world.add_consumer()
                consumers.append(('late', cm2, Watch(cm2), f'127.0.0.1:{c2.vf_server.server_port}'))
                monitor.add(consumers[-1][3], 'late', cm2, consumers[-1][2])
                ctx.count('consumer.attached_late')
                ok = compare(ctx, 'late-initial', snap(mdib), cm2, {**label, 'step': step, 'op': {'op': 'initial_load'}}) and ok
            op = mdibops.gen_op(rng, mdib, memo, weights)
            monitor.detail = {**label, 'step': step, 'op': op}
            ap = mdibops.apply_op(mdib, op, memo)
            ctx.count(f'op.{op["op"]}')
            shapes.append(mdibops.op_shape(ap))
            ctx.case(('tr', mdib_file, variant) + mdibops.op_shape(ap), nontrivial=ap.outcome == 'ok')
            psnap = snap(mdib)
            detail = {**label, 'step': step, 'op': op, 'outcome': ap.outcome}
            for cname, cm, watch, netloc in consumers:
                if not compare(ctx, cname, psnap, cm, detail):
                    ok = False
            if not ok:
                break
        if ok and hno == 0:
            # last act of the history: the provider application removes a context state through the entity interface (the library offers
            # that; BICEPS has no report for it), then reports another context change.  The consumer has then processed every report.
            victims = [(d, sorted(st.Handle for st in mdib.context_states.descriptor_handle.get(d, []))) for d in mdibops.catalog(mdib)['context']]
            victims = [(d, hs) for d, hs in victims if hs]
            if victims:
                d, hs = victims[0]
                op = {'op': 'ctx_delete', 'sub': 'delete', 'descr': d, 'victims': hs[:1], 'other': None, 'new_handle': 'unused', 'iface': 'entity', 'seed': 1}
                monitor.detail = {**label, 'step': 'ctx_delete', 'op': op}
                ap = mdibops.apply_op(mdib, op, memo)
                follow = {'op': 'context', 'sub': 'new', 'descr': d, 'new_handle': f'after_delete_{arg["i"]}', 'iface': 'classic', 'seed': 2}
                mdibops.apply_op(mdib, follow, memo)
                ctx.count('op.ctx_delete')
                ctx.case(('tr', mdib_file, variant) + mdibops.op_shape(ap), nontrivial=ap.outcome == 'ok')
                for cname, cm, watch, netloc in consumers[:1]:
                    compare(ctx, cname, snap(mdib), cm, {**label, 'step': 'ctx_delete', 'op': op, 'outcome': ap.outcome, 'followed_by': follow})
        ctx.count(f'world.instance_id.{instance_id}')
        ctx.case(tuple(shapes) + (variant,), nontrivial=any(s[5] == 'ok' for s in shapes))
        if hno == 0 and arg['i'] == 0:
            ctx.sample({**label, 'ops': [s[0] for s in shapes][:12], 'final_mdib_version': mdib.mdib_version, 'consumers': len(consumers)})
        world.stop()


def w_realsocket(ctx: core.Ctx, arg):
    """the same histories with NOTHING replaced below the MDIB: real HTTP servers and clients on 127.0.0.1, the default (async) or the sync
    provider components, compression, optional chunking, the consumer's default deferred dispatcher (own worker thread).  Quiescence by a
    barrier on the dispatcher queue (RealWorld.barrier), never by sleeping; a barrier that does not return is inconclusive."""
    from ..realworld import RealWorld
    rng = ctx.rng('real', arg['i'])
    for hno in range(arg['n']):
        k = arg['i'] * arg['n'] + hno
        mdib_file = MDIB_FILES[k % len(MDIB_FILES)]
        async_mgr = (k // 4) % 2 == 0
        chunk = [0, 0, 512, 37][(k // 2) % 4]
        ctx_in_getmdib = k % 5 != 3
        label = {'mdib_file': mdib_file, 'async_mgr': async_mgr, 'chunk_size': chunk, 'contextstates_in_getmdib': ctx_in_getmdib,
                 'transport': 'real sockets', 'history': [arg['i'], hno]}
        try:
            world = RealWorld(mdib_file, async_mgr=async_mgr, chunk_size=chunk, contextstates_in_getmdib=ctx_in_getmdib)
        except Exception as ex:  # noqa: BLE001
            ctx.not_decided(f'real-socket world could not be set up: {ex!r}')
            return
        try:
            mdib = world.mdib
            consumers = []
            c, cm = world.add_consumer()
            consumers.append(('first', c, cm))
            late_at = rng.randrange(2, max(3, arg['len'] - 2))
            memo = {}
            weights = dict(mdibops.DEFAULT_WEIGHTS)
            weights.update({'abort': 1, 'reject': 1})
            ok = True
            for step in range(arg['len']):
                if step == late_at:
                    c2, cm2 = world.add_consumer()
                    consumers.append(('late', c2, cm2))
                    ctx.count('real.consumer_attached_late')
                    ok = compare(ctx, 'late-initial', snap(mdib), cm2, {**label, 'step': step, 'op': {'op': 'initial_load'}}) and ok
                op = mdibops.gen_op(rng, mdib, memo, weights)
                ap = mdibops.apply_op(mdib, op, memo)
                ctx.count('real.transactions')
                ctx.count(f'real.op.{op["op"]}')
                ctx.case(('real', mdib_file, async_mgr, chunk) + mdibops.op_shape(ap), nontrivial=ap.outcome == 'ok')
                psnap = snap(mdib)
                detail = {**label, 'step': step, 'op': op, 'outcome': ap.outcome}
                for cname, cons, cmdib in consumers:
                    if not world.barrier(cons):
                        ctx.not_decided('real sockets: the consumer dispatcher did not reach the barrier within the watchdog')
                        return
                    ctx.count('real.barriers')
                    if not compare(ctx, 'real.' + cname, psnap, cmdib, detail):
                        ok = False
                if not ok:
                    break
            ctx.count('real.histories.async' if async_mgr else 'real.histories.sync')
            if chunk:
                ctx.count('real.histories.chunked')
        finally:
            world.stop()


def run(ctx: core.Ctx):
    ctx.rule = ('seeded provider histories (vf.mdibops) over the 4 sample MDIBs x {sync, async subscription manager} x contextstates_in_getmdib '
                'on/off, one consumer attached before the first transaction and one after a random prefix; distinct = sequence of '
                '(op kind, sub kind, interface, abort point, #handles, outcome) + variant; non-trivial = at least one transaction committed')
    n_hist, length = (48, 40) if ctx.quick else (480, 120)
    jobs = [['w_histories', {'i': k, 'n': n_hist // 16, 'len': length}] for k in range(16)]
    n_real, len_real = (1, 25) if ctx.quick else (6, 80)
    jobs += [['w_realsocket', {'i': k, 'n': n_real, 'len': len_real}] for k in range(8)]
    core.fanout(ctx, MODULE, 'dispatch', jobs, timeout=3000)
    ctx.floor('real.barriers', 100)
    ctx.floor('real.histories.async', 2)
    ctx.floor('real.histories.sync', 2)
    ctx.floor('mirror.comparisons', 1000)
    for kind in ('metric', 'alert', 'component', 'operational', 'context', 'rt', 'descr_update', 'descr_create', 'descr_delete', 'location'):
        ctx.floor(f'op.{kind}', 10)
    ctx.floor('report.DescriptionModificationReport', 20)
    ctx.floor('report.context_with_2plus_states', 5)
    ctx.floor('consumer.attached_late', 10)


def dispatch(ctx: core.Ctx, job):
    globals()[job[0]](ctx, job[1])
