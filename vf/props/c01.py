"""C01 - the consumer MDIB is an exact mirror of the provider MDIB after any report history.

Real provider + real consumer(s) + real ConsumerMdib over the loop-back transport (synchronous dispatch).  After every provider
transaction (all its notifications have been delivered in emission order) the canonical snapshot of every consumer MDIB must
equal the provider snapshot at that MdibVersion; the observables the consumer fired while processing the reports of that
transaction must name exactly the entities found in the report bytes on the wire (parsed independently with lxml).

Round 4: (a) the initial load is also decided while the provider keeps committing: transactions are injected at the four points around the
GetMdib / GetContextStates requests of init_mdib and reload_all (vf.c01_initload) - after the load the consumer must equal the provider at its
current version and stay equal; (b) the generator is widened by vf.c01_ops: context states removed through a descriptor transaction (the report
part lists the states that are left, possibly none), context descriptors created together with states, a channel created with its metrics,
descriptor updates of every descriptor kind of the MDIB; (c) per report: the description_modifications observable, and no observable of another
kind names anything.
"""
from __future__ import annotations

import gc
import os

from lxml import etree

from sdc11073 import observableproperties as properties
from sdc11073.mdib.consumermdib import ConsumerMdib

from .. import c01_aioshim, c01_ops, core, mdibops
from ..c01_initload import POINTS, LoadInjector, decoded_body
from ..history import snap, snap_equal
from ..mdibharness import MDIB_FILES, World
from ..tablewalk import index_vs_scan

c01_aioshim.ensure()   # temporary: the shared loop-back does not know the async client interface of /repo HEAD yet (see the module)

MODULE = 'vf.props.c01'
MSG = 'http://standards.ieee.org/downloads/11073/11073-10207-2017/message'
PM = 'http://standards.ieee.org/downloads/11073/11073-10207-2017/participant'
S12 = 'http://www.w3.org/2003/05/soap-envelope'

STATE_REPORTS = {
    'EpisodicMetricReport': ('metrics_by_handle', 'MetricState'),
    'EpisodicAlertReport': ('alert_by_handle', 'AlertState'),
    'EpisodicComponentReport': ('component_by_handle', 'ComponentState'),
    'EpisodicOperationalStateReport': ('operation_by_handle', 'OperationState'),
    'EpisodicContextReport': ('context_by_handle', 'ContextState'),
    'WaveformStream': ('waveform_by_handle', 'State'),
}
OBSERVABLES = ['metrics_by_handle', 'alert_by_handle', 'component_by_handle', 'operation_by_handle', 'context_by_handle',
               'waveform_by_handle', 'new_descriptors_by_handle', 'updated_descriptors_by_handle', 'deleted_descriptors_by_handle']


def parse_report(body: bytes):
    """independent parse of a notification: (report local name, version group, {kind: set(handles)})"""
    root = etree.fromstring(body)
    b = root.find(f'{{{S12}}}Body')
    if b is None or len(b) == 0:
        return None
    rep = b[0]
    name = etree.QName(rep).localname
    out = {'name': name, 'version': (int(rep.get('MdibVersion', '0')), rep.get('SequenceId'), rep.get('InstanceId')), 'states': set(),
           'ctx': set(), 'created': set(), 'updated': set(), 'deleted': set(), 'state_versions': {}, 'parts': []}
    if name in STATE_REPORTS:
        tag = STATE_REPORTS[name][1]
        for st in rep.iter(f'{{{MSG}}}{tag}'):
            if name == 'EpisodicContextReport':
                out['ctx'].add(st.get('Handle'))
            else:
                out['states'].add(st.get('DescriptorHandle'))
            out['state_versions'][st.get('Handle') or st.get('DescriptorHandle')] = int(st.get('StateVersion', '0'))
    elif name == 'DescriptionModificationReport':
        for part in rep.iter(f'{{{MSG}}}ReportPart'):
            mod = part.get('ModificationType', 'Upt')
            key = {'Crt': 'created', 'Upt': 'updated', 'Del': 'deleted'}[mod]
            for d in part.findall(f'{{{MSG}}}Descriptor'):
                out[key].add(d.get('Handle'))
            out['parts'].append((key, sorted(d.get('Handle') for d in part.findall(f'{{{MSG}}}Descriptor')),
                                 sorted(st.get('Handle') or st.get('DescriptorHandle') for st in part.findall(f'{{{MSG}}}State'))))
    return out


class Watch:
    """records the observables of one consumer MDIB."""

    def __init__(self, cmdib):
        self.cmdib = cmdib
        self.fired = {name: [] for name in OBSERVABLES}
        self.reports = []  # values of the description_modifications observable (the complete report object)
        for name in OBSERVABLES:
            properties.strongbind(cmdib, **{name: (lambda value, _n=name: self._on(_n, value))})
        properties.strongbind(cmdib, description_modifications=self._on_report)

    def _on(self, name, value):
        if value:
            self.fired[name].append(dict(value))

    def _on_report(self, value):
        if value is not None:
            self.reports.append(value)

    def reset(self):
        for v in self.fired.values():
            v.clear()
        del self.reports[:]


def compare(ctx, label, provider_snap, cmdib, detail):
    cs = snap(cmdib)
    diffs = snap_equal(provider_snap, cs)
    ctx.count('mirror.comparisons')
    if diffs:
        kinds = sorted({d.split('[')[0].split(':')[0] for d in diffs})
        op = detail.get('op', {})
        opk = op.get('op', '?') + ('.' + op['sub'] if op.get('sub') else '')
        ctx.witness(f'mirror.differs.{"+".join(kinds)}.after.{opk}', f'consumer MDIB != provider MDIB at the same MdibVersion ({label})',
                    {**detail, 'diff': diffs[:4], 'consumer': label})
        return False
    if cs.get('index_problems'):
        ctx.witness('mirror.consumer_index', 'consumer lookups disagree with a scan of the consumer tables', {**detail, 'problems': cs['index_problems'][:3]})
        return False
    return True


class ReportMonitor:
    """per delivered notification: consumer state of the entities named in the report before delivery (network policy hook) vs
    after delivery (network observer) -> the set of entities this report changed; compared with the observables fired meanwhile."""

    def __init__(self, ctx, network, injector=None):
        self.ctx = ctx
        self.by_netloc = {}  # netloc -> (name, cmdib, watch)
        self.pre = {}
        self.detail = {}
        self.injector = injector  # LoadInjector: transactions executed around the GetMdib / GetContextStates requests of a loading consumer
        self.suspended = set()  # netlocs of consumers that are re-loading: they buffer the reports, nothing is raised until the replay
        network.policy = self._before
        network.observers.append(self._after)

    def add(self, netloc, name, cmdib, watch):
        self.by_netloc[netloc] = (name, cmdib, watch)

    @staticmethod
    def _state_of(cm, rep):
        from ..history import canon, canon_descriptor
        st = {}
        for h in rep['states']:
            o = cm.states.descriptor_handle.get_one(h, allow_none=True)
            st[('state', h)] = canon(o) if o is not None else None
        for h in rep['ctx']:
            o = cm.context_states.handle.get_one(h, allow_none=True)
            st[('ctx', h)] = canon(o) if o is not None else None
        for h in rep['created'] | rep['updated'] | rep['deleted']:
            o = cm.descriptions.handle.get_one(h, allow_none=True)
            st[('descr', h)] = canon_descriptor(o) if o is not None else None
        return st

    def _before(self, entry):
        if self.injector is not None:
            self.injector.before(entry)
        target = self.by_netloc.get(entry.netloc)
        if target is None or entry.method != 'POST' or not entry.raw_body or entry.netloc in self.suspended:
            return None
        name, cm, watch = target
        try:
            rep = parse_report(decoded_body(entry))
        except Exception:  # noqa: BLE001
            rep = None
        if rep is None:
            return None
        watch.reset()
        self.pre[entry.seq] = (rep, self._state_of(cm, rep))
        return None

    def _after(self, entry):
        item = self.pre.pop(entry.seq, None)
        if item is None:
            if self.injector is not None:
                self.injector.after(entry)
            return
        rep, before = item
        name, cm, watch = self.by_netloc[entry.netloc]
        ctx = self.ctx
        ctx.count(f'report.{rep["name"]}')
        if len(rep['ctx']) >= 2:
            ctx.count('report.context_with_2plus_states')
        if entry.status is not None and entry.status >= 300:
            ctx.witness(f'consumer.rejects_report.{rep["name"]}', 'the consumer answered a valid report of the provider with an error',
                        {**self.detail, 'status': entry.status, 'response': (entry.response or b'')[:400], 'consumer': name})
            return
        after = self._state_of(cm, rep)
        changed = {k for k in before if before[k] != after[k]}
        detail = {**self.detail, 'consumer': name, 'report': rep['name'], 'report_mdib_version': rep['version'][0]}
        # an observable of another kind must not name anything while this report is processed
        own = ({STATE_REPORTS[rep['name']][0]} if rep['name'] in STATE_REPORTS
               else {'new_descriptors_by_handle', 'updated_descriptors_by_handle', 'deleted_descriptors_by_handle'}
               if rep['name'] == 'DescriptionModificationReport' else None)
        if own is not None:
            ctx.count('observable.other_kinds.checked')
            strangers = {o: sorted(set().union(*[set(f) for f in watch.fired[o]])) for o in OBSERVABLES if o not in own and watch.fired[o]}
            if strangers or (rep['name'] in STATE_REPORTS and watch.reports):
                ctx.witness(f'observable.other_kind_fired.{rep["name"]}', 'while one report was processed an observable of another kind named entities',
                            {**detail, 'fired': strangers, 'description_modifications_fired': len(watch.reports)})
                return
        if rep['name'] in STATE_REPORTS:
            obs = STATE_REPORTS[rep['name']][0]
            kind = 'ctx' if rep['name'] == 'EpisodicContextReport' else 'state'
            expected = {h for (k, h) in changed if k == kind}
            objs = {}
            for f in watch.fired[obs]:
                for k, v in f.items():
                    objs[id(v)] = (k, v)
            named = {(v.Handle if kind == 'ctx' else v.DescriptorHandle) for _, v in objs.values()}
            ctx.count(f'observable.{obs}.checked')
            if expected:
                ctx.count(f'observable.{obs}.nonempty')
            if named != expected:
                ctx.witness(f'observable.{obs}.wrong_entities', f'{obs} names entities different from the ones the report changed',
                            {**detail, 'named': sorted(named), 'changed_by_report': sorted(expected), 'in_report': sorted(rep['ctx'] | rep['states'])})
                return
            for k, v in objs.values():
                table_obj = (cm.context_states.handle.get_one(v.Handle, allow_none=True) if kind == 'ctx'
                             else cm.states.descriptor_handle.get_one(v.DescriptorHandle, allow_none=True))
                if table_obj is not v:
                    ctx.witness(f'observable.{obs}.not_table_object', f'{obs} delivers an object that is not the one stored in the consumer MDIB',
                                {**detail, 'key': k})
                    break
        elif rep['name'] == 'DescriptionModificationReport':
            created = {h for (k, h) in changed if k == 'descr' and before[(k, h)] is None}
            deleted = {h for (k, h) in changed if k == 'descr' and after[(k, h)] is None}
            updated = {h for (k, h) in changed if k == 'descr'} - created - deleted
            for obs, expected in (('new_descriptors_by_handle', created), ('updated_descriptors_by_handle', updated),
                                  ('deleted_descriptors_by_handle', deleted)):
                named = set()
                for f in watch.fired[obs]:
                    named |= set(f)
                if not named and not expected:
                    continue
                ctx.count(f'observable.{obs}.checked')
                if named != expected:
                    ctx.witness(f'observable.{obs}.wrong_entities', f'{obs} names descriptors different from the ones the report changed',
                                {**detail, 'named': sorted(named), 'changed_by_report': sorted(expected)})
            # description_modifications: raised once, with a report that lists the parts found on the wire
            ctx.count('observable.description_modifications.checked')
            got = []
            dmt = {'Crt': 'created', 'Upt': 'updated', 'Del': 'deleted'}
            for r in watch.reports:
                for part in r.ReportPart:
                    mod = part.ModificationType
                    got.append((dmt.get(getattr(mod, 'value', mod), str(mod)) if mod is not None else 'updated',
                                sorted(d.Handle for d in part.Descriptor),
                                sorted((st.Handle if st.is_context_state else st.DescriptorHandle) for st in part.State)))
            if len(watch.reports) != 1 or got != rep['parts']:
                ctx.witness('observable.description_modifications.wrong_report',
                            'description_modifications was not raised exactly once with the parts of the report on the wire',
                            {**detail, 'raised': len(watch.reports), 'observable_parts': got[:6], 'wire_parts': rep['parts'][:6]})


def draw_op(rng, xr, mdib, memo, weights, p_extra=0.12):
    """one operation: the shared generator, now and then one of the C01-only kinds (own random stream)"""
    if xr.random() < p_extra:
        op = c01_ops.gen(xr, mdib, memo)
        if op is not None:
            return op
    return mdibops.gen_op(rng, mdib, memo, weights)


def count_op(ctx, op, ap):
    ctx.count(f'op.{op["op"]}')
    if op['op'] in c01_ops.WEIGHTS and ap.outcome == 'ok':
        ctx.count(f'op.{op["op"]}.ok')
        if op['op'] == 'descr_ctx_purge':
            ctx.count('op.descr_ctx_purge.none_left' if op['sub'] == 'all' else 'op.descr_ctx_purge.some_left')


def random_plan(xr, points):
    """number of transactions per injection point: mostly one point, sometimes several, sometimes a burst"""
    plan = dict.fromkeys(points, 0)
    shape = xr.choice(['one', 'one', 'two', 'all', 'burst'])
    if shape == 'one':
        plan[xr.choice(points)] = 1
    elif shape == 'two':
        for p in xr.sample(points, min(2, len(points))):
            plan[p] = xr.choice([1, 2])
    elif shape == 'all':
        for p in points:
            plan[p] = 1
    else:
        plan[xr.choice(points)] = xr.choice([3, 5])
    return plan


def load_with_injection(ctx, world, injector, monitor, plan, next_op, label, how='initial_load', target=None, bystanders=(), loader=None):
    """attach a new consumer (how='initial_load'; with ``loader`` - a connected SdcConsumer without MDIB - only a new ConsumerMdib is
    created and initialised) or re-load an attached one (how='reload_all', target=(cmdib, netloc)) while the provider commits the
    transactions of ``plan``.  ``bystanders`` = (name, cmdib) of the consumers that are not loading: they are compared after
    every injected transaction, like after any other.  Returns (consumer, cmdib, injected ops, bystanders ok) or None if the load raised."""
    injected = []
    ok = [True]
    total = sum(plan.values())

    def judge_bystanders(point, op, outcome):   # after every injected transaction; a single one is judged when the load is over (same state)
        psnap = snap(world.mdib)
        for cname, cmdib in bystanders:
            if ok[0] and not compare(ctx, cname, psnap, cmdib, {**label, 'step': f'{how}:{point}', 'op': op, 'outcome': outcome}):
                ok[0] = False

    def run(point, k):
        op = next_op(point, k)
        monitor.detail = {**label, 'step': f'{how}:{point}', 'op': op}
        ap = c01_ops.apply_op(world.mdib, op, world.vf_memo)
        count_op(ctx, op, ap)
        injected.append((point, op, ap.outcome))
        if ap.outcome == 'ok' and ap.expect == 'commit':
            ctx.count(f'initload.tx.{point}')
            ctx.count('initload.tx')
        if total > 1:
            judge_bystanders(point, op, ap.outcome)

    injector.arm(plan, run)
    try:
        if how == 'initial_load' and loader is not None:
            loader.set_mdib(None)   # detach the previous ConsumerMdib (public API), the consumer accepts one MDIB at a time
            consumer, cmdib = loader, ConsumerMdib(loader)
            cmdib.init_mdib()
        elif how == 'initial_load':
            consumer, cmdib = world.add_consumer()
        else:
            consumer, (cmdib, netloc) = None, target
            monitor.suspended.add(netloc)
            try:
                cmdib.reload_all()
            finally:
                monitor.suspended.discard(netloc)
    except Exception as ex:  # noqa: BLE001
        import traceback
        tb = [f'{f.filename.rsplit("/", 1)[-1]}:{f.lineno}:{f.name}' for f in traceback.extract_tb(ex.__traceback__)][-5:]
        ctx.witness(f'{how}.raises.{type(ex).__name__}', 'loading the MDIB from a provider that commits transactions meanwhile raised',
                    {**label, 'plan': plan, 'injected': [(p, o['op'], o.get('sub'), out) for p, o, out in injected], 'exception': repr(ex)[:300], 'tb': tb})
        return None
    finally:
        injector.disarm()
    ctx.count(f'initload.{how}')
    if 'GetContextStates' in injector.seen:
        ctx.count(f'initload.{how}.with_GetContextStates')
    if injected:
        ctx.count(f'initload.{how}.with_tx')
    if total == 1 and injected:
        judge_bystanders(*injected[0])
    return consumer, cmdib, injected, ok[0]


def load_key(plan, injected):
    """stable name of the schedule class of one load: the injection point when there is exactly one, 'tx_inflight' for several, '' for none"""
    points = sorted({p for p, _, out in injected})
    if not points:
        return None
    return f'tx_{points[0]}' if len(points) == 1 else 'tx_inflight'


def w_histories(ctx: core.Ctx, arg):
    rng = ctx.rng('hist', arg['i'])
    xr = ctx.rng('hist-x', arg['i'])
    for hno in range(arg['n']):
        mdib_file = MDIB_FILES[(arg['i'] + hno) % len(MDIB_FILES)]
        variant = (arg['i'] + hno // 4) % 4
        async_mgr = variant in (1, 3)
        ctx_in_getmdib = variant != 2
        instance_id = [1, 0, None, 42][(arg['i'] // 4 + hno) % 4]  # 0 and None are valid values too
        world = World(mdib_file, async_mgr=async_mgr, role_provider=False, contextstates_in_getmdib=ctx_in_getmdib, instance_id=instance_id)
        mdib = world.mdib
        consumers = []
        injector = LoadInjector(f'{world.provider_server.host}:{world.provider_server.port}', mdib)
        monitor = ReportMonitor(ctx, world.network, injector)
        c, cm = world.add_consumer()
        consumers.append(('first', cm, Watch(cm), f'127.0.0.1:{c.vf_server.server_port}'))
        monitor.add(consumers[-1][3], 'first', cm, consumers[-1][2])
        late_at = rng.randrange(3, max(4, arg['len'] - 2))
        reload_at = xr.randrange(late_at + 1, arg['len'] + 1)   # the late consumer loads everything once more (== len: never)
        memo = world.vf_memo = {}
        weights = dict(mdibops.DEFAULT_WEIGHTS)
        weights.update({'abort': 1, 'reject': 1})
        label = {'mdib_file': mdib_file, 'async_mgr': async_mgr, 'contextstates_in_getmdib': ctx_in_getmdib, 'instance_id': instance_id,
                 'history': [arg['i'], hno]}
        points = list(POINTS) if not ctx_in_getmdib else list(POINTS[:2])
        # directed steps (executed in addition to the drawn ones): the context entity of the prelude loses one state, then all of them, in
        # descriptor transactions; a context descriptor is created with two states; a channel is created together with its metrics; an entity
        # that went stale is written in a state transaction (state kind rotates over the histories)
        ctx0 = (mdibops.catalog(mdib)['context'] or [None])[0]
        directed = {11: [lambda: c01_ops.gen_purge(xr, mdib, memo, 'one', ctx0), lambda: c01_ops.gen_purge(xr, mdib, memo, 'all', ctx0)],
                    14: [lambda: c01_ops.gen_create_ctx(xr, mdib, memo, 2), lambda: c01_ops.gen_create_tree(xr, mdib, memo)]}

        def stale_entity(kind=mdibops.STATE_OPS[(arg['i'] + hno) % len(mdibops.STATE_OPS)]):
            # the application keeps an entity, the state is updated by another transaction, then the kept (stale) entity is written
            cat = mdibops.catalog(mdib)
            pool = cat[kind] or cat['metric']
            if not pool:
                return []
            h = xr.choice(pool)
            kind = kind if cat[kind] else 'metric'
            return [{'op': 'entity_stash', 'handle': h, 'iface': 'entity', 'seed': 1},
                    {'op': kind, 'handles': [h], 'iface': 'classic', 'seed': xr.randrange(1 << 30)},
                    {'op': 'entity_write_stashed', 'handle': h, 'iface': 'entity', 'seed': xr.randrange(1 << 30)}]

        directed[17] = [stale_entity]
        shapes = []
        state = {'ok': True}

        def one_step(step, op):
            monitor.detail = {**label, 'step': step, 'op': op}
            ap = c01_ops.apply_op(mdib, op, memo)
            count_op(ctx, op, ap)
            shapes.append(mdibops.op_shape(ap))
            ctx.case(('tr', mdib_file, variant) + mdibops.op_shape(ap), nontrivial=ap.outcome == 'ok')
            psnap = snap(mdib)
            detail = {**label, 'step': step, 'op': op, 'outcome': ap.outcome}
            for cname, cmdib, watch, netloc in consumers:
                if not compare(ctx, cname, psnap, cmdib, detail):
                    state['ok'] = False
            return state['ok']

        def next_op(point, k):
            return draw_op(rng, xr, mdib, memo, weights, p_extra=0.25)

        for step in range(arg['len']):
            if step == late_at or (step == reload_at and len(consumers) > 1):
                how = 'initial_load' if step == late_at else 'reload_all'
                plan = random_plan(xr, points) if xr.random() < 0.75 else dict.fromkeys(points, 0)
                res = load_with_injection(ctx, world, injector, monitor, plan, next_op, label, how,
                                          target=None if how == 'initial_load' else (consumers[1][1], consumers[1][3]),
                                          bystanders=[(cname, cmdib) for cname, cmdib, _, _ in (consumers if how == 'initial_load' else consumers[:1])])
                if res is None or not res[3]:
                    state['ok'] = False
                    break
                c2, cm2, injected = res[:3]
                if how == 'initial_load':
                    consumers.append(('late', cm2, Watch(cm2), f'127.0.0.1:{c2.vf_server.server_port}'))
                    monitor.add(consumers[-1][3], 'late', cm2, consumers[-1][2])
                    ctx.count('consumer.attached_late')
                sub = load_key(plan, injected)
                ctx.case(('load', how, variant, tuple(sorted((p, o['op'], o.get('sub')) for p, o, _ in injected))))
                if not compare(ctx, 'late-initial' if how == 'initial_load' else 'late', snap(mdib), consumers[1][1],
                               {**label, 'step': step, 'op': {'op': how, 'sub': sub} if sub else {'op': how}, 'plan': plan,
                                'injected': [(p, o['op'], o.get('sub'), out) for p, o, out in injected]}):
                    state['ok'] = False
                if not state['ok']:
                    break
            for mk in directed.get(step, []):
                ops = mk()
                for op in (ops if isinstance(ops, list) else [ops]):
                    if op is not None and state['ok']:
                        one_step(f'{step}+', op)
            if not state['ok']:
                break
            if not one_step(step, draw_op(rng, xr, mdib, memo, weights)):
                break
        ok = state['ok']
        if ok and hno == 0:
            # last act of the history: the provider application removes a context state through the entity interface (the library offers
            # that; BICEPS has no report for it), then reports another context change.  The consumer has then processed every report.
            victims = [(d, sorted(st.Handle for st in mdib.context_states.descriptor_handle.get(d, []))) for d in mdibops.catalog(mdib)['context']]
            victims = [(d, hs) for d, hs in victims if hs]
            if victims:
                d, hs = victims[0]
                op = {'op': 'ctx_delete', 'sub': 'delete', 'descr': d, 'victims': hs[:1], 'other': None, 'new_handle': 'unused', 'iface': 'entity', 'seed': 1}
                monitor.detail = {**label, 'step': 'ctx_delete', 'op': op}
                ap = mdibops.apply_op(mdib, op, memo)
                follow = {'op': 'context', 'sub': 'new', 'descr': d, 'new_handle': f'after_delete_{arg["i"]}', 'iface': 'classic', 'seed': 2}
                mdibops.apply_op(mdib, follow, memo)
                ctx.count('op.ctx_delete')
                ctx.case(('tr', mdib_file, variant) + mdibops.op_shape(ap), nontrivial=ap.outcome == 'ok')
                for cname, cm, watch, netloc in consumers[:1]:
                    compare(ctx, cname, snap(mdib), cm, {**label, 'step': 'ctx_delete', 'op': op, 'outcome': ap.outcome, 'followed_by': follow})
        ctx.count(f'world.instance_id.{instance_id}')
        ctx.case(tuple(shapes) + (variant,), nontrivial=any(s[5] == 'ok' for s in shapes))
        if hno == 0 and arg['i'] == 0:
            ctx.sample({**label, 'ops': [s[0] for s in shapes][:12], 'final_mdib_version': mdib.mdib_version, 'consumers': len(consumers)})
        world.stop()


LOAD_KINDS = ['metric', 'alert', 'component', 'operational', 'rt', 'context', 'location', 'descr_update', 'descr_create', 'descr_delete',
              'descr_ctx_entity', 'descr_ctx_purge', 'descr_create_ctx', 'descr_with_state']


def op_of_kind(kind, rng, mdib, memo):
    if kind in c01_ops.GENERATORS:
        return c01_ops.GENERATORS[kind](rng, mdib, memo)
    op = mdibops.gen_op(rng, mdib, memo, {kind: 1})
    return op if op['op'] == kind else None


def w_initload(ctx: core.Ctx, arg):
    """directed matrix of the initial load: (injection point) x (transaction kind), exactly one transaction committed at that point while a new
    consumer loads; then random plans (several points, bursts) for new consumers and for reload_all of an attached one.  After every load
    the loading consumer and the one that was attached from the start must equal the provider, and again after two more transactions."""
    rng = ctx.rng('initload', arg['i'])
    k = arg['i']
    mdib_file = MDIB_FILES[k % len(MDIB_FILES)]
    async_mgr = (k // 4) % 2 == 1
    ctx_in_getmdib = arg['ctx_in_getmdib']
    instance_id = [1, 0, None, 42][(k // 2) % 4]
    world = World(mdib_file, async_mgr=async_mgr, role_provider=False, contextstates_in_getmdib=ctx_in_getmdib, instance_id=instance_id)
    mdib = world.mdib
    injector = LoadInjector(f'{world.provider_server.host}:{world.provider_server.port}', mdib)
    monitor = ReportMonitor(ctx, world.network, injector)
    label = {'mdib_file': mdib_file, 'async_mgr': async_mgr, 'contextstates_in_getmdib': ctx_in_getmdib, 'instance_id': instance_id,
             'workload': 'initload', 'job': k}
    memo = world.vf_memo = {}
    weights = dict(mdibops.DEFAULT_WEIGHTS)
    weights.update({'abort': 0, 'reject': 0, 'empty': 0, 'unget': 0, 'entity_stash': 0, 'entity_write_stashed': 0})
    c, cm = world.add_consumer()
    first = ('first', cm, Watch(cm), f'127.0.0.1:{c.vf_server.server_port}')
    monitor.add(first[3], 'first', cm, first[2])
    points = list(POINTS) if not ctx_in_getmdib else list(POINTS[:2])

    def settle(consumers, detail):
        psnap = snap(mdib)
        ok = True
        for cname, cmdib in consumers:
            ok = compare(ctx, cname, psnap, cmdib, detail) and ok
        return ok

    def plain_steps(n, consumers, tag):
        for j in range(n):
            op = draw_op(rng, rng, mdib, memo, weights, p_extra=0.2)
            monitor.detail = {**label, 'step': tag, 'op': op}
            ap = c01_ops.apply_op(mdib, op, memo)
            count_op(ctx, op, ap)
            ctx.case(('tr', mdib_file, 'initload') + mdibops.op_shape(ap), nontrivial=ap.outcome == 'ok')
            if not settle(consumers, {**label, 'step': tag, 'op': op, 'outcome': ap.outcome}):
                return False
        return True

    try:
        if not plain_steps(12, [('first', cm)], 'prelude'):   # the prelude of the generator: a context descriptor with several states ...
            return
        cases = [(p, kind) for kind in arg['kinds'] for p in points]
        cases += [(None, None)] * arg['random_loads']
        # the loading side: one connected SdcConsumer (compiling its schema validators costs more than a whole load); every case creates a
        # new ConsumerMdib on it and initialises it - the previous one is dropped.  Every 8th case a complete new consumer attaches.
        loader, _ = world.add_consumer(with_mdib=False)
        loader_netloc = f'127.0.0.1:{loader.vf_server.server_port}'
        attached = None   # (consumer, cmdib, netloc) of the last loaded consumer: re-loaded in the random part
        for n, (point, kind) in enumerate(cases):
            how = 'initial_load'
            if point is not None:
                plan = {point: 1}

                def next_op(pt, j, _kind=kind):
                    return op_of_kind(_kind, rng, mdib, memo) or draw_op(rng, rng, mdib, memo, weights)
            else:
                plan = random_plan(rng, points)
                if attached is not None and rng.random() < 0.4:
                    how = 'reload_all'

                def next_op(pt, j):
                    return draw_op(rng, rng, mdib, memo, weights, p_extra=0.25)
            fresh = n % 8 == 7
            if how == 'initial_load' and attached is not None:    # one loading consumer MDIB at a time: the previous one leaves
                monitor.by_netloc.pop(attached[2], None)
                if attached[0] is not loader:
                    attached[0].stop_all(unsubscribe=True)
                attached = None
                gc.collect()   # (a dropped ConsumerMdib that is still alive would only cost time: it keeps following the reports)
            res = load_with_injection(ctx, world, injector, monitor, plan, next_op, label, how, bystanders=[('first', cm)],
                                      target=None if how == 'initial_load' else (attached[1], attached[2]), loader=None if fresh else loader)
            if res is None or not res[3]:
                return
            c2, cm2, injected = res[:3]
            if how == 'initial_load':
                attached = (c2, cm2, f'127.0.0.1:{c2.vf_server.server_port}')
                monitor.add(attached[2], 'loaded', cm2, Watch(cm2))
                ctx.count('initload.new_consumer' if fresh else 'initload.new_mdib_of_connected_consumer')
            sub = load_key(plan, injected)
            done = [(p, o['op'], o.get('sub'), out) for p, o, out in injected]
            ctx.case(('load', how, point, kind, ctx_in_getmdib, async_mgr, tuple(sorted(done))), nontrivial=bool(injected))
            if point is not None and injected and injected[0][1]['op'] == kind and injected[0][2] == 'ok':
                ctx.count('initload.directed_cases')
            consumers = [('first', cm), ('loaded' if how == 'initial_load' else 'reloaded', attached[1])]
            detail = {**label, 'case': n, 'op': {'op': how, 'sub': sub} if sub else {'op': how}, 'plan': plan, 'injected': done}
            if not settle(consumers[1:], detail):
                return
            if not plain_steps(1 if point is not None else 2, consumers, f'after_{how}'):
                return
    finally:
        world.stop()


def w_kinds(ctx: core.Ctx, arg):
    """every descriptor kind of the MDIB is updated once through each interface (descriptor transaction), every state kind once through its
    state transaction; the mirror is compared after each."""
    rng = ctx.rng('kinds', arg['i'])
    mdib_file = MDIB_FILES[arg['i'] % len(MDIB_FILES)]
    world = World(mdib_file, async_mgr=arg['i'] % 2 == 1, role_provider=False)
    mdib = world.mdib
    monitor = ReportMonitor(ctx, world.network)
    c, cm = world.add_consumer()
    monitor.add(f'127.0.0.1:{c.vf_server.server_port}', 'first', cm, Watch(cm))
    label = {'mdib_file': mdib_file, 'workload': 'kinds'}
    memo = {}
    try:
        for kind in sorted(c01_ops.kinds_present(mdib)):
            for iface in ('classic', 'entity'):
                op = c01_ops.gen_update_kind(rng, mdib, memo, kind, iface)
                monitor.detail = {**label, 'op': op}
                ap = c01_ops.apply_op(mdib, op, memo)
                count_op(ctx, op, ap)
                ctx.count(f'sweep.descr.{kind}')
                ctx.count('sweep.descr_updates')
                ctx.case(('kind', mdib_file, kind, iface, ap.outcome), nontrivial=ap.outcome == 'ok')
                if not compare(ctx, 'first', snap(mdib), cm, {**label, 'op': op, 'outcome': ap.outcome}):
                    return
        # one state of every state NODETYPE through the state transaction of its kind
        by_type = {}
        cat = mdibops.catalog(mdib)
        for group in mdibops.STATE_OPS:
            for h in cat[group]:
                st = mdib.states.descriptor_handle.get_one(h, allow_none=True)
                if st is not None:
                    by_type.setdefault((group, st.NODETYPE.localname), []).append(h)
        for (group, tname), handles in sorted(by_type.items()):
            for iface in ('classic', 'entity'):
                op = {'op': group, 'handles': [rng.choice(sorted(handles))], 'iface': iface, 'seed': rng.randrange(1 << 30)}
                monitor.detail = {**label, 'op': op}
                ap = mdibops.apply_op(mdib, op, memo)
                ctx.count(f'sweep.state.{tname}')
                ctx.count('sweep.state_updates')
                ctx.case(('kind', mdib_file, tname, iface, ap.outcome), nontrivial=ap.outcome == 'ok')
                if not compare(ctx, 'first', snap(mdib), cm, {**label, 'op': op, 'outcome': ap.outcome}):
                    return
    finally:
        world.stop()


def w_realsocket(ctx: core.Ctx, arg):
    """the same histories with NOTHING replaced below the MDIB: real HTTP servers and clients on 127.0.0.1, the default (async) or the sync
    provider components, compression, optional chunking, the consumer's default deferred dispatcher (own worker thread).  Quiescence by a
    barrier on the dispatcher queue (RealWorld.barrier), never by sleeping; a barrier that does not return is inconclusive."""
    from ..realworld import RealWorld
    rng = ctx.rng('real', arg['i'])
    xr = ctx.rng('real-x', arg['i'])
    for hno in range(arg['n']):
        k = arg['i'] * arg['n'] + hno
        mdib_file = MDIB_FILES[k % len(MDIB_FILES)]
        async_mgr = (k // 4) % 2 == 0
        chunk = [0, 0, 512, 37][(k // 2) % 4]
        ctx_in_getmdib = k % 5 != 3
        label = {'mdib_file': mdib_file, 'async_mgr': async_mgr, 'chunk_size': chunk, 'contextstates_in_getmdib': ctx_in_getmdib,
                 'transport': 'real sockets', 'history': [arg['i'], hno]}
        try:
            world = RealWorld(mdib_file, async_mgr=async_mgr, chunk_size=chunk, contextstates_in_getmdib=ctx_in_getmdib)
        except Exception as ex:  # noqa: BLE001
            ctx.not_decided(f'real-socket world could not be set up: {ex!r}')
            return
        try:
            mdib = world.mdib
            consumers = []
            c, cm = world.add_consumer()
            consumers.append(('first', c, cm))
            late_at = rng.randrange(2, max(3, arg['len'] - 2))
            memo = {}
            weights = dict(mdibops.DEFAULT_WEIGHTS)
            weights.update({'abort': 1, 'reject': 1})
            ok = True
            for step in range(arg['len']):
                if step == late_at:
                    c2, cm2 = world.add_consumer()
                    consumers.append(('late', c2, cm2))
                    ctx.count('real.consumer_attached_late')
                    ok = compare(ctx, 'late-initial', snap(mdib), cm2, {**label, 'step': step, 'op': {'op': 'initial_load'}}) and ok
                op = draw_op(rng, xr, mdib, memo, weights)
                ap = c01_ops.apply_op(mdib, op, memo)
                ctx.count('real.transactions')
                ctx.count(f'real.op.{op["op"]}')
                ctx.case(('real', mdib_file, async_mgr, chunk) + mdibops.op_shape(ap), nontrivial=ap.outcome == 'ok')
                psnap = snap(mdib)
                detail = {**label, 'step': step, 'op': op, 'outcome': ap.outcome}
                for cname, cons, cmdib in consumers:
                    if not world.barrier(cons):
                        ctx.not_decided('real sockets: the consumer dispatcher did not reach the barrier within the watchdog')
                        return
                    ctx.count('real.barriers')
                    if not compare(ctx, 'real.' + cname, psnap, cmdib, detail):
                        ok = False
                if not ok:
                    break
            ctx.count('real.histories.async' if async_mgr else 'real.histories.sync')
            if chunk:
                ctx.count('real.histories.chunked')
        finally:
            world.stop()


def run(ctx: core.Ctx):
    ctx.rule = ('seeded provider histories (vf.mdibops) over the 4 sample MDIBs x {sync, async subscription manager} x contextstates_in_getmdib '
                'on/off, one consumer attached before the first transaction and one after a random prefix (0..5 transactions injected at the '
                'four points around its GetMdib / GetContextStates requests; it re-loads once later); generator widened by vf.c01_ops; initload: '
                'directed (injection point x transaction kind) + random plans; kinds: every descriptor / state kind once per interface; '
                'distinct = sequence of (op kind, sub kind, interface, abort point, #handles, outcome) + variant, per load (point, kind, '
                'injected ops); non-trivial = at least one transaction committed')
    n_hist, length = (48, 40) if ctx.quick else (480, 120)
    jobs = [['w_histories', {'i': k, 'n': n_hist // 16, 'len': length}] for k in range(16)]
    n_real, len_real = (1, 25) if ctx.quick else (6, 80)
    jobs += [['w_realsocket', {'i': k, 'n': n_real, 'len': len_real}] for k in range(8)]
    # initial loads while the provider commits: directed (point x kind) + random plans; the two halves of the kind list alternate over the
    # jobs so that every MDIB file meets every kind; three of four jobs keep the context states out of GetMdibResponse (4 injection points)
    for k in range(8 if ctx.quick else 32):
        half = (k + k // 4) % 2
        kinds = LOAD_KINDS[half::2] if ctx.quick else LOAD_KINDS
        jobs.append(['w_initload', {'i': k, 'ctx_in_getmdib': k % 4 == 3, 'kinds': kinds, 'random_loads': 6 if ctx.quick else 30}])
    jobs += [['w_kinds', {'i': k}] for k in range(4 if ctx.quick else 8)]
    core.fanout(ctx, MODULE, 'dispatch', jobs, timeout=3000)
    if os.environ.get('VERIF_C01_DUMP'):   # development aid: all counters (the console shows the first 40 only)
        import json
        with open(os.environ['VERIF_C01_DUMP'], 'w') as f:
            json.dump({'counters': dict(sorted(ctx.counters.items())), 'witnesses': dict(ctx.witness_counts)}, f, indent=1)
    ctx.floor('real.barriers', 100)
    ctx.floor('real.histories.async', 2)
    ctx.floor('real.histories.sync', 2)
    ctx.floor('mirror.comparisons', 1000)
    for kind in ('metric', 'alert', 'component', 'operational', 'context', 'rt', 'descr_update', 'descr_create', 'descr_delete', 'location'):
        ctx.floor(f'op.{kind}', 10)
    ctx.floor('report.DescriptionModificationReport', 20)
    ctx.floor('report.context_with_2plus_states', 5)
    ctx.floor('consumer.attached_late', 10)
    # round 4
    ctx.floor('initload.initial_load', 100)
    ctx.floor('initload.initial_load.with_GetContextStates', 60)
    ctx.floor('initload.initial_load.with_tx', 100)
    ctx.floor('initload.reload_all.with_tx', 5)
    ctx.floor('initload.directed_cases', 100)
    for p in POINTS:
        ctx.floor(f'initload.tx.{p}', 30)
    ctx.floor('op.descr_ctx_purge.none_left', 30)
    ctx.floor('op.descr_ctx_purge.some_left', 30)
    ctx.floor('op.descr_create_ctx.ok', 20)
    ctx.floor('op.descr_create_tree.ok', 20)
    ctx.floor('op.descr_update_kind.ok', 50)
    ctx.floor('sweep.state_updates', 40)
    ctx.floor('sweep.descr_updates', 100)
    ctx.floor('observable.description_modifications.checked', 100)
    ctx.floor('observable.other_kinds.checked', 1000)


def dispatch(ctx: core.Ctx, job):
    globals()[job[0]](ctx, job[1])
