"""C10 - context association invariants hold after any sequence of context changes.

Real provider with the tutorial ``ExtendedExampleProduct`` (GenericContextProvider for patient, location and ensemble contexts) on
the sample MDIBs widened by ``vf.c10world`` + a real consumer with ConsumerMdib over the loop-back transport.  Seeded sequences of
  * ``SdcProvider.set_location`` / ``mdib.xtra.set_location`` (validators, publish on/off, explicit descriptor handle),
  * SetContextState invocations through ``consumer.client('Context').set_context_state`` built from templates (new state associated /
    not associated, update of the associated one, disassociation, re-association of an old state, several proposals for one and for
    several descriptors in one call, proposals that must be rejected),
  * direct ``context_state_transaction`` use: ``disassociate_all`` (+ ``mk_context_state(set_associated=True)``), and the entity
    interface with ``xtra.disassociate_all``,
  * update / (dis)association proposals that the consumer writes from scratch (no binding data, or binding data of its own) - the
    usual ``mk_proposed_context_object(handle)`` copies the provider's values, so that nothing shows when the provider lets them through,
  * calls that are rejected at their SECOND proposal (the handler already worked off the first one), directly followed by the next change
    of the same descriptor (SetContextState / set_location / transaction / entity interface),
  * forced interleavings (``vf.c10_ilv``): the device application (set_location, own transaction) and the SetContextState handler in
    the operation thread change the same descriptor; the second party arrives while the first one is before / at three points inside
    its transaction, in both orders,
  * two proposals for one state, 'new + explicit disassociation of the old one', refused handle reuse via mk_context_state and add_state.
Every world starts with a directed script that reaches each of these, then random actions follow.
The harness itself never writes ContextAssociation into a stored state without the binding data (that would be an application error).

Oracle: every commit is snapshot inside the commit critical section; for every commit that touched context states the transition
``by_version[v-1] -> by_version[v]`` is judged exactly as the statement says; in addition ("after any sequence") a state that stays
associated / disassociated must keep the binding / unbinding version of the commit in which the monitor saw it get there.
EpisodicContextReport bodies seen on the wire are compared with the snapshot of their MdibVersion and must contain every state whose
association changed in that commit.
"""
from __future__ import annotations

import threading
import time

from lxml import etree

from sdc11073.location import SdcLocation
from sdc11073.xml_types import pm_types

from .. import core
from ..c10_ilv import WATCHDOG, Interleaver
from ..c10world import CtxHistory, ctx_snapshot, mk_world
from ..mdibharness import MDIB_FILES

MODULE = 'vf.props.c10'
A = pm_types.ContextAssociation
MSG = 'http://standards.ieee.org/downloads/11073/11073-10207-2017/message'
NAMES = ['a', 'Müller', 'x y', '東京', "O'Neil & <Co>", 'zz', 'bed 7', '0']

# where the disassociation of states that are not named by the caller is implemented
SIDE_EFFECT_SITE = {'set_location': 'transaction_disassociate_all', 'transaction': 'transaction_disassociate_all',
                    'setcontextstate': 'xtra_disassociate_all', 'entity': 'xtra_disassociate_all'}


# ------------------------------------------------------------------------------------------------
# oracle
# ------------------------------------------------------------------------------------------------
def judge_commit(ctx, hist, v, touched, action, detail):
    """the statement, applied to the commit that produced MdibVersion v."""
    prev, cur = hist.by_version.get(v - 1), hist.by_version.get(v)
    if prev is None or cur is None:
        ctx.not_decided(f'no snapshot for MdibVersion {v - 1} / {v}')
        return
    mech = action['mech']
    named = set(action.get('named', []))
    ctx.count('commit.judged')
    ctx.count(f'commit.judged.{mech}')
    info = {**detail, 'mdib_version': v, 'action': {k: x for k, x in action.items() if k != 'named'}}
    # (1) at most one associated state per context descriptor
    per_descr = {}
    for h, st in cur['states'].items():
        if st['ContextAssociation'] == 'Assoc':
            per_descr.setdefault(st['DescriptorHandle'], []).append(h)
    for d, hs in per_descr.items():
        ctx.count('invariant.one_assoc.checked')
        was_assoc = {x for x, st in prev['states'].items() if st['ContextAssociation'] == 'Assoc'}
        if len(hs) > 1 and set(hs) - was_assoc:  # this commit added an associated state to a descriptor that keeps another one
            ctx.witness(f'{mech}.two_associated_states', 'a context descriptor has more than one associated state after a commit',
                        {**info, 'descriptor': d, 'associated': sorted(hs)})
    # (4) handles unique, never a descriptor handle
    ctx.count('invariant.handles.checked')
    if cur['dup']:
        ctx.witness(f'{mech}.duplicate_context_state_handle', 'two context states share one Handle', {**info, 'handles': cur['dup'][:3]})
    clash = sorted(set(cur['states']) & cur['descr'])
    if clash:
        ctx.witness(f'{mech}.context_state_handle_equals_descriptor_handle', 'a context state Handle equals a descriptor Handle', {**info, 'handles': clash[:3]})
    # (2) + (3) transitions
    changed = hist.changed.setdefault(v, set())
    scratch = 'scratch' in str(action.get('template'))
    for h in sorted(cur['states']):
        c = cur['states'][h]
        p = prev['states'].get(h)
        was = p is not None and p['ContextAssociation'] == 'Assoc'
        now = c['ContextAssociation'] == 'Assoc'
        role = 'named' if (h in named or p is None) else 'side_effect'
        rec = {**info, 'state': h, 'role': role, 'before': _show(p), 'after': _show(c)}
        if was != now:
            changed.add(h)
        if was and now and p != c:
            # (3') the state stays associated: what it got when it became associated is still there ("after any sequence ... a state that
            # became associated has its binding version and start time set, and these versions equal the MdibVersion at which ...")
            ref = hist.bound_at.get(h)
            if ref is not None and p['BindingMdibVersion'] == ref and p['BindingStartTime'] is not None:
                ctx.count('persist.binding.checked')
                ctx.count(f'persist.binding.checked.{mech}.{role}')
                if scratch and role == 'named':
                    ctx.count('persist.binding.checked.proposal_from_scratch')
                bad = []
                if c['BindingMdibVersion'] != ref:
                    bad.append(f'BindingMdibVersion {c["BindingMdibVersion"]}, the state became associated at MdibVersion {ref}')
                if c['BindingStartTime'] is None:
                    bad.append('BindingStartTime not set any more')
                if bad:
                    ctx.witness(f'{mech}.update_of_associated_state_changed_binding',
                                'an update that leaves a state associated changed / removed the binding version or start time it got '
                                'when it became associated', {**rec, 'wrong': bad})
        elif not was and not now and p is not None and p != c and p['ContextAssociation'] == 'Dis' and c['ContextAssociation'] == 'Dis':
            # (2') the state stays disassociated: its unbinding data is still the one of the commit that disassociated it
            ref = hist.unbound_at.get(h)
            if ref is not None and p['UnbindingMdibVersion'] == ref and p['BindingEndTime'] is not None:
                ctx.count('persist.unbinding.checked')
                ctx.count(f'persist.unbinding.checked.{mech}.{role}')
                if scratch and role == 'named':
                    ctx.count('persist.unbinding.checked.proposal_from_scratch')
                bad = []
                if c['UnbindingMdibVersion'] != ref:
                    bad.append(f'UnbindingMdibVersion {c["UnbindingMdibVersion"]}, the state stopped being associated at MdibVersion {ref}')
                if c['BindingEndTime'] is None:
                    bad.append('BindingEndTime not set any more')
                if bad:
                    ctx.witness(f'{mech}.update_of_disassociated_state_changed_unbinding',
                                'an update that leaves a state disassociated changed / removed the unbinding version or end time it got '
                                'when it stopped being associated', {**rec, 'wrong': bad})
        if was and not now:
            hist.bound_at.pop(h, None)
            hist.unbound_at[h] = v
            ctx.count('transition.assoc_to_other')
            ctx.count(f'transition.assoc_to_other.{mech}.{role}')
            if h in hist.ever_disassociated:
                ctx.count('transition.assoc_to_other.second_time')  # was disassociated (and re-associated) before
            hist.ever_disassociated.add(h)
            if c['ContextAssociation'] != 'Dis':
                key = ('setcontextstate.assoc_to_no_or_pre_accepted' if (mech, role) == ('setcontextstate', 'named')
                       else f'{mech}.{role}.left_assoc_without_dis')
                ctx.witness(key, 'a state stopped being associated but is not marked Dis',
                            {**rec, 'now': c['ContextAssociation']})
                continue
            bad = []
            if c['UnbindingMdibVersion'] is None:
                bad.append('UnbindingMdibVersion not set')
            elif c['UnbindingMdibVersion'] != v:
                bad.append(f'UnbindingMdibVersion {c["UnbindingMdibVersion"]} != MdibVersion of the commit {v}')
            if c['BindingEndTime'] is None:
                bad.append('BindingEndTime not set')
            if bad:
                key = (f'{mech}.disassociate_stale_unbinding' if role == 'named' and mech == 'setcontextstate'
                       else f'{SIDE_EFFECT_SITE.get(mech, mech)}.stale_unbinding' if role == 'side_effect' else f'{mech}.{role}.disassociated_wrong_unbinding')
                ctx.witness(key, 'a state that stopped being associated does not carry the unbinding version / end time of that commit', {**rec, 'wrong': bad})
        elif now and not was:
            hist.unbound_at.pop(h, None)
            hist.bound_at[h] = v
            ctx.count('transition.to_assoc')
            ctx.count(f'transition.to_assoc.{mech}.{"new" if p is None else "existing"}')
            bad = []
            if c['BindingMdibVersion'] is None:
                bad.append('BindingMdibVersion not set')
            elif c['BindingMdibVersion'] != v:
                bad.append(f'BindingMdibVersion {c["BindingMdibVersion"]} != MdibVersion of the commit {v}')
            if c['BindingStartTime'] is None:
                bad.append('BindingStartTime not set')
            if bad:
                key = (f'{mech}.reassociate_stale_binding' if p is not None and mech == 'setcontextstate'
                       else f'{mech}.{"new" if p is None else "existing"}.associated_wrong_binding')
                ctx.witness(key, 'a state that became associated does not carry the binding version / start time of that commit', {**rec, 'wrong': bad})
    if touched is not None and not set(touched) <= set(cur['states']):
        ctx.count('commit.touched_state_not_in_table')


def _show(st):
    if st is None:
        return None
    return {k: st[k] for k in ('ContextAssociation', 'BindingMdibVersion', 'UnbindingMdibVersion', 'StateVersion')} | {
        'BindingStartTime': st['BindingStartTime'] is not None, 'BindingEndTime': st['BindingEndTime'] is not None}


class ReportWatch:
    """EpisodicContextReport bodies on the wire vs. the snapshot of the MdibVersion they state."""

    def __init__(self, ctx, network, hist):
        self.ctx, self.hist = ctx, hist
        self.detail = {}
        self.pending = []
        network.observers.append(self._seen)

    def _seen(self, entry):
        body = entry.body
        if not body or b'EpisodicContextReport' not in body[:3000]:
            return
        try:
            root = etree.fromstring(body)
            rep = next(root.iter(f'{{{MSG}}}EpisodicContextReport'), None)
        except etree.XMLSyntaxError:
            return
        if rep is None:
            return
        v = int(rep.get('MdibVersion', '0'))
        self.ctx.count('report.EpisodicContextReport')
        states = {}
        for st in rep.iter(f'{{{MSG}}}ContextState'):
            states[st.get('Handle')] = {
                'ContextAssociation': st.get('ContextAssociation', 'No'),
                'BindingMdibVersion': _int(st.get('BindingMdibVersion')), 'UnbindingMdibVersion': _int(st.get('UnbindingMdibVersion')),
                'StateVersion': _int(st.get('StateVersion')) or 0,
                'BindingStartTime': st.get('BindingStartTime') is not None, 'BindingEndTime': st.get('BindingEndTime') is not None}
        self.pending.append((v, states, dict(self.detail)))

    def judge_pending(self):
        """called by the workload loop after the action completed (the snapshot of the commit is recorded by then)"""
        pending, self.pending = self.pending, []
        for v, states, detail in pending:
            snap = self.hist.by_version.get(v)
            if snap is None:
                self.ctx.count('report.no_snapshot')
                continue
            need = self.hist.changed.pop(v, None)
            if need:
                # the change becomes visible to the consumers with the report of that MdibVersion: every state whose association changed
                # in the commit is in it
                self.ctx.count('report.association_changes', len(need))
                missing = sorted(need - set(states))
                if missing:
                    self.ctx.witness('report.association_change_not_in_report',
                                     'the EpisodicContextReport of a commit lacks a state whose association changed in that commit',
                                     {**detail, 'mdib_version': v, 'missing': missing[:4], 'in_report': sorted(states)[:6]})
            for h, got in states.items():
                self.ctx.count('report.context_states')
                want = snap['states'].get(h)
                if want is None or _show(want) != got:
                    self.ctx.witness('report.context_state_differs_from_mdib',
                                     'EpisodicContextReport carries association data different from the MDIB at its MdibVersion',
                                     {**detail, 'mdib_version': v, 'state': h, 'report': got, 'mdib': _show(want)})


def _int(x):
    return None if x is None else int(x)


# ------------------------------------------------------------------------------------------------
# workload
# ------------------------------------------------------------------------------------------------
class Driver:
    def __init__(self, ctx, rng, world, consumer, cmdib, hist):
        self.ctx, self.rng, self.world, self.consumer, self.cmdib, self.hist = ctx, rng, world, consumer, cmdib, hist
        self.mdib = world.mdib
        self.cc = consumer.client('Context')
        self.ops = {}  # context descriptor handle -> operation handle
        for sco in world.provider._sco_operations_registries.values():  # noqa: SLF001
            for op_handle, op in sco._registered_operations.items():  # noqa: SLF001
                if 'SetContextState' in type(op).__name__:
                    self.ops[op.operation_target_handle] = op_handle
        self.descrs = sorted(self.ops)
        self.loc_descrs = sorted(d.Handle for d in self.mdib.descriptions.objects if d.NODETYPE.localname == 'LocationContextDescriptor')
        self.n = 0
        self.ilv = Interleaver(self.mdib)
        self.settle = None  # set by the workload loop: judges what an action made visible (used between the halves of a composite action)

    def kind_of(self, descr):
        return self.mdib.descriptions.handle.get_one(descr).NODETYPE.localname[:3]

    # -- helpers ---------------------------------------------------------------------------------
    def states_of(self, descr):
        with self.mdib.mdib_lock:
            return {s.Handle: s.ContextAssociation for s in self.mdib.context_states.descriptor_handle.get(descr, [])}

    def ident(self):
        self.n += 1
        return [pm_types.InstanceIdentifier(root=f'urn:c10:{self.rng.randrange(4)}', extension_string=f'{self.rng.choice(NAMES)}{self.n}')]

    def touch(self, st):
        """content change that leaves the association alone"""
        if st.NODETYPE.localname == 'PatientContextState' and self.rng.random() < 0.6:
            if st.CoreData is None:
                st.CoreData = pm_types.PatientDemographicsCoreData()
            st.CoreData.Givenname = self.rng.choice(NAMES)
        elif st.NODETYPE.localname == 'LocationContextState' and self.rng.random() < 0.5:
            if st.LocationDetail is None:
                st.LocationDetail = pm_types.LocationDetail()
            st.LocationDetail.Bed = self.rng.choice(NAMES)
        else:
            st.Identification = self.ident()

    def proposal(self, descr, handle=None, assoc=None):
        st = self.cc.mk_proposed_context_object(descr, handle)
        if handle is None or not st.Identification:
            st.Identification = self.ident()
        if assoc is not None:
            st.ContextAssociation = assoc
        return st

    def scratch(self, descr, handle, assoc, foreign):
        """a proposal for an existing state that the consumer writes from scratch (handles + association + content): it carries no
        binding / unbinding data (these are maintained by the provider) or - ``foreign`` - values of the consumer's own"""
        st = self.cc.mk_proposed_context_object(descr, None)
        st.Handle = handle
        st.ContextAssociation = assoc
        self.touch(st)
        if not st.Identification:
            st.Identification = self.ident()
        if foreign:
            st.BindingMdibVersion, st.UnbindingMdibVersion = self.rng.randrange(0, 4), self.rng.randrange(0, 4)
            st.BindingStartTime, st.BindingEndTime = 1000.0 + self.rng.randrange(10), 2000.0 + self.rng.randrange(10)
            st.StateVersion = self.rng.randrange(0, 50)
        return st

    def pick(self, descr, want_assoc):
        cand = sorted(h for h, a in self.states_of(descr).items() if (a == A.ASSOCIATED) == want_assoc)
        return self.rng.choice(cand) if cand else None

    # -- SetContextState templates -------------------------------------------------------------------
    def tpl(self, name, d=None):  # noqa: C901, PLR0911, PLR0912
        """-> (operation handle, proposals, expect_rejection) or None if the template does not apply now"""
        rng = self.rng
        d = d or rng.choice(self.descrs)
        if name in ('update_assoc_scratch', 'update_assoc_scratch_foreign'):
            h = self.pick(d, True)
            if h is None:
                return None
            return self.ops[d], [self.scratch(d, h, A.ASSOCIATED, name.endswith('foreign'))], False
        if name in ('update_old_scratch', 'update_old_scratch_foreign'):
            # a state that is not associated keeps its association (whatever it is) and gets new content
            cand = sorted((h, a) for h, a in self.states_of(d).items() if a != A.ASSOCIATED)
            dis = [x for x in cand if x[1] == A.DISASSOCIATED]
            if not cand:
                return None
            h, a = rng.choice(dis or cand)
            return self.ops[d], [self.scratch(d, h, a, name.endswith('foreign'))], False
        if name == 'disassociate_scratch':
            h = self.pick(d, True)
            if h is None:
                return None
            return self.ops[d], [self.scratch(d, h, A.DISASSOCIATED, rng.random() < 0.5)], False
        if name == 'reassociate_scratch':
            h = self.pick(d, False)
            if h is None:
                return None
            return self.ops[d], [self.scratch(d, h, A.ASSOCIATED, rng.random() < 0.5)], False
        if name == 'new_assoc':
            return self.ops[d], [self.proposal(d, None, A.ASSOCIATED)], False
        if name == 'new_assoc_copied':
            # the consumer "re-admits": the proposal for a NEW state is a copy of an old state, including the members the provider owns
            # (binding / unbinding versions and times of the old state)
            h = self.pick(d, False)
            st = self.proposal(d, None, A.ASSOCIATED)
            if h is not None:
                old = self.cmdib.context_states.handle.get_one(h, allow_none=True)
                if old is not None:
                    st = old.mk_copy()
                    st.Handle = d
                    st.ContextAssociation = A.ASSOCIATED
                    return self.ops[d], [st], False
            st.BindingMdibVersion, st.UnbindingMdibVersion = rng.randrange(0, 5), rng.randrange(0, 5)
            st.BindingStartTime, st.BindingEndTime = 1000.0, 2000.0
            return self.ops[d], [st], False
        if name == 'new_pre':
            # a pre-associated state (ContextAssociation=Pre) is created; the next template associates exactly that state
            self.pre_descr = d
            return self.ops[d], [self.proposal(d, None, A.PRE_ASSOCIATION)], False
        if name == 'assoc_last_pre':
            d = getattr(self, 'pre_descr', None)
            if d is None:
                return None
            cand = sorted(h for h, a in self.states_of(d).items() if a == A.PRE_ASSOCIATION)
            if not cand:
                return None
            return self.ops[d], [self.proposal(d, cand[-1], A.ASSOCIATED)], False
        if name == 'new_not_assoc':
            return self.ops[d], [self.proposal(d, None, rng.choice([A.NO_ASSOCIATION, A.PRE_ASSOCIATION, A.DISASSOCIATED]))], False
        if name == 'update_assoc':
            h = self.pick(d, True)
            if h is None:
                return None
            st = self.proposal(d, h)
            self.touch(st)
            return self.ops[d], [st], False
        if name == 'update_old':
            h = self.pick(d, False)
            if h is None:
                return None
            st = self.proposal(d, h)
            self.touch(st)
            return self.ops[d], [st], False
        if name == 'disassociate':
            h = self.pick(d, True)
            if h is None:
                return None
            return self.ops[d], [self.proposal(d, h, A.DISASSOCIATED)], False
        if name == 'assoc_to_no_or_pre':
            h = self.pick(d, True)
            if h is None:
                return None
            return self.ops[d], [self.proposal(d, h, rng.choice([A.NO_ASSOCIATION, A.PRE_ASSOCIATION]))], False
        if name == 'reassociate_old':
            h = self.pick(d, False)
            if h is None:
                return None
            return self.ops[d], [self.proposal(d, h, A.ASSOCIATED)], False
        if name == 'multi_one_descr':
            kind = rng.choice(['new+new', 'update+new', 'update+update', 'swap', 'swap', 'new+dis', 'same_state_twice', 'reassoc+update_other'])
            old_a, old_n = self.pick(d, True), self.pick(d, False)
            if kind == 'new+dis' and old_a:  # "the old one leaves, a new one comes" said explicitly, in one call
                props = [self.proposal(d, None, A.ASSOCIATED), self.proposal(d, old_a, A.DISASSOCIATED)]
                rng.shuffle(props)
                return self.ops[d], props, False
            if kind == 'same_state_twice' and (old_a or old_n):
                # two proposals for ONE state (same or contradicting association): whatever the provider makes of it, the invariants hold
                h = rng.choice([x for x in (old_a, old_n) if x])
                alts = [A.ASSOCIATED, A.DISASSOCIATED] if h == old_a else [A.ASSOCIATED, self.states_of(d)[h]]
                props = [self.proposal(d, h, rng.choice(alts)), self.proposal(d, h, rng.choice(alts))]
                self.touch(props[1])
                return self.ops[d], props, False
            if kind == 'reassoc+update_other' and old_n:
                others = sorted(h for h, a in self.states_of(d).items() if a != A.ASSOCIATED and h != old_n)
                if others:
                    second = self.proposal(d, rng.choice(others))
                    self.touch(second)
                    props = [self.proposal(d, old_n, A.ASSOCIATED), second]
                    rng.shuffle(props)
                    return self.ops[d], props, False
            if kind == 'new+new':
                return self.ops[d], [self.proposal(d, None, A.ASSOCIATED), self.proposal(d, None, A.NO_ASSOCIATION)], False
            if kind == 'update+new' and old_a:
                first = self.proposal(d, old_a)
                self.touch(first)
                return self.ops[d], [first, self.proposal(d, None, A.NO_ASSOCIATION)], False
            if kind == 'update+update' and old_a and old_n:
                first, second = self.proposal(d, old_a), self.proposal(d, old_n)
                self.touch(first)
                self.touch(second)
                props = [first, second]
                rng.shuffle(props)
                return self.ops[d], props, False
            if kind == 'swap' and old_a and old_n:  # the associated one is disassociated and an old one associated, in one call
                props = [self.proposal(d, old_a, A.DISASSOCIATED), self.proposal(d, old_n, A.ASSOCIATED)]
                rng.shuffle(props)
                return self.ops[d], props, False
            return None
        if name == 'multi_descr':
            ds = rng.sample(self.descrs, min(len(self.descrs), rng.randrange(2, 4)))
            props = []
            for x in ds:
                old_a, old_n = self.pick(x, True), self.pick(x, False)
                choice = rng.choice(['new_assoc', 'new_no', 'update', 'reassoc', 'dis'])
                if choice == 'update' and old_a:
                    st = self.proposal(x, old_a)
                    self.touch(st)
                elif choice == 'reassoc' and old_n:
                    st = self.proposal(x, old_n, A.ASSOCIATED)
                elif choice == 'dis' and old_a:
                    st = self.proposal(x, old_a, A.DISASSOCIATED)
                else:
                    st = self.proposal(x, None, A.ASSOCIATED if choice != 'new_no' else A.NO_ASSOCIATION)
                props.append(st)
            return self.ops[ds[0]], props, False
        if name == 'reject_two_assoc':
            old_n = self.pick(d, False)
            second = self.proposal(d, old_n, A.ASSOCIATED) if old_n and rng.random() < 0.5 else self.proposal(d, None, A.ASSOCIATED)
            return self.ops[d], [self.proposal(d, None, A.ASSOCIATED), second], True
        if name == 'reject_unknown_state':
            st = self.proposal(d, None, rng.choice([A.ASSOCIATED, A.NO_ASSOCIATION]))
            st.Handle = 'no.such.state'
            return self.ops[d], [st], True
        if name == 'reject_state_of_other_descriptor':
            others = [x for x in self.descrs if x != d and self.cmdib.descriptions.handle.get_one(x).NODETYPE == self.cmdib.descriptions.handle.get_one(d).NODETYPE]
            for x in others:
                h = self.pick(x, True) or self.pick(x, False)
                if h:
                    st = self.proposal(x, h, A.ASSOCIATED)
                    st.DescriptorHandle = d  # names a state that belongs to another descriptor
                    return self.ops[d], [st], True
            return None
        if name == 'reject_unknown_descriptor':
            st = self.proposal(d, None, A.ASSOCIATED)
            st.DescriptorHandle = 'no.such.descriptor'
            st.Handle = 'no.such.descriptor'
            return self.ops[d], [st], True
        raise KeyError(name)

    def invoke(self, name, detail, d=None, prepared=None):
        t = prepared or self.tpl(name, d)
        if t is None:
            return None
        op_handle, props, expect_reject = t
        named = [p.Handle for p in props if p.Handle != p.DescriptorHandle]
        shape = tuple((p.NODETYPE.localname[:3], 'new' if p.Handle == p.DescriptorHandle else 'old', p.ContextAssociation.value) for p in props)
        try:
            fut = self.cc.set_context_state(op_handle, props)
            res = fut.result(timeout=WATCHDOG)
            state = res.InvocationInfo.InvocationState.value
        except Exception as ex:  # noqa: BLE001
            state = f'raised:{type(ex).__name__}'
            if 'Timeout' in type(ex).__name__:
                self.ctx.not_decided(f'SetContextState future did not complete ({name})')
        self.ctx.count(f'setcontextstate.{name}.{state}')
        self.ctx.count(f'setcontextstate.result.{state}')
        if expect_reject:
            self.ctx.count('setcontextstate.rejections_expected')
            if state == 'Fin':
                self.ctx.count(f'setcontextstate.{name}.accepted_although_invalid')
        return {'mech': 'setcontextstate', 'template': name, 'named': named, 'proposals': shape, 'result': state}

    # -- other mechanisms ----------------------------------------------------------------------------
    def location(self, descr=None, via=None):
        rng = self.rng
        loc = SdcLocation(fac=rng.choice(NAMES), poc=rng.choice(NAMES), bed=f'{rng.choice(NAMES)}{self.n}', bldng=rng.choice([None] + NAMES),
                          flr=rng.choice([None, '1']), rm=rng.choice([None, 'r']))
        self.n += 1
        validators = rng.choice([None, [], [pm_types.InstanceIdentifier(root='urn:val', extension_string='v1')],
                                 [pm_types.InstanceIdentifier(root='urn:val', extension_string='v1'), pm_types.InstanceIdentifier(root='urn:val2')]])
        descr = descr or rng.choice(self.loc_descrs)
        via = via or rng.choice(['provider', 'provider_publish', 'xtra'])
        handle_arg = descr if (len(self.loc_descrs) > 1 or rng.random() < 0.5) else None
        if via == 'xtra':
            self.mdib.xtra.set_location(loc, validators, location_context_descriptor_handle=handle_arg)
        else:
            try:
                self.world.provider.set_location(loc, validators, publish_now=(via == 'provider_publish'), location_context_descriptor_handle=handle_arg)
            except ValueError as ex:
                if 'has no Identification' not in str(ex):
                    raise
                self.ctx.count('set_location.publish_refused_state_without_identification')  # scopes factory, after the commit
        return {'mech': 'set_location', 'via': via, 'validators': None if validators is None else len(validators), 'explicit_handle': handle_arg is not None}

    def failing_change(self):
        """context changes that fail half way (an exception after states were already disassociated inside the transaction): nothing may
        become visible."""
        rng = self.rng
        sub = rng.choice(['set_location_empty', 'set_location_empty_provider', 'transaction_body_raises', 'transaction_body_raises_after_mk'])
        d = rng.choice(self.descrs)
        try:
            if sub == 'set_location_empty':
                self.mdib.xtra.set_location(SdcLocation(), location_context_descriptor_handle=rng.choice(self.loc_descrs))
            elif sub == 'set_location_empty_provider':
                self.world.provider.set_location(SdcLocation(), location_context_descriptor_handle=rng.choice(self.loc_descrs))
            else:
                with self.mdib.context_state_transaction() as mgr:
                    mgr.disassociate_all(d)
                    if sub.endswith('after_mk'):
                        mgr.mk_context_state(d, None, set_associated=True)
                    raise RuntimeError('vf: the application fails inside the transaction')
            outcome = 'no_exception'
        except Exception as ex:  # noqa: BLE001
            outcome = type(ex).__name__
        self.ctx.count(f'failing_change.{sub}.{outcome}')
        return {'mech': 'failing_change', 'sub': sub, 'result': outcome}

    def transaction(self, d=None, sub=None):
        rng = self.rng
        d = d or rng.choice(self.descrs)
        sub = sub or rng.choice(['disassociate_all+mk_associated', 'disassociate_all+mk_associated', 'disassociate_all', 'disassociate_all_ignoring',
                                 'mk_not_associated', 'disassociate_all+mk_associated_handle'])
        with self.mdib.context_state_transaction() as mgr:
            if sub.startswith('disassociate_all+'):
                mgr.disassociate_all(d)
                self.n += 1
                st = mgr.mk_context_state(d, f'c10.{self.n}.{rng.randrange(10 ** 6)}' if sub.endswith('handle') else None, set_associated=True)
                st.Identification = self.ident()
            elif sub == 'disassociate_all':
                mgr.disassociate_all(d)
            elif sub == 'disassociate_all_ignoring':
                mgr.disassociate_all(d, ignored_handle=self.pick(d, True) if rng.random() < 0.5 else self.pick(d, False))
            else:
                st = mgr.mk_context_state(d, set_associated=False)
                st.Identification = self.ident()
        return {'mech': 'transaction', 'sub': sub}

    def entity(self, d=None, sub=None):
        rng = self.rng
        d = d or rng.choice(self.descrs)
        sub = sub or rng.choice(['disassociate_all+new_associated', 'disassociate_all', 'update_content'])
        with self.mdib.context_state_transaction() as mgr:
            ent = self.mdib.entities.by_handle(d)
            handles = []
            if sub.startswith('disassociate_all'):
                handles += self.mdib.xtra.disassociate_all(ent, unbinding_mdib_version=mgr.new_mdib_version)
            if sub == 'disassociate_all+new_associated':
                st = ent.new_state()
                st.ContextAssociation = A.ASSOCIATED  # a new associated state written together with its binding data
                st.BindingMdibVersion = mgr.new_mdib_version
                st.BindingStartTime = time.time()
                st.Identification = self.ident()
                handles.append(st.Handle)
            if sub == 'update_content' and ent.states:
                h = rng.choice(sorted(ent.states))
                self.touch(ent.states[h])
                handles.append(h)
            if handles:
                mgr.write_entity(ent, handles)
        return {'mech': 'entity', 'sub': sub}

    def reject_handle_reuse(self, detail=None, via=None):  # noqa: ARG002
        """mk_context_state / add_state with a context state handle that exists must be refused (and commit nothing)"""
        with self.mdib.mdib_lock:
            existing = sorted(s.Handle for s in self.mdib.context_states.objects)
        if not existing:
            return None
        d = self.rng.choice(self.descrs)
        outcome = 'accepted'
        handle = self.rng.choice(existing)
        via = via or self.rng.choice(['mk_context_state', 'add_state'])
        try:
            with self.mdib.context_state_transaction() as mgr:
                try:
                    if via == 'mk_context_state':
                        mgr.mk_context_state(d, handle, set_associated=False)
                    else:
                        st = self.mdib.data_model.mk_state_container(self.mdib.descriptions.handle.get_one(d))
                        st.Handle = handle
                        st.Identification = self.ident()
                        mgr.add_state(st)
                except ValueError:
                    outcome = 'refused'
                    raise
        except Exception as ex:  # noqa: BLE001
            if outcome != 'refused':
                outcome = f'accepted_then_{type(ex).__name__}'
        self.ctx.count(f'transaction.handle_reuse.{outcome}')
        self.ctx.count(f'transaction.handle_reuse.{via}.{outcome}')
        if outcome != 'refused':
            self.ctx.witness(f'transaction.{via}.handle_in_use_accepted',
                             f'{via} accepted the Handle of an existing context state (handles are no longer unique)',
                             {'descriptor': d, 'handle': handle, 'outcome': outcome})
        return {'mech': 'transaction', 'sub': f'{via}_existing_handle', 'result': outcome}

    # -- a rejected call that was valid up to some proposal, and what comes next -----------------------------
    def rejected_partial(self, detail, d=None, first=None, bad=None, follow=None):
        """SetContextState with several proposals of which a later one is invalid: the whole call is rejected, and the part of it that
        the handler already worked off must not show - neither now (rule 'table == last commit') nor in what the NEXT change of the
        same descriptor makes visible (that change directly follows, before anything else is committed)."""
        rng = self.rng
        d = d or rng.choice(self.descrs)
        old_a, old_n = self.pick(d, True), self.pick(d, False)
        first = first or rng.choice(['new_assoc', 'new_assoc', 'reassociate_old', 'disassociate', 'update_assoc'])
        if first == 'reassociate_old' and old_n:
            good = self.proposal(d, old_n, A.ASSOCIATED)
        elif first == 'disassociate' and old_a:
            good = self.proposal(d, old_a, A.DISASSOCIATED)
        elif first == 'update_assoc' and old_a:
            good = self.proposal(d, old_a)
            self.touch(good)
        else:
            first, good = 'new_assoc', self.proposal(d, None, A.ASSOCIATED)
        bad = bad or rng.choice(['unknown_state', 'unknown_state_other_descriptor', 'associated_to_no', 'unknown_descriptor'])
        others = [x for x in self.descrs if x != d]
        d2 = rng.choice(others)
        if bad == 'associated_to_no':
            with_assoc = [x for x in others if self.pick(x, True)]
            if with_assoc:
                d2 = rng.choice(with_assoc)
                wrong = self.proposal(d2, self.pick(d2, True), A.NO_ASSOCIATION)
            else:
                bad = 'unknown_state'
        if bad in ('unknown_state', 'unknown_state_other_descriptor'):
            wrong = self.proposal(d if bad == 'unknown_state' else d2, None, rng.choice([A.NO_ASSOCIATION, A.DISASSOCIATED]))
            wrong.Handle = 'no.such.state'
        elif bad == 'unknown_descriptor':
            wrong = self.proposal(d2, None, A.NO_ASSOCIATION)
            wrong.DescriptorHandle = wrong.Handle = 'no.such.descriptor'
        action = self.invoke(f'partial.{first}+{bad}', detail, prepared=(self.ops[d], [good, wrong], True))
        self.ctx.count(f'partial_reject.first_call.{action["result"]}')
        self.settle(action, detail)
        if action['result'] != 'Fail':
            return None
        # the next change of the same descriptor
        follow = follow or rng.choice(['new_assoc', 'new_assoc', 'reassociate_old', 'update_assoc', 'disassociate', 'set_location', 'transaction', 'entity'])
        if follow == 'set_location' and d not in self.loc_descrs:
            follow = 'transaction'
        if follow == 'set_location':
            nxt = self.location(descr=d)
        elif follow == 'transaction':
            nxt = self.transaction(d=d, sub='disassociate_all+mk_associated')
        elif follow == 'entity':
            nxt = self.entity(d=d, sub=rng.choice(['disassociate_all+new_associated', 'disassociate_all', 'update_content']))
        else:
            nxt = self.invoke(follow, detail, d=d) or self.invoke('new_assoc', detail, d=d)
        self.ctx.count('partial_reject.followed_by_change')
        self.ctx.count(f'partial_reject.followed_by.{nxt["mech"]}')
        nxt['after_partial_reject'] = f'{first}+{bad}'
        return nxt

    # -- two parties at the same time ----------------------------------------------------------------
    def _party(self, kind, d):
        """a context change of the device application for descriptor d"""
        if kind == 'set_location':
            return self.location(descr=d)
        if kind == 'transaction':
            return self.transaction(d=d, sub='disassociate_all+mk_associated')
        return self.entity(d=d, sub='disassociate_all+new_associated')

    def _request(self, d, prop):
        old_a, old_n = self.pick(d, True), self.pick(d, False)
        if prop == 'reassociate_old' and old_n:
            return prop, [self.proposal(d, old_n, A.ASSOCIATED)]
        if prop == 'disassociate' and old_a:
            return prop, [self.proposal(d, old_a, A.DISASSOCIATED)]
        if prop == 'update_assoc' and old_a:
            st = self.proposal(d, old_a)
            self.touch(st)
            return prop, [st]
        return 'new_assoc', [self.proposal(d, None, A.ASSOCIATED)]

    def interleave(self, detail, d=None, owner=None, point=None, app=None, prop=None):
        """The device application changes a context (set_location / own transaction) and a SetContextState for the same descriptor is
        worked off by the operation thread at the same time: the one that comes second reaches the transaction while the first one
        (``owner``: 'handler' or 'application') is at ``point`` inside its own transaction."""
        rng = self.rng
        d = d or rng.choice(self.descrs + self.loc_descrs_with_op())
        owner = owner or rng.choice(['handler', 'handler', 'application'])
        point = point or rng.choice(['before_open', 'after_open', 'before_write', 'before_commit'])
        app = app or rng.choice(['set_location', 'set_location', 'transaction', 'entity'])
        if app == 'set_location' and d not in self.loc_descrs:
            app = 'transaction'
        prop, props = self._request(d, prop or rng.choice(['new_assoc', 'new_assoc', 'reassociate_old', 'disassociate', 'update_assoc']))
        named = [p.Handle for p in props if p.Handle != p.DescriptorHandle]
        main = threading.current_thread()
        box = {}

        def run_app():
            try:
                box['app'] = self._party(app, d)
            except Exception as ex:  # noqa: BLE001
                box['app_error'] = repr(ex)[:200]

        if owner == 'handler':
            thread = threading.Thread(target=lambda: (run_app(), plan.note_finished()), name='c10-application', daemon=True)
            plan = self.ilv.arm(point, lambda t: t.name == 'DeviceOperationsWorker', lambda t: t is thread, thread.start)
            try:
                fut = self.cc.set_context_state(self.ops[d], props)
                state = self._result(fut)
                if plan.fired:
                    thread.join(WATCHDOG)
                    if thread.is_alive():
                        self.ctx.not_decided('interleave: the application thread did not come back')
            finally:
                self.ilv.disarm()
        else:
            def send():
                box['fut'] = self.cc.set_context_state(self.ops[d], props)
                box['fut'].add_done_callback(lambda _f: plan.note_finished())
            plan = self.ilv.arm(point, lambda t: t is main, lambda t: t.name == 'DeviceOperationsWorker', send)
            try:
                run_app()
            finally:
                self.ilv.disarm()
            state = self._result(box['fut']) if 'fut' in box else 'not_sent'
        if 'app_error' in box:
            self.ctx.count('interleave.application_raised')
            self.ctx.not_decided(f'interleave: the application side raised {box["app_error"]}')
        how = plan.how if plan.fired else 'not_reached'
        self.ctx.count(f'interleave.{how}')
        self.ctx.count(f'interleave.{owner}.{point}.{how}')
        if plan.fired and how != 'watchdog':
            self.ctx.count(f'interleave.reached.{owner}.{point}')
            if app == 'set_location':
                self.ctx.count('interleave.reached.set_location')
        self.ctx.count(f'interleave.{owner}.{app}.{self.kind_of(d)}.{how}')
        self.ctx.count(f'interleave.setcontextstate.{state}')
        if how == 'watchdog':
            self.ctx.not_decided(f'interleave: neither party made progress within {WATCHDOG} s ({owner}, {point}, {app})')
        return {'mech': 'interleaved', 'sub': f'{owner}.{point}.{app}', 'named': named, 'proposals': ((self.kind_of(d), prop),),
                'result': f'{state}/{how}'}

    def loc_descrs_with_op(self):
        return [x for x in self.loc_descrs if x in self.ops]

    def _result(self, fut):
        try:
            return fut.result(timeout=WATCHDOG).InvocationInfo.InvocationState.value
        except Exception as ex:  # noqa: BLE001
            if 'Timeout' in type(ex).__name__:
                self.ctx.not_decided('SetContextState future did not complete (interleave)')
            return f'raised:{type(ex).__name__}'


TEMPLATES = ['new_assoc', 'new_pre', 'assoc_last_pre', 'new_assoc', 'new_assoc_copied', 'new_not_assoc', 'update_assoc', 'update_old', 'disassociate', 'reassociate_old', 'reassociate_old',
             'multi_one_descr', 'multi_one_descr', 'multi_descr', 'multi_descr', 'reject_two_assoc', 'reject_unknown_state',
             'reject_state_of_other_descriptor', 'reject_unknown_descriptor', 'assoc_to_no_or_pre',
             'update_assoc_scratch', 'update_assoc_scratch_foreign', 'update_old_scratch', 'update_old_scratch_foreign', 'disassociate_scratch',
             'reassociate_scratch', 'multi_one_descr']


def directed(drv):
    """the always executed part of a world: (name of the Driver method, arguments) - every new monitor is reached by it"""
    steps = []
    for d in [x for x in (next((x for x in drv.descrs if drv.kind_of(x) == 'Pat'), None), next(iter(drv.loc_descrs_with_op()), None)) if x]:
        app = 'set_location' if d in drv.loc_descrs else 'transaction'
        steps += [
            # binding data survives updates whose proposal does not carry it / carries other values
            ('invoke', {'name': 'new_assoc', 'd': d}), ('invoke', {'name': 'update_assoc_scratch', 'd': d}),
            ('invoke', {'name': 'update_assoc_scratch_foreign', 'd': d}), ('invoke', {'name': 'new_assoc', 'd': d}),
            ('invoke', {'name': 'update_old_scratch', 'd': d}), ('invoke', {'name': 'update_old_scratch_foreign', 'd': d}),
            ('reject_handle_reuse', {'via': 'add_state'}), ('reject_handle_reuse', {'via': 'mk_context_state'}),
            # a call that is rejected at its second proposal, then the next change of that descriptor
            ('rejected_partial', {'d': d, 'first': 'new_assoc', 'bad': 'unknown_state', 'follow': 'new_assoc'}),
            ('rejected_partial', {'d': d, 'first': 'reassociate_old', 'bad': 'unknown_state_other_descriptor', 'follow': 'reassociate_old'}),
            ('rejected_partial', {'d': d, 'first': 'new_assoc', 'bad': 'associated_to_no', 'follow': app}),
            ('rejected_partial', {'d': d, 'first': 'disassociate', 'bad': 'unknown_descriptor', 'follow': 'entity'}),
            # the application and the operation thread change the same context at the same time
            ('interleave', {'d': d, 'owner': 'handler', 'point': 'after_open', 'app': app, 'prop': 'new_assoc'}),
            ('interleave', {'d': d, 'owner': 'handler', 'point': 'before_write', 'app': app, 'prop': 'new_assoc'}),
            ('interleave', {'d': d, 'owner': 'handler', 'point': 'before_commit', 'app': 'entity', 'prop': 'reassociate_old'}),
            ('interleave', {'d': d, 'owner': 'handler', 'point': 'before_open', 'app': app, 'prop': 'new_assoc'}),
            ('interleave', {'d': d, 'owner': 'application', 'point': 'before_open', 'app': app, 'prop': 'reassociate_old'}),
            ('interleave', {'d': d, 'owner': 'application', 'point': 'after_open', 'app': app, 'prop': 'new_assoc'}),
            ('interleave', {'d': d, 'owner': 'application', 'point': 'before_commit', 'app': 'transaction', 'prop': 'reassociate_old'}),
        ]
    return steps


def w_sequences(ctx: core.Ctx, arg):  # noqa: C901, PLR0915
    rng = ctx.rng('seq', arg['i'])
    for wno in range(arg['worlds']):
        mdib_file = MDIB_FILES[(arg['i'] + wno) % len(MDIB_FILES)]
        world = mk_world(mdib_file, async_mgr=(arg['i'] + wno) % 3 == 2)
        try:
            hist = CtxHistory(world.mdib)
            watch = ReportWatch(ctx, world.network, hist)
            consumer, cmdib = world.add_consumer(with_mdib=True)
            drv = Driver(ctx, rng, world, consumer, cmdib, hist)
            if len(drv.descrs) < 3:
                ctx.not_decided(f'context providers registered only {drv.descrs}')
                continue
            if len(drv.loc_descrs) > 1:
                ctx.count('world.two_location_descriptors')
            hist.take_new()
            shapes = []

            def settle(action, detail):
                """judge everything the action made visible"""
                ctx.count(f'action.{action["mech"]}')
                commits = [(v, hs) for v, hs in hist.take_new() if hs]
                for v, hs in commits:
                    judge_commit(ctx, hist, v, hs, action, detail)
                watch.judge_pending()
                # what is in the table now is what the last commit made visible: a change that was not committed must not be there
                with world.mdib.mdib_lock:
                    now = ctx_snapshot(world.mdib)
                last = hist.by_version.get(now['v'])
                ctx.count('quiescent.table_vs_last_commit')
                if last is not None and now != last:
                    diff = sorted(h for h in set(now['states']) | set(last['states']) if now['states'].get(h) != last['states'].get(h))
                    ctx.witness(f'{action["mech"]}.visible_without_commit', 'the context states in the MDIB differ from what the last commit made visible '
                                '(MdibVersion unchanged)', {**detail, 'action': {k: x for k, x in action.items() if k != 'named'}, 'handles': diff[:4],
                                                            'now': [_show(now['states'][h]) for h in diff[:2] if h in now['states']],
                                                            'committed': [_show(last['states'][h]) for h in diff[:2] if h in last['states']]})
                    hist.by_version[now['v']] = now   # reported once
                shapes.append((action['mech'], action.get('template') or action.get('sub') or action.get('via'), action.get('proposals'),
                               action.get('result'), action.get('after_partial_reject'), tuple(len(hs) for _, hs in commits)))
                if commits:
                    low = min(v for v, _ in commits) - 2
                    for old in [k for k in hist.by_version if k < low]:
                        del hist.by_version[old]
                    for old in [k for k in hist.changed if k < low]:
                        del hist.changed[old]
                world.network.log.clear()

            drv.settle = settle
            script = directed(drv)
            for step in range(-len(script), arg['steps']):
                detail = {'mdib_file': mdib_file, 'step': step, 'world': [arg['i'], wno]}
                watch.detail = detail
                try:
                    if step < 0:
                        name, kw = script[step + len(script)]
                        detail['directed'] = name
                        action = drv.invoke(kw['name'], detail, d=kw['d']) if name == 'invoke' else getattr(drv, name)(detail, **kw)
                        if action is None:
                            ctx.count(f'directed.not_applicable.{name}')
                    else:
                        r = rng.random()
                        if r < 0.13:
                            action = drv.location()
                        elif r < 0.24:
                            action = drv.transaction()
                        elif r < 0.31:
                            action = drv.entity()
                        elif r < 0.34:
                            action = drv.reject_handle_reuse()
                        elif r < 0.39:
                            action = drv.failing_change()
                        elif r < 0.45:
                            action = drv.rejected_partial(detail)
                        elif r < 0.51:
                            action = drv.interleave(detail)
                        else:
                            action = drv.invoke(TEMPLATES[step % len(TEMPLATES)] if step < 2 * len(TEMPLATES) else rng.choice(TEMPLATES), detail)
                except Exception as ex:  # noqa: BLE001
                    ctx.count(f'action.raised.{type(ex).__name__}')
                    action = {'mech': 'harness', 'raised': repr(ex)[:200]}
                    ctx.not_decided(f'workload step raised {ex!r}'[:300])
                if action is None:
                    ctx.count('action.not_applicable')
                    continue
                settle(action, detail)
                while len(shapes) >= 15:
                    case, shapes = shapes[:15], shapes[15:]
                    ctx.case(tuple(case), nontrivial=any(s[5] for s in case))
                    if arg['i'] == 0 and wno == 0 and step < 40:
                        ctx.sample({'mdib_file': mdib_file, 'sequence': [list(s[:2]) + [s[3], s[4], list(s[5])] for s in case]})
        finally:
            if wno < arg['worlds'] - 1:  # the worker process ends with os._exit: the last world needs no (slow) orderly shutdown
                world.stop()


def run(ctx: core.Ctx):
    ctx.rule = ('seeded action sequences on 4 widened sample MDIBs (patient, location(s), 2+ ensemble descriptors, one SetContextState operation '
                'each; sync / async subscription manager): a directed script per world (proposals written from scratch, calls rejected at their '
                'second proposal + the next change, application and operation thread interleaved at 4 points in both orders, refused handle reuse) '
                'followed by random actions: set_location (3 ways) / SetContextState through the consumer client (22 templates) / '
                'context_state_transaction with disassociate_all + mk_context_state / entity interface with xtra.disassociate_all / refused handle '
                'reuse (mk_context_state, add_state) / rejected-at-second-proposal + follow-up / forced interleavings; one case = 15 consecutive '
                'actions; distinct = sequence of (mechanism, template, (state type, new/old, proposed association) per proposal, invocation result, '
                'preceding rejected call, #context states per commit); non-trivial = at least one commit touched context states')
    ctx.assumptions += [
        'only commits made by the mechanisms named in the property are judged; the harness never stores a ContextAssociation change without '
        'the binding data itself', '"set" for BindingStartTime / BindingEndTime means not None (a stale time is not flagged), versions must equal the '
        'MdibVersion of the commit', 'new associated states get an Identification (the scopes factory of publish() requires it)',
        '"after any sequence": a state that stays associated keeps the BindingMdibVersion (= version at which the monitor saw it become associated) '
        'and a BindingStartTime, a state that stays Dis keeps the UnbindingMdibVersion of the commit that disassociated it and a BindingEndTime; '
        'states whose (un)binding the monitor did not see are not judged',
        'interleavings are forced on logical events (second party asks for a lock the owner holds / second party finished); the two commits of an '
        'interleaved action are judged under the mechanism key "interleaved"',
        '"became visible": the EpisodicContextReport with the MdibVersion of the commit contains every state whose association changed in it '
        '(judged only for reports that were seen)']
    if ctx.quick:
        jobs = [['w_sequences', {'i': k, 'worlds': 1, 'steps': 280}] for k in range(16)]
    else:
        jobs = [['w_sequences', {'i': k, 'worlds': 5, 'steps': 800}] for k in range(32)]
    core.fanout(ctx, MODULE, 'dispatch', jobs, timeout=3000)
    ctx.floor('commit.judged', 1500)
    for mech in ('set_location', 'setcontextstate', 'transaction', 'entity'):
        ctx.floor(f'commit.judged.{mech}', 100)
    ctx.floor('transition.assoc_to_other', 500)
    ctx.floor('transition.to_assoc', 500)
    ctx.floor('transition.assoc_to_other.second_time', 20)
    ctx.floor('transition.to_assoc.setcontextstate.existing', 30)
    ctx.floor('transition.to_assoc.setcontextstate.new', 50)
    ctx.floor('transition.assoc_to_other.setcontextstate.named', 30)
    ctx.floor('setcontextstate.rejections_expected', 50)
    ctx.floor('setcontextstate.result.Fail', 30)
    ctx.floor('transaction.handle_reuse.refused', 10)
    ctx.floor('world.two_location_descriptors', 2)
    ctx.floor('report.context_states', 1000)
    ctx.floor('report.association_changes', 1000)
    # an update proposal that does not carry the provider's binding data (directed: 4 per world)
    ctx.floor('persist.binding.checked.proposal_from_scratch', 40)
    ctx.floor('persist.unbinding.checked.proposal_from_scratch', 40)
    ctx.floor('persist.binding.checked', 100)
    ctx.floor('persist.unbinding.checked', 100)
    # a call rejected after the handler worked off its first proposal, directly followed by the next change (directed: 8 per world)
    ctx.floor('partial_reject.first_call.Fail', 100)
    ctx.floor('partial_reject.followed_by_change', 100)
    ctx.floor('partial_reject.followed_by.setcontextstate', 30)
    # forced interleavings (directed: 14 per world; 'blocked' / 'ran_before' is what the unchanged provider does)
    ctx.floor('action.interleaved', 200)
    ctx.floor('commit.judged.interleaved', 300)
    for k in ('handler.before_open', 'handler.after_open', 'handler.before_write', 'handler.before_commit',
              'application.before_open', 'application.after_open', 'application.before_commit'):
        ctx.floor(f'interleave.reached.{k}', 16)
    ctx.floor('interleave.reached.set_location', 40)
    ctx.floor('transaction.handle_reuse.add_state.refused', 10)
    ctx.floor('transaction.handle_reuse.mk_context_state.refused', 10)


def dispatch(ctx: core.Ctx, job):
    globals()[job[0]](ctx, job[1])
