"""C07 - Get responses are consistent snapshots under concurrent transactions.

(1) lock-granularity explorer: every scheduling point a Get request exposes (before / after each outermost acquire of the MDIB
    lock and of the table locks, while the reader does not hold the MDIB lock) x 1..2 complete foreign transactions of several
    kinds, run synchronously at that point (deterministic, enumerated completely).
(2) stress: reader and writer threads with a tiny switch interval (loop-back and REAL sockets: the library's threaded HTTP server + http.client).
(3) gate scheduler (vf/c07_sched.py): 1-3 request THREADS parked at their scheduling points, 1-4 transactions between any two steps; request
    templates include context state handles, unknown / duplicate handles, the MDS handles of a two-MDS MDIB and handles that are created /
    deleted by the interleaved transaction; provider option contextstates_in_getmdib=False; also over real sockets (the server threads are parked).
(4) writer-side points: a transaction thread is parked at every table-lock event INSIDE its commit and a request arrives: it has to wait
    (or at least answer with the content of a committed version).
Oracle: the per-version snapshot history recorded inside the commit critical section; every entity in a response must have the
content / counters of ``by_version[v]`` for the MdibVersion v stated in the response, and the selected set must be the one that
existed at v (reference selection: expected_selection()).  Requests go through the real consumer service clients; every answer is checked
twice: as the library's message reader delivers it AND by an own reading of the bytes (handles + version counters, inner msg:Mdib version group).
"""
from __future__ import annotations

import itertools
import sys
import threading
import time

from sdc11073 import observableproperties as properties

from .. import core, mdibops
from ..history import History, canon, canon_descriptor, first_difference, tolerant_equal
from ..mdibharness import MDIB_FILES, World
from ..c07_sched import Actor, Sched
from ..sched import Instrumented

MODULE = 'vf.props.c07'
MAX_POINTS_PER_REQUEST = 8


class LiveHistory(History):
    """records inside the commit critical section (transaction observable fires while the MDIB lock is held)."""

    def __init__(self, mdib):
        self.lock = threading.Lock()
        super().__init__(mdib)
        properties.strongbind(mdib, transaction=self._on_commit)

    sched = None  # a c07_sched.Sched: the harness' own table reads inside the commit are no scheduling points

    def _on_commit(self, tr):
        if self.mdib.mdib_version not in self.by_version:
            if self.sched is not None:
                self.sched.quiet.on = True
            try:
                with self.lock:
                    self.record()
            finally:
                if self.sched is not None:
                    self.sched.quiet.on = False

    def record(self):
        s = super().record()
        s['container_versions'] = (self.mdib.mddescription_version, self.mdib.mdstate_version)
        return s


PM_NS = 'http://standards.ieee.org/downloads/11073/11073-10207-2017/participant'
MSG_NS = 'http://standards.ieee.org/downloads/11073/11073-10207-2017/message'
S12_NS = 'http://www.w3.org/2003/05/soap-envelope'
DEFAULT_CFG = {'ctx_in_getmdib': True}


def _descr_parent(c):
    return c[2][1]


def _descr_type(c):
    return c[3][1] or ''


def _mds_of(snap, descr_handle):
    """handle of the MDS a descriptor belongs to at this version (parent chain of the snapshot), None when the chain is broken."""
    h = descr_handle
    for _ in range(64):
        c = snap['descr'].get(h)
        if c is None:
            return None
        if _descr_type(c).endswith('}MdsDescriptor'):
            return h
        h = _descr_parent(c)
    return None


def expected_selection(snap, kind, handles, cfg):
    """reference selection (BICEPS message model rules as the handlers document them) evaluated on the snapshot of ONE version.
    -> ({key: canonical state}, None) for the state requests, (None, True|False = all descriptors | none) for GetMdDescription."""
    with_ctx = cfg.get('ctx_in_getmdib', True)
    ctx_by_descr = {}
    for ch, c in snap['ctx'].items():
        ctx_by_descr.setdefault(dict(c[1]).get('DescriptorHandle'), []).append(ch)
    want = {}
    if kind == 'GetMdDescription':
        return None, (not handles or any(h in snap['descr'] for h in handles))
    if kind == 'GetMdib':
        want = {('state', h): c for h, c in snap['states'].items()}
        if with_ctx:
            want.update({('ctx', h): c for h, c in snap['ctx'].items()})
        return want, None
    if kind == 'GetMdState':
        if not handles:
            want = {('state', h): c for h, c in snap['states'].items()}
            if with_ctx:
                want.update({('ctx', h): c for h, c in snap['ctx'].items()})
            return want, None
        for h in handles:
            if with_ctx and h in snap['ctx']:
                want[('ctx', h)] = snap['ctx'][h]
                continue
            if h in snap['states']:
                want[('state', h)] = snap['states'][h]
            if with_ctx:
                for ch in ctx_by_descr.get(h, []):
                    want[('ctx', ch)] = snap['ctx'][ch]
        return want, None
    # GetContextStates
    if not handles:
        return {('ctx', h): c for h, c in snap['ctx'].items()}, None
    for h in handles:
        if h in snap['ctx']:
            want[('ctx', h)] = snap['ctx'][h]
        elif ctx_by_descr.get(h):
            for ch in ctx_by_descr[h]:
                want[('ctx', ch)] = snap['ctx'][ch]
        elif h in snap['descr'] and _descr_type(snap['descr'][h]).endswith('}MdsDescriptor'):
            # R5042: all context states that are part of this MDS
            for dh, chs in ctx_by_descr.items():
                if _mds_of(snap, dh) == h:
                    for ch in chs:
                        want[('ctx', ch)] = snap['ctx'][ch]
    return want, None


def _int(v):
    return int(v) if v not in (None, '') else 0


def wire_view(raw: bytes):
    """independent reading of the answer's bytes: version attributes, (handle, counters) of every state / descriptor element."""
    from lxml import etree
    root = etree.fromstring(raw)
    body = root.find(f'{{{S12_NS}}}Body')
    msg = body[0]
    view = {'msg': msg, 'version': (_int(msg.get('MdibVersion')), msg.get('SequenceId'), None if msg.get('InstanceId') is None else int(msg.get('InstanceId'))),
            'states': [], 'descr': [], 'inner': None, 'description_version': None, 'state_version': None}
    mdib_node = msg.find(f'{{{MSG_NS}}}Mdib')
    if mdib_node is not None:
        view['inner'] = (_int(mdib_node.get('MdibVersion')), mdib_node.get('SequenceId'),
                         None if mdib_node.get('InstanceId') is None else int(mdib_node.get('InstanceId')))
    for node in msg.iter(f'{{{PM_NS}}}MdDescription', f'{{{MSG_NS}}}MdDescription'):
        if node.get('DescriptionVersion') is not None:
            view['description_version'] = int(node.get('DescriptionVersion'))
        for el in node.iterdescendants():
            if isinstance(el.tag, str) and el.get('Handle') is not None and el.tag.startswith(f'{{{PM_NS}}}'):
                view['descr'].append((el.get('Handle'), _int(el.get('DescriptorVersion'))))
    for node in msg.iter(f'{{{PM_NS}}}MdState', f'{{{MSG_NS}}}MdState'):
        if node.get('StateVersion') is not None:
            view['state_version'] = int(node.get('StateVersion'))
    for el in msg.iter(f'{{{PM_NS}}}State', f'{{{MSG_NS}}}State', f'{{{MSG_NS}}}ContextState'):
        key = ('ctx', el.get('Handle')) if el.get('Handle') is not None else ('state', el.get('DescriptorHandle'))
        view['states'].append((key, _int(el.get('DescriptorVersion')), _int(el.get('StateVersion'))))
    return view


def _counters(c):
    d = dict(c[1])
    return (_int(d.get('DescriptorVersion')), _int(d.get('StateVersion')))


def check_response(ctx, hist, kind, handles, result, detail, mds_handles=None, single_mds=True, cfg=None):
    """compare one response with the snapshot of the version it states (the library's reader AND an own reading of the bytes)."""
    cfg = cfg or DEFAULT_CFG
    vg = result.mdib_version_group
    v = vg.mdib_version
    snap = hist.by_version.get(v)
    ctx.count(f'response.{kind}')
    if snap is None:
        ctx.witness(f'response.unknown_version.{kind}', 'response states an MdibVersion the MDIB never had', {**detail, 'stated': v})
        return
    if (vg.sequence_id, vg.instance_id) != (snap['version'][1], snap['version'][2]):
        ctx.witness(f'response.version_group.{kind}', 'SequenceId / InstanceId of the response differ from the MDIB', detail)
    bad = []
    want_states, want_all_descr = expected_selection(snap, kind, handles, cfg)
    got_states = None
    got_d = None
    if kind == 'GetMdib':
        descrs, states = result.result
        got_d = [(d.Handle, canon_descriptor(d)) for d in descrs]
        got_states = [((('ctx', s.Handle) if s.is_context_state else ('state', s.DescriptorHandle)), canon(s)) for s in states]
        want_all_descr = True
    elif kind == 'GetMdDescription':
        node = result.p_msg.msg_node.find(f'{{{MSG_NS}}}MdDescription')
        descrs = result.msg_reader._read_md_description_node(node) if node is not None else []
        got_d = [(d.Handle, canon_descriptor(d)) for d in descrs]
    else:
        states = result.result.MdState.State if kind == 'GetMdState' else result.result.ContextState
        got_states = [((('ctx', s.Handle) if s.is_context_state else ('state', s.DescriptorHandle)), canon(s)) for s in states]
    if got_d is not None:
        want = snap['descr']
        keys = {h for h, _ in got_d}
        if want_all_descr and keys != set(want):
            bad.append(f'descr: selection differs from the MDIB at version {v}: only in response {sorted(keys - set(want))[:3]}, '
                       f'missing {sorted(set(want) - keys)[:3]}')
        if not want_all_descr and got_d:
            bad.append(f'descr: none of the requested handles {handles} exists at version {v}, but the response contains {len(got_d)} descriptors')
        for h, c in got_d:  # every occurrence
            if h not in want:
                if not want_all_descr or kind == 'GetMdDescription':
                    bad.append(f'descr[{h}] in response but not in the MDIB at version {v}')
            elif not tolerant_equal(c, want[h]):
                bad.append(f'descr[{h}] {first_difference(want[h], c)}')
        if len(keys) != len(got_d):
            ctx.count('response.duplicate_entities')
    if got_states is not None:
        keys = {k for k, _ in got_states}
        if keys != set(want_states):
            bad.append(f'selection differs from the one at version {v}: only in response {sorted(keys - set(want_states))[:3]}, '
                       f'missing {sorted(set(want_states) - keys)[:3]}')
        for k, c in got_states:  # every occurrence: a state that is contained twice must be right twice
            if k in want_states and not tolerant_equal(c, want_states[k]):
                bad.append(f'{k} {first_difference(want_states[k], c)}')
        if len(keys) != len(got_states):
            ctx.count('response.duplicate_entities')
    # ---- the bytes, read without the library's message reader
    raw = getattr(result.p_msg, 'raw_data', None)
    if raw:
        try:
            view = wire_view(raw)
        except Exception as ex:  # noqa: BLE001
            view = None
            ctx.count('response.wire_view_failed')
            ctx.extra.setdefault('wire_view_errors', []).append(repr(ex)[:200])
        if view is not None:
            ctx.count('response.wire_checked')
            if view['version'] != (v, vg.sequence_id, vg.instance_id):
                bad.append(f'wire: version group of the message element {view["version"]} is not the one the reader reports {(v, vg.sequence_id, vg.instance_id)}')
            if view['inner'] is not None:
                ctx.count('response.inner_version_group')
                if view['inner'] != view['version']:
                    ctx.witness(f'snapshot.container_version.{kind}', 'msg:Mdib inside the answer states another version group than the answer itself',
                                {**detail, 'answer': view['version'], 'mdib_element': view['inner']})
            cv = snap.get('container_versions')
            if cv is not None:
                for name, got_v, want_v in (('MdDescription/@DescriptionVersion', view['description_version'], cv[0]),
                                            ('MdState/@StateVersion', view['state_version'], cv[1])):
                    if got_v is not None:
                        ctx.count('response.container_version')
                        if got_v != want_v:
                            ctx.witness(f'snapshot.container_version.{kind}', f'{name} of the answer is not the one the MDIB had at the stated version',
                                        {**detail, 'stated_version': v, 'got': got_v, 'want': want_v})
            if got_states is not None:
                wire_keys = {k for k, _, _ in view['states']}
                if wire_keys != set(want_states):
                    bad.append(f'wire: selection differs from the one at version {v}: only in response {sorted(wire_keys - set(want_states))[:3]}, '
                               f'missing {sorted(set(want_states) - wire_keys)[:3]}')
                for k, dv, sv in view['states']:
                    if k in want_states and (dv, sv) != _counters(want_states[k]):
                        bad.append(f'wire: {k} DescriptorVersion/StateVersion {(dv, sv)} != {_counters(want_states[k])} at version {v}')
            if got_d is not None:
                parsed = {h for h, _ in got_d}
                for h, dv in view['descr']:
                    if h in snap['descr'] and h in parsed and dv != _counters(snap['descr'][h])[0]:
                        bad.append(f'wire: descr[{h}] DescriptorVersion {dv} != {_counters(snap["descr"][h])[0]} at version {v}')
                if want_all_descr:
                    missing = set(snap['descr']) - {h for h, _ in view['descr']}
                    if missing:
                        bad.append(f'wire: descriptors missing {sorted(missing)[:3]}')
    if bad:
        ctx.witness(f'snapshot.inconsistent.{kind}', f'{kind} response is not the MDIB content of the MdibVersion it states',
                    {**detail, 'stated_version': v, 'problems': bad[:3]})


# ------------------------------------------------------------------------------------------------
def _requests(mdib):
    cat = mdibops.catalog(mdib)
    metrics = cat['metric'][:2]
    ctx_descr = cat['context'][:1]
    reqs = [('GetMdib', None), ('GetMdDescription', None), ('GetMdDescription', metrics[:1]), ('GetMdState', None), ('GetMdState', metrics),
            ('GetMdState', ctx_descr), ('GetContextStates', None), ('GetContextStates', ctx_descr)]
    if len(cat['mds']) == 1:
        reqs.append(('GetContextStates', cat['mds'][:1]))
    return reqs, cat


def _issue(consumer, kind, handles):
    if kind == 'GetMdib':
        return consumer.client('Get').get_mdib()
    if kind == 'GetMdDescription':
        return consumer.client('Get').get_md_description(handles)
    if kind == 'GetMdState':
        return consumer.client('Get').get_md_state(handles)
    return consumer.client('Context').get_context_states(handles)


def _injections(cat, req_handles, n):
    """foreign transactions relative to the request."""
    metrics = cat['metric']
    req_metric = [h for h in (req_handles or []) if h in metrics] or metrics[:1]
    other = [h for h in metrics if h not in req_metric][:1] or metrics[:1]
    ctx_descr = cat['context'][:1]
    inj = {
        'req_state': {'op': 'metric', 'handles': req_metric[:1], 'iface': 'classic'},
        'other_state': {'op': 'metric', 'handles': other, 'iface': 'entity'},
        'descr_update': {'op': 'descr_update', 'handles': req_metric[:1], 'iface': 'classic'},
        'descr_create': {'op': 'descr_create', 'parent': cat['channel'][0], 'handle': f'inj_{n}', 'with_state': True, 'iface': 'classic'},
    }
    if ctx_descr:
        inj['ctx_new'] = {'op': 'context', 'sub': 'new_assoc', 'descr': ctx_descr[0], 'new_handle': f'injctx_{n}', 'iface': 'classic'}
    if ctx_descr:
        # the context descriptor is re-versioned without touching its states (they are re-versioned implicitly)
        inj['ctx_descr_update'] = {'op': 'descr_update', 'handles': ctx_descr[:1], 'iface': 'classic'}
    if req_handles and any(h in metrics for h in req_handles):
        # the requested descriptor disappears while the request is in progress (it is re-created after the run)
        inj['descr_delete_requested'] = {'op': 'descr_delete', 'handle': req_metric[0], 'iface': 'classic'}
    return inj


def w_explore(ctx: core.Ctx, arg):
    rng = ctx.rng('explore', arg['i'])
    mdib_file = arg['mdib_file']
    world = World(mdib_file, role_provider=False, async_mgr=arg.get('async_mgr', False))
    consumer, _ = world.add_consumer(with_mdib=False)
    consumer2, _ = world.add_consumer(with_mdib=False)   # a second client whose complete request overlaps the request under observation
    mdib = world.mdib
    # some context states to start with
    for h in mdibops.catalog(mdib)['context'][:2]:
        mdibops.apply_op(mdib, {'op': 'context', 'sub': 'new_assoc', 'descr': h, 'new_handle': f'init_{h}', 'seed': 3, 'iface': 'classic'})
    inst = Instrumented(mdib)
    hist = LiveHistory(mdib)
    reqs, cat = _requests(mdib)
    mds_handles = set(cat['mds'])
    counter = itertools.count()
    reqs = [r for k, r in enumerate(reqs) if k % arg['nsplit'] == arg['split']]
    for kind, handles in reqs:
        # dry run: which scheduling points does this request expose?
        points = []
        inst.set_hook(lambda ev, name: points.append((ev, name)))
        res = _issue(consumer, kind, handles)
        inst.clear_hook()
        check_response(ctx, hist, kind, handles, res, {'request': [kind, handles], 'schedule': 'none', 'mdib_file': mdib_file}, mds_handles)
        ctx.extra.setdefault('scheduling_points', {})[f'{kind}:{"all" if not handles else "handles"}'] = [list(p) for p in points]
        ctx.count('explore.scheduling_points', len(points))
        # bounded: a handler that leaves the MDIB lock early exposes every table lookup as a point (hundreds for GetMdib) - first, last and
        # evenly spread ones are enough to see a torn answer, the complete product would run for hours
        chosen = list(range(len(points)))
        if len(chosen) > MAX_POINTS_PER_REQUEST:
            chosen = sorted({round(k * (len(points) - 1) / (MAX_POINTS_PER_REQUEST - 1)) for k in range(MAX_POINTS_PER_REQUEST)})
            ctx.count('explore.points_capped', len(points) - len(chosen))
        for pi, point in enumerate(points):
            if pi not in chosen:
                continue
            n0 = next(counter)
            inj_kinds = list(_injections(cat, handles, n0))
            combos = [(k,) for k in inj_kinds]
            if arg['pairs']:
                combos += [(a, b) for a in inj_kinds for b in inj_kinds if a != b]
            # a transaction followed by a complete request of ANOTHER client (same kind): the handlers are shared by all request threads
            combos += [(a, 'other_get') for a in inj_kinds if a in ('req_state', 'ctx_new', 'descr_update', 'descr_create')]
            for combo in combos:
                n = next(counter)
                inj = _injections(cat, handles, n)
                seen = {'i': -1}

                def hook(ev, name, _combo=combo, _inj=inj, _pi=pi, _seen=seen):
                    _seen['i'] += 1
                    if _seen['i'] != _pi:
                        return
                    for k in _combo:
                        if k == 'other_get':
                            other = _issue(consumer2, kind, handles)
                            ctx.count('explore.injected.other_get')
                            check_response(ctx, hist, kind, handles, other, {'request': [kind, handles], 'schedule': 'nested request of a second client',
                                                                           'mdib_file': mdib_file}, mds_handles)
                            continue
                        op = dict(_inj[k])
                        op['seed'] = rng.randrange(1 << 30)
                        ap = mdibops.apply_op(mdib, op, None)
                        ctx.count(f'explore.injected.{k}')
                        if ap.outcome != 'ok':
                            ctx.count(f'explore.injected_failed.{k}.{ap.outcome}')
                inst.set_hook(hook)
                try:
                    res = _issue(consumer, kind, handles)
                except Exception as ex:  # noqa: BLE001
                    inst.clear_hook()
                    ctx.witness(f'request.failed.{kind}', 'a Get request failed while a transaction was interleaved',
                                {'request': [kind, handles], 'point': list(point), 'injected': list(combo), 'ex': repr(ex)[:300]})
                    continue
                inst.clear_hook()
                if 'descr_delete_requested' in combo:
                    h = inj['descr_delete_requested']['handle']
                    if mdib.descriptions.handle.get_one(h, allow_none=True) is None:
                        mdibops.apply_op(mdib, {'op': 'descr_create', 'parent': cat['channel'][0], 'handle': h, 'with_state': True, 'recreate': True,
                                                'seed': n, 'iface': 'classic'}, None)
                ctx.count('explore.runs')
                ctx.case(('explore', mdib_file, kind, bool(handles), pi, combo))
                check_response(ctx, hist, kind, handles, res,
                               {'request': [kind, handles], 'point_index': pi, 'point': list(point), 'injected': list(combo), 'mdib_file': mdib_file},
                               mds_handles)
        if hist.problems:
            hist.problems.clear()
    if arg['split'] == 0:
        ctx.sample({'kind': 'lock-granularity exploration', 'mdib_file': mdib_file, 'requests': [[k, h] for k, h in reqs],
                    'points_of_first_request': ctx.extra.get('scheduling_points', {})})
    world.stop()


def w_stress(ctx: core.Ctx, arg):
    rng = ctx.rng('stress', arg['i'])
    mdib_file = MDIB_FILES[arg['i'] % len(MDIB_FILES)]
    real = arg.get('transport') == 'real'
    pre = 'stress_real' if real else 'stress'
    world, add, cfg = _mk_world({**arg, 'mdib_file': mdib_file})
    mdib = world.mdib
    readers = [add() for _ in range(arg['readers'])]
    hist = LiveHistory(mdib)
    reqs, cat = _requests(mdib)
    # + an MDS handle of every MDS, unknown / duplicate handles (the state of a deleted metric simply is not selected)
    reqs += [('GetContextStates', [h]) for h in cat['mds'][:2]] + [('GetMdState', cat['metric'][:1] * 2 + cat['context'][:1] + [UNKNOWN]),
                                                                    ('GetMdDescription', [UNKNOWN]), ('GetContextStates', [UNKNOWN] + cat['context'][:2])]
    mds_handles = set(cat['mds'])
    stop = threading.Event()
    old_interval = sys.getswitchinterval()
    sys.setswitchinterval(1e-5)
    lock = threading.Lock()
    responses = []
    errors = []

    def writer(wi):
        r = ctx.rng('stress-writer', arg['i'], wi)
        memo = {}
        weights = {k: v for k, v in mdibops.DEFAULT_WEIGHTS.items() if k in ('metric', 'alert', 'component', 'context', 'descr_update', 'descr_create',
                                                                              'descr_delete', 'operational')}
        n = 0
        while not stop.is_set() and n < arg['max_ops']:
            try:
                with mdib.mdib_lock:  # the generator walks the tables
                    op = mdibops.gen_op(r, mdib, memo, weights)
                if op['op'] == 'descr_create':
                    op['handle'] = f'w{wi}_{op["handle"]}'
                if op['op'] == 'context':
                    op['new_handle'] = f'w{wi}_{op["new_handle"]}'
                mdibops.apply_op(mdib, op, memo)
            except Exception as ex:  # noqa: BLE001
                errors.append(repr(ex))
            n += 1

    def reader(ri):
        r = ctx.rng('stress-reader', arg['i'], ri)
        n = 0
        while n < arg['max_requests']:  # bounded by count, never by wall-clock: a loaded machine must not thin out the observations
            kind, handles = r.choice(reqs)
            try:
                res = _issue(readers[ri], kind, handles)
            except Exception as ex:  # noqa: BLE001
                errors.append(f'{kind}: {ex!r}')
                n += 1
                continue
            with lock:
                responses.append((kind, handles, res))
            n += 1

    threads = [threading.Thread(target=writer, args=(k,), daemon=True) for k in range(arg['writers'])]
    threads += [threading.Thread(target=reader, args=(k,), daemon=True) for k in range(arg['readers'])]
    t0 = time.time()
    for t in threads:
        t.start()
    n_writers = arg['writers']
    while time.time() - t0 < arg['seconds'] * 30 and any(t.is_alive() for t in threads[n_writers:]):  # watchdog only; the readers end after max_requests
        time.sleep(0.05)
    stop.set()  # the writers commit as long as a reader is active
    for t in threads:
        t.join(120)
    sys.setswitchinterval(old_interval)
    if any(t.is_alive() for t in threads):
        ctx.not_decided('stress threads did not finish within the watchdog')
    versions = set()
    for kind, handles, res in responses:
        versions.add(res.mdib_version_group.mdib_version)
        check_response(ctx, hist, kind, handles, res, {'request': [kind, handles], 'schedule': 'thread stress', 'mdib_file': mdib_file,
                                                        'transport': 'real' if real else 'loop'}, mds_handles, cfg=cfg)
    ctx.count(f'{pre}.responses', len(responses))
    ctx.count(f'{pre}.commits', len(hist.by_version))
    ctx.count(f'{pre}.distinct_versions_in_responses', len(versions))
    ctx.case((pre, arg['i'], len(versions) > 3))
    if errors:
        ctx.extra.setdefault('stress_errors', [])
        ctx.extra['stress_errors'] += errors[:5]
        ctx.count(f'{pre}.errors', len(errors))
    world.stop()


# ------------------------------------------------------------------------------------------------
# (3) gate scheduler: several request threads parked at their scheduling points, transactions between any two steps
# (4) writer-side points: a request arrives while a transaction is in the middle of its commit
# ------------------------------------------------------------------------------------------------
STRESS_KINDS = ('metric', 'alert', 'component', 'context', 'descr_update', 'descr_create', 'descr_delete', 'operational', 'rt', 'descr_with_state',
                'descr_parent_child', 'descr_multi')
UNKNOWN = 'c07_no_such_handle'


def _mk_world(arg):
    cfg = {'ctx_in_getmdib': arg.get('ctx_in_getmdib', True)}
    if arg.get('transport') == 'real':
        import uuid

        from sdc11073.consumer.consumerimpl import SdcConsumer
        from sdc11073.definitions_sdc import SdcV1Definitions

        from ..realworld import RealWorld
        world = RealWorld(arg['mdib_file'], async_mgr=arg.get('async_mgr', False), contextstates_in_getmdib=cfg['ctx_in_getmdib'],
                          chunk_size=arg.get('chunk_size', 0))

        def add():
            # the default socket timeout (5 s) is wall-clock: a parked request on a loaded machine must not run into it
            consumer = SdcConsumer(world.provider_address, SdcV1Definitions, None, socket_timeout=900, request_chunk_size=arg.get('chunk_size', 0),
                                   epr=uuid.UUID(int=0x7000 + len(world.consumers)))
            consumer.start_all()
            world.consumers.append(consumer)
            return consumer
    else:
        world = World(arg['mdib_file'], role_provider=False, async_mgr=arg.get('async_mgr', False), contextstates_in_getmdib=cfg['ctx_in_getmdib'])

        def add():
            return world.add_consumer(with_mdib=False)[0]
    return world, add, cfg


class _Env:
    """names of one run: what the requests ask for and what the transactions touch."""

    def __init__(self, cat, n, init_ctx):
        self.cat = cat
        self.n = n
        self.metric = cat['metric'][0]
        self.metric2 = cat['metric'][1 % len(cat['metric'])]
        self.other_metric = cat['metric'][-1]
        self.ctx_descr = cat['context'][0] if cat['context'] else None
        self.ctx_descr2 = cat['context'][1] if len(cat['context']) > 1 else self.ctx_descr
        self.ctx_state = init_ctx[0] if init_ctx else None
        self.future_descr = f'fut_{n}'
        self.future_ctx = f'futctx_{n}'
        self.victim = f'vic_{n}'
        self.victim_ctx = f'vicctx_{n}'
        self.created_descr = []
        self.created_ctx = []
        self.j = 0

    def resolve(self, handles):
        if handles is None:
            return None
        table = {'@metric': self.metric, '@metric2': self.metric2, '@ctx_descr': self.ctx_descr, '@ctx_descr2': self.ctx_descr2,
                 '@ctx_state': self.ctx_state, '@fut': self.future_descr, '@futctx': self.future_ctx, '@vic': self.victim,
                 '@vicctx': self.victim_ctx, '@unknown': UNKNOWN}
        out = []
        for h in handles:
            if h.startswith('@mds'):
                out.append(self.cat['mds'][int(h[4:] or 0) % len(self.cat['mds'])])
            else:
                out.append(table.get(h, h))
        return [h for h in out if h is not None]


# request templates: (kind, handles with placeholders)
REQUEST_TEMPLATES = [
    ('GetMdib', None), ('GetMdDescription', None), ('GetMdState', None), ('GetContextStates', None),
    ('GetMdDescription', ['@metric']), ('GetMdState', ['@metric', '@metric2']), ('GetMdState', ['@ctx_descr']), ('GetContextStates', ['@ctx_descr']),
    ('GetContextStates', ['@mds0']), ('GetContextStates', ['@mds1']),
    # a context STATE handle
    ('GetMdState', ['@ctx_state']), ('GetContextStates', ['@ctx_state']),
    # mixed / duplicate / unknown handles
    ('GetMdState', ['@metric', '@metric', '@ctx_descr', '@ctx_state', '@unknown']), ('GetContextStates', ['@ctx_descr', '@ctx_state', '@unknown', '@ctx_descr2']),
    ('GetMdDescription', ['@unknown']), ('GetMdDescription', ['@unknown', '@metric']), ('GetMdState', ['@unknown']), ('GetContextStates', ['@unknown']),
    # handles that are created / deleted while the request is in progress
    ('GetMdDescription', ['@fut']), ('GetMdState', ['@fut']), ('GetMdState', ['@fut', '@metric']), ('GetMdState', ['@futctx']), ('GetContextStates', ['@futctx']),
    ('GetContextStates', ['@futctx', '@ctx_state']),
    ('GetMdDescription', ['@vic']), ('GetMdState', ['@vic']), ('GetMdState', ['@vicctx']), ('GetContextStates', ['@vicctx']), ('GetMdState', ['@vic', '@vicctx', '@fut']),
]
N_BASE_TEMPLATES = 10
TX_KINDS = ['req_state', 'other_state', 'descr_update', 'descr_with_state', 'descr_create', 'descr_delete_victim', 'ctx_new', 'ctx_update', 'ctx_descr_update',
            'ctx_delete_victim', 'alert', 'component', 'gen']


def _relevant_tx(handles):
    """transaction kinds that change what this request selects / contains."""
    hs = handles or []
    out = []
    if any(h in ('@fut',) for h in hs):
        out.append('descr_create')
    if any(h == '@futctx' for h in hs):
        out.append('ctx_new')
    if any(h == '@vic' for h in hs):
        out.append('descr_delete_victim')
    if any(h == '@vicctx' for h in hs):
        out.append('ctx_delete_victim')
    if not out:
        out = ['req_state', 'descr_update', 'ctx_new', 'ctx_update', 'ctx_descr_update', 'descr_create', 'descr_with_state']
    return out


def _mk_op(kind, env: _Env, rng, mdib, memo):
    env.j += 1
    seed = rng.randrange(1 << 30)
    cat = env.cat
    if kind == 'req_state':
        return {'op': 'metric', 'handles': [env.metric], 'iface': 'classic', 'seed': seed}
    if kind == 'other_state':
        return {'op': 'metric', 'handles': [env.other_metric], 'iface': 'entity', 'seed': seed}
    if kind == 'descr_update':
        return {'op': 'descr_update', 'handles': [env.metric], 'iface': rng.choice(['classic', 'entity']), 'seed': seed}
    if kind == 'descr_with_state':
        return {'op': 'descr_with_state', 'handle': env.metric, 'order': rng.choice(['descr_first', 'state_first']), 'iface': 'classic', 'seed': seed}
    if kind == 'descr_create':
        h = env.future_descr if env.future_descr not in env.created_descr else f'{env.future_descr}_{env.j}'
        env.created_descr.append(h)
        return {'op': 'descr_create', 'parent': cat['channel'][0], 'handle': h, 'with_state': True, 'iface': rng.choice(['classic', 'entity']), 'seed': seed}
    if kind == 'descr_delete_victim':
        if env.victim not in env.created_descr:
            return None
        env.created_descr.remove(env.victim)
        return {'op': 'descr_delete', 'handle': env.victim, 'iface': rng.choice(['classic', 'entity']), 'seed': seed}
    if kind == 'ctx_new' and env.ctx_descr:
        h = env.future_ctx if env.future_ctx not in env.created_ctx else f'{env.future_ctx}_{env.j}'
        env.created_ctx.append(h)
        return {'op': 'context', 'sub': rng.choice(['new', 'new_assoc']), 'descr': env.ctx_descr, 'new_handle': h, 'iface': rng.choice(['classic', 'entity']),
                'seed': seed}
    if kind == 'ctx_update' and env.ctx_state:
        return {'op': 'context', 'sub': 'update', 'descr': env.ctx_descr, 'handles': [env.ctx_state], 'iface': rng.choice(['classic', 'entity']), 'seed': seed}
    if kind == 'ctx_descr_update' and env.ctx_descr:
        return {'op': 'descr_update', 'handles': [env.ctx_descr], 'iface': 'classic', 'seed': seed}
    if kind == 'ctx_delete_victim' and env.ctx_descr:
        if env.victim_ctx not in env.created_ctx:
            return None
        env.created_ctx.remove(env.victim_ctx)
        return {'op': 'ctx_delete', 'sub': 'delete', 'descr': env.ctx_descr, 'victims': [env.victim_ctx], 'iface': 'entity', 'seed': seed}
    if kind in ('alert', 'component') and cat[kind]:
        return {'op': kind, 'handles': [rng.choice(cat[kind])], 'iface': rng.choice(['classic', 'entity']), 'seed': seed}
    if kind == 'gen':
        weights = {k: v for k, v in mdibops.DEFAULT_WEIGHTS.items() if k in STRESS_KINDS}
        with mdib.mdib_lock:
            op = mdibops.gen_op(rng, mdib, memo, weights)
        if op['op'] == 'descr_create':
            op['handle'] = f'g{env.n}_{env.j}_{op["handle"]}'
        if op['op'] == 'context':
            op['new_handle'] = f'g{env.n}_{env.j}_{op["new_handle"]}'
        return op
    return None


class _SchedRig:
    """one world with gate locks, consumers, history; runs schedules."""

    def __init__(self, ctx, arg):
        self.ctx = ctx
        self.arg = arg
        self.world, add, self.cfg = _mk_world(arg)
        self.consumers = [add() for _ in range(arg.get('consumers', 3))]
        self.mdib = self.world.mdib
        self.init_ctx = []
        for h in mdibops.catalog(self.mdib)['context'][:2]:
            ap = mdibops.apply_op(self.mdib, {'op': 'context', 'sub': 'new_assoc', 'descr': h, 'new_handle': f'init_{h}', 'seed': 3, 'iface': 'classic'})
            if ap.outcome == 'ok':
                self.init_ctx.append(f'init_{h}')
        self.cat = mdibops.catalog(self.mdib)
        self.sched = Sched(self.mdib)
        self.hist = LiveHistory(self.mdib)
        self.hist.sched = self.sched
        self.memo = {}
        self.n = 0
        self.garbage_ctx = []
        self.dirty = False
        self.transport = arg.get('transport', 'loop')

    def applicable(self, tpl):
        kind, handles = tpl
        for h in handles or []:
            if h.startswith('@ctx') or h in ('@futctx', '@vicctx'):
                if not self.cat['context']:
                    return False
            if h == '@mds1' and len(self.cat['mds']) < 2:
                return False
        return True

    def tx(self, kind, env, rng, where):
        op = _mk_op(kind, env, rng, self.mdib, self.memo)
        if op is None:
            self.ctx.count(f'{where}.tx_skipped.{kind}')
            return None
        ap = mdibops.apply_op(self.mdib, op, self.memo if kind == 'gen' else None)
        self.ctx.count(f'{where}.tx.{kind}')
        if ap.outcome != 'ok':
            self.ctx.count(f'{where}.tx_failed.{kind}.{ap.outcome}')
        if kind == 'gen':
            self.dirty = True
            if ap.outcome == 'ok':
                env.created_descr += [h for h in ap.created if h not in env.created_descr]
        return ap

    def setup(self, env, templates, tokens):
        used = {h for _, hs in templates for h in (hs or [])} | {t[1] for t in tokens if t[0] == 'T'}
        steps = []
        if '@vic' in used or 'descr_delete_victim' in used:
            ap = mdibops.apply_op(self.mdib, {'op': 'descr_create', 'parent': self.cat['channel'][0], 'handle': env.victim, 'with_state': True,
                                              'iface': 'classic', 'seed': env.n})
            if ap.outcome == 'ok':
                env.created_descr.append(env.victim)
        if env.ctx_descr and ('@vicctx' in used or 'ctx_delete_victim' in used):
            ap = mdibops.apply_op(self.mdib, {'op': 'context', 'sub': 'new', 'descr': env.ctx_descr, 'new_handle': env.victim_ctx, 'iface': 'classic',
                                              'seed': env.n})
            if ap.outcome == 'ok':
                env.created_ctx.append(env.victim_ctx)
        return steps

    def cleanup(self, env):
        """keep the MDIB small: what a run created is removed again (one descriptor transaction; context states in bulk from time to time)."""
        have = [h for h in dict.fromkeys(env.created_descr) if self.mdib.descriptions.handle.get_one(h, allow_none=True) is not None]
        if have:
            mdibops.apply_op(self.mdib, {'op': 'descr_multi', 'sub': 'cleanup', 'steps': [['delete', h] for h in have], 'seed': 0, 'iface': 'classic'})
        self.garbage_ctx += env.created_ctx
        if len(self.garbage_ctx) >= 12 and env.ctx_descr:
            by_descr = {}
            for h in self.garbage_ctx:
                st = self.mdib.context_states.handle.get_one(h, allow_none=True)
                if st is not None:
                    by_descr.setdefault(st.DescriptorHandle, []).append(h)
            for d, victims in by_descr.items():
                mdibops.apply_op(self.mdib, {'op': 'ctx_delete', 'sub': 'delete', 'descr': d, 'victims': victims, 'iface': 'entity', 'seed': 0})
            self.garbage_ctx = []
        # the history only needs the versions a response of this run can state
        if len(self.hist.by_version) > 64:
            for v in sorted(self.hist.by_version)[:-8]:
                del self.hist.by_version[v]

    def refresh(self):
        """a random transaction may have removed what the templates name: look again."""
        self.cat = mdibops.catalog(self.mdib)
        self.init_ctx = []
        for h in self.cat['context'][:2]:
            if self.mdib.context_states.handle.get_one(f'init_{h}', allow_none=True) is None:
                mdibops.apply_op(self.mdib, {'op': 'context', 'sub': 'new_assoc', 'descr': h, 'new_handle': f'init_{h}', 'seed': 3, 'iface': 'classic'})
            if self.mdib.context_states.handle.get_one(f'init_{h}', allow_none=True) is not None:
                self.init_ctx.append(f'init_{h}')
        self.dirty = False

    def run(self, templates, tokens, rng, where, shape):
        """templates: one request per reader; tokens: ('R', i) one segment of reader i | ('T', kind) a complete transaction."""
        ctx = self.ctx
        if self.dirty:
            self.refresh()
        self.n += 1
        env = _Env(self.cat, f'{self.arg["i"]}_{self.n}', self.init_ctx)
        self.setup(env, templates, tokens)
        reqs = [(kind, env.resolve(handles)) for kind, handles in templates]
        sched = self.sched
        actors = []
        for i, (kind, handles) in enumerate(reqs):
            actors.append(Actor(f'r{i}', 'reader', lambda c=self.consumers[i], k=kind, h=handles: _issue(c, k, h)))
        sched.begin()
        done_tokens = []
        try:
            for tok in tokens:
                if tok[0] == 'T':
                    in_flight = sum(1 for a in actors if a.state == 'parked')
                    self.tx(tok[1], env, rng, where)
                    if in_flight:
                        ctx.count(f'{where}.tx_while_requests_in_flight')
                        if in_flight > 1:
                            ctx.count(f'{where}.tx_while_2plus_requests_in_flight')
                else:
                    sched.step(actors[tok[1]])
                done_tokens.append(tok)
                if sched.stuck:
                    break
            sched.drain(actors)
        finally:
            sched.end()
        if sched.stuck:
            ctx.not_decided(f'{where}: scheduler watchdog: {sched.stuck[:2]}')
            sched.stuck.clear()
            return False
        ctx.count(f'{where}.runs')
        ctx.count(f'{where}.runs.readers_{len(actors)}')
        ntx = sum(1 for t in tokens if t[0] == 'T')
        ctx.count(f'{where}.runs.tx_{min(ntx, 4)}')
        ctx.case((where, self.arg['mdib_file'], self.transport, shape))
        for i, a in enumerate(actors):
            kind, handles = reqs[i]
            detail = {'request': [kind, handles], 'template': list(templates[i]), 'schedule': [list(t) for t in tokens], 'reader': i,
                      'points': [list(p) for p in a.points], 'mdib_file': self.arg['mdib_file'], 'transport': self.transport}
            ctx.count(f'{where}.reader_points', len(a.points))
            if a.exception is not None:
                ctx.witness(f'request.failed.{kind}', 'a Get request failed while transactions / other requests were interleaved',
                            {**detail, 'ex': repr(a.exception)[:300]})
                continue
            check_response(ctx, self.hist, kind, handles, a.result, detail, cfg=self.cfg)
        if self.hist.problems:
            self.hist.problems.clear()
        self.cleanup(env)
        return True

    def stop(self):
        self.world.stop()


def _interleavings(counts):
    """all merges of the readers' step sequences: counts = [3, 3] -> 20 sequences of reader indices."""
    out = []

    def rec(rest, acc):
        if not any(rest):
            out.append(tuple(acc))
            return
        for i, c in enumerate(rest):
            if c:
                rest[i] -= 1
                acc.append(i)
                rec(rest, acc)
                acc.pop()
                rest[i] += 1
    rec(list(counts), [])
    return out


def _directed_schedules(rig, rng, thorough):
    """(templates, tokens, shape) - always executed."""
    T = [t for t in REQUEST_TEMPLATES if rig.applicable(t)]
    out = []
    # a) every template, one reader, one relevant transaction before the critical section and one after it
    for ti, tpl in enumerate(T):
        rel = _relevant_tx(tpl[1])
        for kind in (rel if (thorough or ti >= N_BASE_TEMPLATES) else rel[:2]):
            for slot in (1, 2):
                toks = [('R', 0)] * 3
                toks.insert(slot, ('T', kind))
                out.append(([tpl], toks, ('single', ti, kind, slot)))
    # b) k = 3, 4 transactions spread over DIFFERENT points of one request
    for ti, tpl in enumerate(T):
        rel = _relevant_tx(tpl[1])
        kinds = [rel[k % len(rel)] for k in range(2)] + ['other_state', 'gen']
        out.append(([tpl], [('T', kinds[2]), ('R', 0), ('T', kinds[0]), ('R', 0), ('T', kinds[1]), ('T', kinds[3]), ('R', 0)], ('spread4', ti)))
        out.append(([tpl], [('R', 0), ('T', kinds[0]), ('T', kinds[3]), ('T', kinds[1]), ('R', 0), ('R', 0)], ('three_before', ti)))
    # c) two overlapping requests (same and different kinds) around a transaction: the 'version kept in shared handler state' class
    pairs = [(a, a) for a in T[:8]] + [(T[i], T[(i + 3) % len(T)]) for i in range(len(T))]
    for pi, (a, b) in enumerate(pairs):
        rel = _relevant_tx(a[1])
        k = rel[pi % len(rel)]
        out.append(([a, b], [('R', 0), ('R', 0), ('T', k), ('R', 1), ('R', 1), ('R', 1), ('R', 0)], ('pair_a', pi, k)))
        out.append(([a, b], [('R', 0), ('R', 1), ('R', 0), ('R', 1), ('T', k), ('R', 1), ('R', 0)], ('pair_b', pi, k)))
        if thorough:
            out.append(([a, b], [('R', 0), ('R', 1), ('T', k), ('R', 0), ('R', 1), ('T', 'gen'), ('R', 0), ('R', 1)], ('pair_c', pi, k)))
    # d) three overlapping requests
    for ti in range(0, len(T), 3 if not thorough else 1):
        trio = [T[ti], T[(ti + 5) % len(T)], T[(ti + 11) % len(T)]]
        k = _relevant_tx(trio[0][1])[0]
        out.append((trio, [('R', 0), ('R', 1), ('R', 2), ('R', 0), ('R', 1), ('T', k), ('R', 2), ('T', 'req_state'), ('R', 0), ('R', 1), ('R', 2)],
                    ('trio', ti, k)))
    return out


def _enumerated_pair_schedules(rig, tpl_a, tpl_b, kind):
    """2 requests x 1 transaction: every interleaving of the six reader segments x every slot of the transaction (140)."""
    out = []
    for il in _interleavings([3, 3]):
        for slot in range(1, 6):  # slot 0 and 6: no request in flight = sequential
            toks = [('R', i) for i in il]
            toks.insert(slot, ('T', kind))
            out.append(([tpl_a, tpl_b], toks, ('enum', REQUEST_TEMPLATES.index(tpl_a), REQUEST_TEMPLATES.index(tpl_b), kind, il, slot)))
    return out


def _random_schedule(rig, rng):
    T = [t for t in REQUEST_TEMPLATES if rig.applicable(t)]
    nreaders = rng.choice([1, 1, 2, 2, 2, 3])
    templates = [rng.choice(T) for _ in range(nreaders)]
    il = [i for i in range(nreaders) for _ in range(3)]
    rng.shuffle(il)
    toks = [('R', i) for i in il]
    ntx = rng.choice([1, 2, 2, 3, 3, 4])
    rel = [k for tpl in templates for k in _relevant_tx(tpl[1])]
    for _ in range(ntx):
        kind = rng.choice(rel) if rng.random() < 0.6 else rng.choice(TX_KINDS)
        toks.insert(rng.randrange(1, len(toks)), ('T', kind))
    shape = ('random', tuple(REQUEST_TEMPLATES.index(t) for t in templates), tuple(t[1] for t in toks))
    return templates, toks, shape


def w_sched(ctx: core.Ctx, arg):
    """share `split` of `nsplit` of the directed schedules + `random` seeded random ones (+ an enumerated block)."""
    rng = ctx.rng('sched', arg['i'])
    rig = _SchedRig(ctx, arg)
    where = 'sched' if arg.get('transport', 'loop') == 'loop' else 'sched_real'
    try:
        directed = _directed_schedules(rig, rng, arg.get('thorough', False))
        todo = [d for k, d in enumerate(directed) if k % arg['nsplit'] == arg['split']]
        for e in arg.get('enumerate', []):
            block = _enumerated_pair_schedules(rig, REQUEST_TEMPLATES[e[0]], REQUEST_TEMPLATES[e[1]], e[2])
            todo += [b for k, b in enumerate(block) if k % e[4] == e[3]]
        for _ in range(arg.get('random', 0)):
            todo.append(_random_schedule(rig, rng))
        for templates, tokens, shape in todo:
            if not all(rig.applicable(t) for t in templates):
                continue
            if not rig.run(templates, tokens, rng, where, shape):
                break
        if arg['split'] == 0:
            ctx.sample({'kind': 'gate scheduler', 'mdib_file': arg['mdib_file'], 'transport': rig.transport, 'schedules': len(todo),
                        'first': [[list(t) for t in todo[0][0]], [list(t) for t in todo[0][1]]] if todo else None})
    finally:
        rig.stop()


def w_midcommit(ctx: core.Ctx, arg):
    """a request arrives while a transaction is parked at a point INSIDE its commit (it holds the MDIB lock): the reader has to wait (or,
    if it does not, must still answer with the content of a committed version)."""
    rng = ctx.rng('midcommit', arg['i'])
    rig = _SchedRig(ctx, arg)
    where = 'midcommit' if arg.get('transport', 'loop') == 'loop' else 'midcommit_real'
    sched = rig.sched
    try:
        T = [t for t in REQUEST_TEMPLATES if rig.applicable(t)]
        combos = []
        for ti, tpl in enumerate(T):
            for kind in _relevant_tx(tpl[1])[:arg.get('tx_per_template', 2)]:
                combos.append((tpl, kind))
        combos = [c for k, c in enumerate(combos) if k % arg['nsplit'] == arg['split']]
        for tpl, kind in combos:
            # dry run: how many points does the commit of this transaction expose?
            npoints = None
            for pi in [None] + list(range(arg.get('points_cap', 6))):
                rig.n += 1
                env = _Env(rig.cat, f'{arg["i"]}_{rig.n}', rig.init_ctx)
                toks = [('T', kind)]
                rig.setup(env, [tpl], toks)
                op = _mk_op(kind, env, rng, rig.mdib, rig.memo)
                if op is None:
                    break
                rkind, handles = tpl[0], env.resolve(tpl[1])
                writer = Actor('w', 'writer', lambda o=op: mdibops.apply_op(rig.mdib, o, None))
                reader = Actor('r', 'reader', lambda k=rkind, h=handles: _issue(rig.consumers[0], k, h))
                actors = [writer, reader]
                sched.begin()
                try:
                    if pi is None:
                        sched.drain([writer])
                        npoints = len(writer.points)
                        ctx.count(f'{where}.writer_points', npoints)
                    else:
                        # evenly spread over the commit, first and last point always
                        cap = arg.get('points_cap', 6)
                        target = pi if npoints <= cap else round(pi * (npoints - 1) / (cap - 1))
                        if target >= npoints:
                            sched.end()
                            rig.cleanup(env)
                            break
                        for _ in range(target + 1):
                            sched.step(writer)
                        holds = writer.state == 'parked'
                        steps = 0
                        while reader.state not in ('blocked', 'done') and steps < 12:
                            sched.step(reader)
                            steps += 1
                        if holds:
                            ctx.count(f'{where}.reader_blocked' if reader.state == 'blocked' else f'{where}.reader_not_blocked')
                        sched.drain(actors)
                finally:
                    sched.end()
                if sched.stuck:
                    ctx.not_decided(f'{where}: scheduler watchdog: {sched.stuck[:2]}')
                    sched.stuck.clear()
                    return
                if pi is not None:
                    ctx.count(f'{where}.runs')
                    ctx.case((where, arg['mdib_file'], REQUEST_TEMPLATES.index(tpl), kind, pi))
                    detail = {'request': [rkind, handles], 'template': list(tpl), 'transaction': kind, 'writer_point': [target, list(writer.points[target]) if target < len(writer.points) else None],
                              'writer_points': npoints, 'reader_was_blocked': reader.was_blocked, 'mdib_file': arg['mdib_file'], 'transport': rig.transport}
                    if reader.exception is not None:
                        ctx.witness(f'request.failed.{rkind}', 'a Get request failed while a transaction was committing', {**detail, 'ex': repr(reader.exception)[:300]})
                    else:
                        check_response(ctx, rig.hist, rkind, handles, reader.result, detail, cfg=rig.cfg)
                    if writer.exception is not None or (writer.result is not None and writer.result.outcome != 'ok'):
                        ctx.count(f'{where}.writer_failed')
                rig.cleanup(env)
        if rig.hist.problems:
            rig.hist.problems.clear()
    finally:
        rig.stop()


def run(ctx: core.Ctx):
    ctx.rule = ('explorer: request kind x scheduling point x injected transaction combination (k=1 always, k=2 pairs in thorough and for one MDIB in '
                'quick), enumerated completely (at most 8 points per request); distinct = (mdib, request, point index, combination).  '
                'gate scheduler: 1-3 request threads (29 request templates incl. handles that are created / deleted during the request) parked at '
                'their points, 1-4 transactions between any two steps: directed list + seeded random (+ complete 2 requests x 1 transaction blocks in '
                'thorough); distinct = (mdib, transport, schedule shape).  mid-commit: request x transaction x point inside the commit.  '
                'stress: threads (loop-back and real sockets), every response checked')
    q = ctx.quick
    jobs = []
    files = MDIB_FILES[:2] if q else MDIB_FILES
    for fi, f in enumerate(files):
        nsplit = 6 if (fi == 0 or not q) else 4  # the jobs with pairs are the longest of the tier: split finer (critical path of the fan-out)
        for split in range(nsplit):
            jobs.append(['w_explore', {'i': fi * 8 + split, 'mdib_file': f, 'split': split, 'nsplit': nsplit, 'pairs': (fi == 0) or not q,
                                       'async_mgr': fi % 2 == 1}])
    for k in range(4 if q else 16):
        jobs.append(['w_stress', {'i': k, 'writers': 3, 'readers': 3, 'seconds': 6 if q else 120, 'max_ops': 100000,
                                  'max_requests': 150 if q else 1000}])  # (3000 requests per reader: the per-commit snapshots of one job need > 10 GB)
    if q:
        two = 'mdib_two_mds.xml'
        one = MDIB_FILES[0]
        jobs += [['w_sched', {'i': 100, 'mdib_file': one, 'split': 0, 'nsplit': 2, 'random': 15}],
                 ['w_sched', {'i': 101, 'mdib_file': one, 'split': 1, 'nsplit': 2, 'random': 15, 'async_mgr': True}],
                 ['w_sched', {'i': 102, 'mdib_file': two, 'split': 0, 'nsplit': 2, 'random': 15}],
                 ['w_sched', {'i': 103, 'mdib_file': two, 'split': 1, 'nsplit': 2, 'random': 15, 'ctx_in_getmdib': False}],
                 ['w_sched', {'i': 104, 'mdib_file': one, 'split': 0, 'nsplit': 3, 'random': 10, 'transport': 'real'}],
                 ['w_midcommit', {'i': 110, 'mdib_file': one, 'split': 0, 'nsplit': 1, 'tx_per_template': 1, 'points_cap': 5}],
                 ['w_midcommit', {'i': 111, 'mdib_file': two, 'split': 0, 'nsplit': 1, 'tx_per_template': 1, 'points_cap': 3, 'transport': 'real',
                                  'async_mgr': True}],
                 ['w_stress', {'i': 120, 'writers': 2, 'readers': 3, 'seconds': 6, 'max_ops': 100000, 'max_requests': 60, 'transport': 'real'}]]
    else:
        n = 200
        for fi, f in enumerate(MDIB_FILES):
            for split in range(4):
                arg = {'i': n, 'mdib_file': f, 'split': split, 'nsplit': 4, 'random': 120, 'thorough': True, 'async_mgr': (fi + split) % 2 == 1,
                       'ctx_in_getmdib': not (split == 3)}
                # complete blocks: 2 requests x 1 transaction, every interleaving x every slot
                blocks = [[5, 5, 'req_state'], [7, 11, 'ctx_update'], [3, 22, 'ctx_new'], [19, 4, 'descr_create'], [0, 2, 'descr_with_state'],
                          [25, 24, 'descr_delete_victim'], [27, 26, 'ctx_delete_victim'], [1, 18, 'descr_create']]
                arg['enumerate'] = [blocks[(fi * 2) % len(blocks)] + [split, 4], blocks[(fi * 2 + 1) % len(blocks)] + [split, 4]]
                jobs.append(['w_sched', arg])
                n += 1
            for split in range(2):
                jobs.append(['w_midcommit', {'i': n, 'mdib_file': f, 'split': split, 'nsplit': 2, 'tx_per_template': 3, 'points_cap': 40,
                                             'async_mgr': split == 1}])
                n += 1
        for fi, f in enumerate(MDIB_FILES[:3]):
            jobs.append(['w_sched', {'i': n, 'mdib_file': f, 'split': fi, 'nsplit': 3, 'random': 150, 'thorough': True, 'transport': 'real',
                                     'async_mgr': fi == 1, 'chunk_size': 512 if fi == 2 else 0}])
            jobs.append(['w_midcommit', {'i': n + 1, 'mdib_file': f, 'split': 0, 'nsplit': 1, 'tx_per_template': 2, 'points_cap': 12, 'transport': 'real',
                                         'async_mgr': fi != 1}])
            n += 2
        for k in range(4):
            jobs.append(['w_stress', {'i': 120 + k, 'writers': 3, 'readers': 3, 'seconds': 120, 'max_ops': 100000, 'max_requests': 300, 'transport': 'real',
                                      'async_mgr': k % 2 == 1, 'chunk_size': 256 if k == 3 else 0}])
    core.fanout(ctx, MODULE, 'dispatch', jobs, timeout=3000)
    ctx.exhaustive = True
    ctx.extra['exhaustive_part'] = ('lock-granularity schedules of ONE request within the stated bounds (sub-check 1) and the directed schedule list of the gate '
                                    'scheduler; random schedules, mid-commit points beyond the cap and the thread stress are sampled')
    ctx.floor('explore.runs', 300)
    ctx.floor('stress.responses', 200)
    ctx.floor('explore.scheduling_points', 20)
    ctx.floor('sched.runs', 300 if q else 2000)
    ctx.floor('sched.tx_while_requests_in_flight', 300 if q else 2000)
    ctx.floor('sched.tx_while_2plus_requests_in_flight', 60 if q else 600)
    ctx.floor('sched.runs.readers_3', 10)
    ctx.floor('sched.runs.tx_4', 20)
    ctx.floor('midcommit.reader_blocked', 60 if q else 800)
    ctx.floor('sched_real.runs', 40 if q else 400)
    ctx.floor('midcommit_real.reader_blocked', 20 if q else 150)
    ctx.floor('stress_real.responses', 100 if q else 2000)
    ctx.floor('response.wire_checked', 2000)
    ctx.assumptions += ['a foreign transaction run synchronously at a point where the reader does not hold the MDIB lock is equivalent to a writer '
                        'thread being scheduled there (a transaction holds the MDIB lock from begin to end)',
                        'gate scheduler: exactly one thread runs between two scheduling points (lock events of the MDIB lock and the table locks); '
                        'schedules that differ only inside such a segment are not distinguished',
                        'selection rules of the reference: the ones the handlers document (BICEPS message model; R5042 by parent chain)']


def dispatch(ctx: core.Ctx, job):
    c0 = time.process_time()
    try:
        globals()[job[0]](ctx, job[1])
    finally:
        # CPU seconds per job (information for balancing the jobs only - nothing is decided on it)
        ctx.extra.setdefault('job_cpu_s', []).append(f'{job[0]}:{job[1].get("i")}:{job[1].get("transport", "loop")}={time.process_time() - c0:.1f}')
