"""C07 - Get responses are consistent snapshots under concurrent transactions.

(1) lock-granularity explorer: every scheduling point a Get request exposes (before / after each outermost acquire of the MDIB
    lock and of the table locks, while the reader does not hold the MDIB lock) x 1..2 complete foreign transactions of several
    kinds, run synchronously at that point (deterministic, enumerated completely).
(2) stress: reader and writer threads with a tiny switch interval.
Oracle: the per-version snapshot history recorded inside the commit critical section; every entity in a response must have the
content / counters of ``by_version[v]`` for the MdibVersion v stated in the response, and the selected set must be the one that
existed at v.  Requests go through the real consumer service clients over the loop-back transport.
"""
from __future__ import annotations

import itertools
import sys
import threading
import time

from sdc11073 import observableproperties as properties

from .. import core, mdibops
from ..history import History, canon, canon_descriptor, first_difference, tolerant_equal
from ..mdibharness import MDIB_FILES, World
from ..sched import Instrumented

MODULE = 'vf.props.c07'


class LiveHistory(History):
    """records inside the commit critical section (transaction observable fires while the MDIB lock is held)."""

    def __init__(self, mdib):
        self.lock = threading.Lock()
        super().__init__(mdib)
        properties.strongbind(mdib, transaction=self._on_commit)

    def _on_commit(self, tr):
        if self.mdib.mdib_version not in self.by_version:
            with self.lock:
                self.record()


def check_response(ctx, hist, kind, handles, result, detail, mds_handles, single_mds=True):
    """compare one response with the snapshot of the version it states."""
    vg = result.mdib_version_group
    v = vg.mdib_version
    snap = hist.by_version.get(v)
    ctx.count(f'response.{kind}')
    if snap is None:
        ctx.witness(f'response.unknown_version.{kind}', 'response states an MdibVersion the MDIB never had', {**detail, 'stated': v})
        return
    if (vg.sequence_id, vg.instance_id) != (snap['version'][1], snap['version'][2]):
        ctx.witness(f'response.version_group.{kind}', 'SequenceId / InstanceId of the response differ from the MDIB', detail)
    bad = []
    if kind == 'GetMdib':
        descrs, states = result.result
        got_d = {d.Handle: canon_descriptor(d) for d in descrs}
        got_s = {s.DescriptorHandle: canon(s) for s in states if not s.is_context_state}
        got_c = {s.Handle: canon(s) for s in states if s.is_context_state}
        for name, got, want in (('descr', got_d, snap['descr']), ('states', got_s, snap['states']), ('ctx', got_c, snap['ctx'])):
            if set(got) != set(want):
                bad.append(f'{name}: selection differs from the MDIB at version {v}: only in response {sorted(set(got) - set(want))[:3]}, '
                           f'missing {sorted(set(want) - set(got))[:3]}')
            for h in set(got) & set(want):
                if not tolerant_equal(got[h], want[h]):
                    bad.append(f'{name}[{h}] {first_difference(want[h], got[h])}')
    elif kind == 'GetMdDescription':
        node = result.p_msg.msg_node.find('{http://standards.ieee.org/downloads/11073/11073-10207-2017/message}MdDescription')
        descrs = result.msg_reader._read_md_description_node(node) if node is not None else []
        got_d = {d.Handle: canon_descriptor(d) for d in descrs}
        want = snap['descr']
        expect_all = not handles or any(h in want for h in handles)
        if expect_all and set(got_d) != set(want):
            bad.append(f'descr: selection differs from the MDIB at version {v}: only in response {sorted(set(got_d) - set(want))[:3]}, '
                       f'missing {sorted(set(want) - set(got_d))[:3]}')
        if not expect_all and got_d:
            bad.append(f'descr: none of the requested handles {handles} exists at version {v}, but the response contains {len(got_d)} descriptors')
        for h in set(got_d) & set(want):
            if not tolerant_equal(got_d[h], want[h]):
                bad.append(f'descr[{h}] {first_difference(want[h], got_d[h])}')
        for h in set(got_d) - set(want):
            bad.append(f'descr[{h}] in response but not in the MDIB at version {v}')
    else:
        states = result.result.MdState.State if kind == 'GetMdState' else result.result.ContextState
        got = {}
        for s in states:
            key = ('ctx', s.Handle) if s.is_context_state else ('state', s.DescriptorHandle)
            got[key] = canon(s)
        want = {}
        if kind == 'GetMdState':
            if not handles:
                want = {('state', h): c for h, c in snap['states'].items()}
                want.update({('ctx', h): c for h, c in snap['ctx'].items()})
            else:
                for h in handles:
                    if h in snap['ctx']:
                        want[('ctx', h)] = snap['ctx'][h]
                    else:
                        if h in snap['states']:
                            want[('state', h)] = snap['states'][h]
                        for ch, c in snap['ctx'].items():
                            if dict(c[1]).get('DescriptorHandle') == h:
                                want[('ctx', ch)] = c
        else:
            if not handles:
                want = {('ctx', h): c for h, c in snap['ctx'].items()}
            else:
                for h in handles:
                    if h in snap['ctx']:
                        want[('ctx', h)] = snap['ctx'][h]
                    elif h in mds_handles and single_mds:
                        want.update({('ctx', ch): c for ch, c in snap['ctx'].items()})
                    else:
                        for ch, c in snap['ctx'].items():
                            if dict(c[1]).get('DescriptorHandle') == h:
                                want[('ctx', ch)] = c
        if set(got) != set(want):
            bad.append(f'selection differs from the one at version {v}: only in response {sorted(set(got) - set(want))[:3]}, '
                       f'missing {sorted(set(want) - set(got))[:3]}')
        for k in set(got) & set(want):
            if not tolerant_equal(got[k], want[k]):
                bad.append(f'{k} {first_difference(want[k], got[k])}')
    if bad:
        ctx.witness(f'snapshot.inconsistent.{kind}', f'{kind} response is not the MDIB content of the MdibVersion it states',
                    {**detail, 'stated_version': v, 'problems': bad[:3]})


# ------------------------------------------------------------------------------------------------
def _requests(mdib):
    cat = mdibops.catalog(mdib)
    metrics = cat['metric'][:2]
    ctx_descr = cat['context'][:1]
    reqs = [('GetMdib', None), ('GetMdDescription', None), ('GetMdDescription', metrics[:1]), ('GetMdState', None), ('GetMdState', metrics),
            ('GetMdState', ctx_descr), ('GetContextStates', None), ('GetContextStates', ctx_descr)]
    if len(cat['mds']) == 1:
        reqs.append(('GetContextStates', cat['mds'][:1]))
    return reqs, cat


def _issue(consumer, kind, handles):
    if kind == 'GetMdib':
        return consumer.client('Get').get_mdib()
    if kind == 'GetMdDescription':
        return consumer.client('Get').get_md_description(handles)
    if kind == 'GetMdState':
        return consumer.client('Get').get_md_state(handles)
    return consumer.client('Context').get_context_states(handles)


def _injections(cat, req_handles, n):
    """foreign transactions relative to the request."""
    metrics = cat['metric']
    req_metric = [h for h in (req_handles or []) if h in metrics] or metrics[:1]
    other = [h for h in metrics if h not in req_metric][:1] or metrics[:1]
    ctx_descr = cat['context'][:1]
    inj = {
        'req_state': {'op': 'metric', 'handles': req_metric[:1], 'iface': 'classic'},
        'other_state': {'op': 'metric', 'handles': other, 'iface': 'entity'},
        'descr_update': {'op': 'descr_update', 'handles': req_metric[:1], 'iface': 'classic'},
        'descr_create': {'op': 'descr_create', 'parent': cat['channel'][0], 'handle': f'inj_{n}', 'with_state': True, 'iface': 'classic'},
    }
    if ctx_descr:
        inj['ctx_new'] = {'op': 'context', 'sub': 'new_assoc', 'descr': ctx_descr[0], 'new_handle': f'injctx_{n}', 'iface': 'classic'}
    if ctx_descr:
        # the context descriptor is re-versioned without touching its states (they are re-versioned implicitly)
        inj['ctx_descr_update'] = {'op': 'descr_update', 'handles': ctx_descr[:1], 'iface': 'classic'}
    if req_handles and any(h in metrics for h in req_handles):
        # the requested descriptor disappears while the request is in progress (it is re-created after the run)
        inj['descr_delete_requested'] = {'op': 'descr_delete', 'handle': req_metric[0], 'iface': 'classic'}
    return inj


def w_explore(ctx: core.Ctx, arg):
    rng = ctx.rng('explore', arg['i'])
    mdib_file = arg['mdib_file']
    world = World(mdib_file, role_provider=False, async_mgr=arg.get('async_mgr', False))
    consumer, _ = world.add_consumer(with_mdib=False)
    consumer2, _ = world.add_consumer(with_mdib=False)   # a second client whose complete request overlaps the request under observation
    mdib = world.mdib
    # some context states to start with
    for h in mdibops.catalog(mdib)['context'][:2]:
        mdibops.apply_op(mdib, {'op': 'context', 'sub': 'new_assoc', 'descr': h, 'new_handle': f'init_{h}', 'seed': 3, 'iface': 'classic'})
    inst = Instrumented(mdib)
    hist = LiveHistory(mdib)
    reqs, cat = _requests(mdib)
    mds_handles = set(cat['mds'])
    counter = itertools.count()
    reqs = [r for k, r in enumerate(reqs) if k % arg['nsplit'] == arg['split']]
    for kind, handles in reqs:
        # dry run: which scheduling points does this request expose?
        points = []
        inst.set_hook(lambda ev, name: points.append((ev, name)))
        res = _issue(consumer, kind, handles)
        inst.clear_hook()
        check_response(ctx, hist, kind, handles, res, {'request': [kind, handles], 'schedule': 'none', 'mdib_file': mdib_file}, mds_handles)
        ctx.extra.setdefault('scheduling_points', {})[f'{kind}:{"all" if not handles else "handles"}'] = [list(p) for p in points]
        ctx.count('explore.scheduling_points', len(points))
        for pi, point in enumerate(points):
            n0 = next(counter)
            inj_kinds = list(_injections(cat, handles, n0))
            combos = [(k,) for k in inj_kinds]
            if arg['pairs']:
                combos += [(a, b) for a in inj_kinds for b in inj_kinds if a != b]
            # a transaction followed by a complete request of ANOTHER client (same kind): the handlers are shared by all request threads
            combos += [(a, 'other_get') for a in inj_kinds if a in ('req_state', 'ctx_new', 'descr_update', 'descr_create')]
            for combo in combos:
                n = next(counter)
                inj = _injections(cat, handles, n)
                seen = {'i': -1}

                def hook(ev, name, _combo=combo, _inj=inj, _pi=pi, _seen=seen):
                    _seen['i'] += 1
                    if _seen['i'] != _pi:
                        return
                    for k in _combo:
                        if k == 'other_get':
                            other = _issue(consumer2, kind, handles)
                            ctx.count('explore.injected.other_get')
                            check_response(ctx, hist, kind, handles, other, {'request': [kind, handles], 'schedule': 'nested request of a second client',
                                                                           'mdib_file': mdib_file}, mds_handles)
                            continue
                        op = dict(_inj[k])
                        op['seed'] = rng.randrange(1 << 30)
                        ap = mdibops.apply_op(mdib, op, None)
                        ctx.count(f'explore.injected.{k}')
                        if ap.outcome != 'ok':
                            ctx.count(f'explore.injected_failed.{k}.{ap.outcome}')
                inst.set_hook(hook)
                try:
                    res = _issue(consumer, kind, handles)
                except Exception as ex:  # noqa: BLE001
                    inst.clear_hook()
                    ctx.witness(f'request.failed.{kind}', 'a Get request failed while a transaction was interleaved',
                                {'request': [kind, handles], 'point': list(point), 'injected': list(combo), 'ex': repr(ex)[:300]})
                    continue
                inst.clear_hook()
                if 'descr_delete_requested' in combo:
                    h = inj['descr_delete_requested']['handle']
                    if mdib.descriptions.handle.get_one(h, allow_none=True) is None:
                        mdibops.apply_op(mdib, {'op': 'descr_create', 'parent': cat['channel'][0], 'handle': h, 'with_state': True, 'recreate': True,
                                                'seed': n, 'iface': 'classic'}, None)
                ctx.count('explore.runs')
                ctx.case(('explore', mdib_file, kind, bool(handles), pi, combo))
                check_response(ctx, hist, kind, handles, res,
                               {'request': [kind, handles], 'point_index': pi, 'point': list(point), 'injected': list(combo), 'mdib_file': mdib_file},
                               mds_handles)
        if hist.problems:
            hist.problems.clear()
    if arg['split'] == 0:
        ctx.sample({'kind': 'lock-granularity exploration', 'mdib_file': mdib_file, 'requests': [[k, h] for k, h in reqs],
                    'points_of_first_request': ctx.extra.get('scheduling_points', {})})
    world.stop()


def w_stress(ctx: core.Ctx, arg):
    rng = ctx.rng('stress', arg['i'])
    mdib_file = MDIB_FILES[arg['i'] % len(MDIB_FILES)]
    world = World(mdib_file, role_provider=False)
    mdib = world.mdib
    readers = [world.add_consumer(with_mdib=False)[0] for _ in range(arg['readers'])]
    hist = LiveHistory(mdib)
    reqs, cat = _requests(mdib)
    mds_handles = set(cat['mds'])
    stop = threading.Event()
    old_interval = sys.getswitchinterval()
    sys.setswitchinterval(1e-5)
    lock = threading.Lock()
    responses = []
    errors = []

    def writer(wi):
        r = ctx.rng('stress-writer', arg['i'], wi)
        memo = {}
        weights = {k: v for k, v in mdibops.DEFAULT_WEIGHTS.items() if k in ('metric', 'alert', 'component', 'context', 'descr_update', 'descr_create',
                                                                              'descr_delete', 'operational')}
        n = 0
        while not stop.is_set() and n < arg['max_ops']:
            try:
                with mdib.mdib_lock:  # the generator walks the tables
                    op = mdibops.gen_op(r, mdib, memo, weights)
                if op['op'] == 'descr_create':
                    op['handle'] = f'w{wi}_{op["handle"]}'
                if op['op'] == 'context':
                    op['new_handle'] = f'w{wi}_{op["new_handle"]}'
                mdibops.apply_op(mdib, op, memo)
            except Exception as ex:  # noqa: BLE001
                errors.append(repr(ex))
            n += 1

    def reader(ri):
        r = ctx.rng('stress-reader', arg['i'], ri)
        n = 0
        while n < arg['max_requests']:  # bounded by count, never by wall-clock: a loaded machine must not thin out the observations
            kind, handles = r.choice(reqs)
            try:
                res = _issue(readers[ri], kind, handles)
            except Exception as ex:  # noqa: BLE001
                errors.append(f'{kind}: {ex!r}')
                n += 1
                continue
            with lock:
                responses.append((kind, handles, res))
            n += 1

    threads = [threading.Thread(target=writer, args=(k,), daemon=True) for k in range(arg['writers'])]
    threads += [threading.Thread(target=reader, args=(k,), daemon=True) for k in range(arg['readers'])]
    t0 = time.time()
    for t in threads:
        t.start()
    n_writers = arg['writers']
    while time.time() - t0 < arg['seconds'] * 30 and any(t.is_alive() for t in threads[n_writers:]):  # watchdog only; the readers end after max_requests
        time.sleep(0.05)
    stop.set()  # the writers commit as long as a reader is active
    for t in threads:
        t.join(120)
    sys.setswitchinterval(old_interval)
    if any(t.is_alive() for t in threads):
        ctx.not_decided('stress threads did not finish within the watchdog')
    versions = set()
    for kind, handles, res in responses:
        versions.add(res.mdib_version_group.mdib_version)
        check_response(ctx, hist, kind, handles, res, {'request': [kind, handles], 'schedule': 'thread stress', 'mdib_file': mdib_file}, mds_handles)
    ctx.count('stress.responses', len(responses))
    ctx.count('stress.commits', len(hist.by_version))
    ctx.count('stress.distinct_versions_in_responses', len(versions))
    ctx.case(('stress', arg['i'], len(versions) > 3))
    if errors:
        ctx.extra.setdefault('stress_errors', [])
        ctx.extra['stress_errors'] += errors[:5]
        ctx.count('stress.errors', len(errors))
    world.stop()


def run(ctx: core.Ctx):
    ctx.rule = ('explorer: request kind x scheduling point x injected transaction combination (k=1 always, k=2 pairs in thorough and for one MDIB in '
                'quick), enumerated completely; distinct = (mdib, request, point index, combination).  stress: threads, every response checked')
    q = ctx.quick
    jobs = []
    files = MDIB_FILES[:2] if q else MDIB_FILES
    for fi, f in enumerate(files):
        for split in range(4):
            jobs.append(['w_explore', {'i': fi * 4 + split, 'mdib_file': f, 'split': split, 'nsplit': 4, 'pairs': (fi == 0) or not q, 'async_mgr': fi % 2 == 1}])
    for k in range(4 if q else 16):
        jobs.append(['w_stress', {'i': k, 'writers': 3, 'readers': 3, 'seconds': 6 if q else 120, 'max_ops': 100000,
                                  'max_requests': 150 if q else 3000}])
    core.fanout(ctx, MODULE, 'dispatch', jobs, timeout=3000)
    ctx.exhaustive = True
    ctx.extra['exhaustive_part'] = 'lock-granularity schedules within the stated bounds (sub-check 1); the thread stress is sampled'
    ctx.floor('explore.runs', 300)
    ctx.floor('stress.responses', 200)
    ctx.floor('explore.scheduling_points', 20)
    ctx.assumptions += ['a foreign transaction run synchronously at a point where the reader does not hold the MDIB lock is equivalent to a writer '
                        'thread being scheduled there (a transaction holds the MDIB lock from begin to end)']


def dispatch(ctx: core.Ctx, job):
    globals()[job[0]](ctx, job[1])
