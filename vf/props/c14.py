"""C14 - WS-Discovery answers and records exactly what its matching rules prescribe.

The real ``match_scope`` / ``filter_services`` / ``WSDiscovery.handle_received_message`` / ``NetworkingThread._run_q_read`` are driven
without sockets; incoming messages are built with the real factory, serialised, parsed by the real reader (validate=True).  Oracles:

1. a reference scope matcher written from the statement (own RFC 3986 splitter, own percent-decoder working on octets),
2. a reference selection for Probe (all requested types offered AND all requested scopes matched) / Resolve (EPR published),
3. a reference table of discovered services (EPR -> announcements since the last Bye),
4. a reference window of remembered message ids (size = the node's own window size).

Round 4: requests also arrive hand-written (vf/c14_wire.py: foreign prefixes, default namespace for QNames, other white space, <Address/>);
publish / re-publish / clear / clear_local_services happen BETWEEN the requests; services carry a MatchBy of their own or no Scopes at all;
Resolve addresses include the empty address, near misses of published ones, endpoints that are only known as remote services, and related
endpoint references (prefix / case variants of each other); the content of ProbeMatch / ResolveMatch is compared with the current publication;
Bye carries its optional parts (any MetadataVersion); InstanceId takes both ends of its range; the table is searched with type / scope filters
(get_found_remote_services) against the reference selection; message ids come back with OTHER content, and after a handler that raised.
"""
from __future__ import annotations

import collections
import re
import threading
import warnings

from .. import c14_wire, core, urigen
from ..wsdharness import EnumRandom, RecordingNetworkingThread, VClock, mk_networking_thread

MODULE = 'vf.props.c14'
NS_D = 'http://docs.oasis-open.org/ws-dd/ns/discovery/2009/01'
RULE_URI = NS_D + '/rfc3986'
RULE_STRCMP = NS_D + '/strcmp0'
UNKNOWN_RULES = ['http://example.com/myrule', NS_D + '/RFC3986', NS_D + '/rfc3986/', NS_D + '/strcmp', NS_D + '/STRCMP0', 'urn:x:rule', NS_D, 'rfc3986',
                 NS_D + '/rfc2396', NS_D + '/strcmp1']
RULES = [('rfc3986', RULE_URI), ('default', None), ('strcmp0', RULE_STRCMP), ('unknown', None)]  # 'unknown' draws from UNKNOWN_RULES

# =============================================================================================
# reference matcher (from the statement; nothing of urllib in here)
# =============================================================================================
_URI_RX = re.compile(r'\A(?:([^:/?#]+):)?(?://([^/?#]*))?([^?#]*)(?:\?([^#]*))?(?:#(.*))?\Z', re.S)  # RFC 3986 appendix B
_HEX = frozenset('0123456789abcdefABCDEF')
_ABS = b'\x00<absolute-path>'


def _ascii_lower(s: str) -> str:
    return ''.join(chr(ord(c) + 32) if 'A' <= c <= 'Z' else c for c in s)


def pct_decode(seg: str) -> bytes:
    """percent-decoding yields OCTETS; characters that are not escaped stand for their UTF-8 octets."""
    out = bytearray()
    i, n = 0, len(seg)
    while i < n:
        c = seg[i]
        if c == '%' and i + 2 < n and seg[i + 1] in _HEX and seg[i + 2] in _HEX:
            out.append(int(seg[i + 1:i + 3], 16))
            i += 3
        else:
            out += c.encode('utf-8', 'surrogatepass')
            i += 1
    return bytes(out)


def ref_split(uri: str):
    m = _URI_RX.match(uri)
    return _ascii_lower(m.group(1) or ''), _ascii_lower(m.group(2) or ''), m.group(3)


def ref_segments(path: str) -> list[bytes]:
    if path == '':
        return []
    if path[0] == '/':
        return [_ABS] + [pct_decode(s) for s in path[1:].split('/')]
    return [pct_decode(s) for s in path.split('/')]


def ref_match_rfc3986(s1: str, s2: str) -> bool:
    """requested scope s1 matches offered scope s2."""
    sch1, auth1, p1 = ref_split(s1)
    sch2, auth2, p2 = ref_split(s2)
    if sch1 != sch2 or auth1 != auth2:
        return False
    g1, g2 = ref_segments(p1), ref_segments(p2)
    return len(g1) <= len(g2) and g2[:len(g1)] == g1


def ref_match(s1: str, s2: str, rule) -> bool:
    if rule is None or rule == RULE_URI:  # an absent MatchBy means rfc3986 (WS-Discovery default)
        return ref_match_rfc3986(s1, s2)
    if rule == RULE_STRCMP:
        return s1 == s2
    return False


def ref_selects(svc_types, svc_scopes, p_types, p_scopes, rule) -> bool:
    if any(t not in svc_types for t in p_types):
        return False
    return all(any(ref_match(ps, ss, rule) for ss in svc_scopes) for ps in p_scopes)


def selfcheck_reference(ctx, rng, pool_bytes, n):
    """algebraic laws of the reference; a failure means the ORACLE is wrong -> run undecided, never a witness."""
    bad = []
    fixed = [('x:/a%2Fb', 'x:/a/b', False), ('x:/a', 'x:/a%2Fb', False), ('x:/a/b', 'x:/a%2Fb', False), ('x:/A', 'x:/a', False), ('X://H/a', 'x://h/a', True),
             ('x://h/a', 'x://h/A', False), ('x://h/a', 'x://h/a/b', True), ('x://h/a/b', 'x://h/a', False), ('x://h/a', 'x://h/ab', False),
             ('x://h/%61', 'x://h/a', True), ('x://h/a/', 'x://h/a', False), ('x://h/a', 'x://h/a/', True), ('x://h', 'x://h/a', True),
             ('x://h/a?q=/b', 'x://h/a/c#f', True), ('x://h:80/a', 'x://h/a', False), ('x://h/%C3%A4', 'x://h/\u00e4', True), ('x://h/%FF', 'x://h/%FE', False)]
    for a, b, want in fixed:
        if ref_match_rfc3986(a, b) is not want:
            bad.append(('fixed', a, b, want))
    for _ in range(n):
        c = urigen.gen_uri(rng, pool_bytes)
        b = urigen.derive(rng, c, 'seg_prefix', pool_bytes) or c
        a = urigen.derive(rng, b, 'seg_prefix', pool_bytes) or b
        sa, sb, sc = (urigen.render_uri(u, rng) for u in (a, b, c))
        if not ref_match_rfc3986(sc, sc):
            bad.append(('reflexive', sc))
        if not (ref_match_rfc3986(sa, sb) and ref_match_rfc3986(sb, sc) and ref_match_rfc3986(sa, sc)):
            bad.append(('prefix-transitive', sa, sb, sc))
        if ref_match_rfc3986(sa, sb) and ref_match_rfc3986(sb, sa) and ref_segments(ref_split(sa)[2]) != ref_segments(ref_split(sb)[2]):
            bad.append(('antisymmetric', sa, sb))
        ctx.count('reference.selfchecks')
    if bad:
        ctx.not_decided(f'reference matcher violates its own laws: {bad[:3]}')
    return not bad


# =============================================================================================
# helpers around the real library
# =============================================================================================
def _pool_bytes(seed_value, n):
    return [s.encode('utf-8') for s in urigen.hyp_text_pool(n, seed_value, max_size=12)]


def _rule_for(rng, rname):
    if rname == 'unknown':
        return rng.choice(UNKNOWN_RULES)
    return dict(RULES)[rname]


def _valid_utf8(b: bytes) -> bool:
    try:
        b.decode('utf-8')
    except UnicodeDecodeError:
        return False
    return True


def _pair_class(s1, s2, variant, got=None) -> str:
    """input class of a disagreeing scope pair for the mechanism key.  Two structural classes are recognised from the strings (and only if
    they explain the disagreement), else the generator's relation is the class."""
    (sch1, auth1, p1), (sch2, auth2, p2) = ref_split(s1), ref_split(s2)
    g1, g2 = ref_segments(p1), ref_segments(p2)
    if got is not False and sch1 == sch2 and auth1 == auth2 and not all(_valid_utf8(x) for x in g1 + g2):
        # accepted although the octets differ: would the segments be equal if every invalid UTF-8 sequence were the same character?
        r1, r2 = [x.decode('utf-8', 'replace') for x in g1], [x.decode('utf-8', 'replace') for x in g2]
        if len(r1) <= len(r2) and r2[:len(r1)] == r1 and g2[:len(g1)] != g1:
            return 'invalid_utf8_escape'
    if got is not True and sch1 == sch2 and auth1 == auth2 and p1 == '' and p2 and p2[0] != '/':
        return 'empty_path_vs_rootless'
    return variant


def _key_rule(rname):
    return 'rfc3986' if rname == 'default' else rname


def _pair(rng, pool_bytes):
    """(s1 requested, s2 offered, variant)"""
    base = urigen.gen_uri(rng, pool_bytes)
    variant = rng.choice(urigen.VARIANTS)
    other = urigen.derive(rng, base, variant, pool_bytes)
    if other is None:
        variant, other = 'same', base
    if variant == 'same':
        mode = rng.choice(['min', 'all', 'iri'])
        return urigen.render_uri(other, rng, mode), urigen.render_uri(base, rng, mode), variant
    s_other, s_base = urigen.render_uri(other, rng), urigen.render_uri(base, rng)
    if variant in ('swap_prefix', 'split_2F'):
        return s_base, s_other, variant
    return s_other, s_base, variant


# =============================================================================================
# 1  match_scope against the reference
# =============================================================================================
def w_match(ctx: core.Ctx, arg):
    warnings.simplefilter('ignore')
    from sdc11073.wsdiscovery.wsdimpl import MatchBy, match_scope
    rng = ctx.rng('match', arg['i'])
    pool_bytes = _pool_bytes(ctx.seed * 1000 + arg['i'], arg['pool'])
    if not selfcheck_reference(ctx, rng, pool_bytes, 300):
        return
    enum_for = {RULE_URI: MatchBy.uri, RULE_STRCMP: MatchBy.strcmp}
    for case in range(arg['n']):
        s1, s2, variant = _pair(rng, pool_bytes)
        rname = rng.choice(['rfc3986', 'rfc3986', 'rfc3986', 'default', 'strcmp0', 'unknown'])
        rule = _rule_for(rng, rname)
        # the library is called the way its own callers do: with the MatchBy attribute string (or the enum member)
        lib_rule = enum_for[rule] if rule in enum_for and rng.random() < 0.5 else rule
        want = ref_match(s1, s2, rule)
        ctx.count(f'match.{rname}.ref_{"true" if want else "false"}')
        ctx.case(('match', rname, variant, want, len(ref_segments(ref_split(s1)[2])), len(ref_segments(ref_split(s2)[2]))))
        if case < 3:
            ctx.sample({'kind': 'scope pair', 'requested': s1, 'offered': s2, 'rule': rule, 'relation': variant, 'reference': want})
        try:
            got = match_scope(s1, s2, lib_rule)
        except Exception as ex:  # noqa: BLE001
            ctx.witness(f'match.raises.{rname}.{variant}', f'match_scope raised {type(ex).__name__}: {ex}', {'requested': s1, 'offered': s2, 'rule': rule})
            continue
        if bool(got) != want:
            ctx.witness(f'match.{_key_rule(rname)}.{"accepts" if got else "rejects"}.{_pair_class(s1, s2, variant, bool(got))}',
                        f'match_scope says {bool(got)}, the matching rule says {want}',
                        {'requested': s1, 'offered': s2, 'rule': rule, 'relation': variant,
                         'requested_parts': [ref_split(s1)[0], ref_split(s1)[1], [repr(x) for x in ref_segments(ref_split(s1)[2])]],
                         'offered_parts': [ref_split(s2)[0], ref_split(s2)[1], [repr(x) for x in ref_segments(ref_split(s2)[2])]]})
        else:
            ctx.count('match.agree')
    if arg['i'] == 0:
        directed_pairs(ctx)


# boundary spellings of the authority that the random grammar does not draw (all syntactically valid RFC 3986 URIs); rules rfc3986 and absent MatchBy
DIRECTED_PAIRS = [
    ('http://[v1.fe]/a', 'http://[v1.fe]/a/b', 'ipvfuture_authority'),
    ('http://[v1.fe]/a', 'http://[V1.FE]/a/b', 'ipvfuture_authority'),   # ABNF literals are case-insensitive: "V1.FE" is the same IPvFuture literal
    ('http://[V1.FE]/a', 'http://[v1.fe]/a', 'ipvfuture_authority'),
    ('http://[V1.fe]/a/b', 'http://[V1.fe]/a', 'ipvfuture_authority'),
    ('http://[v1.fe]/a', 'http://[v1.ff]/a', 'ipvfuture_authority'),
    ('http://[v1.a:b]/', 'http://[v1.a:b]:80/', 'ipvfuture_authority'),
    ('http://[fe80::1%25eth0]/a', 'http://[FE80::1%25eth0]/a/b', 'ipv6_zone_authority'),
    ('http://[::ffff:1.2.3.4]/a', 'http://[::FFFF:1.2.3.4]/a', 'ipv6_v4mapped_authority'),
    ('x://[::1]:/a', 'x://[::1]:/a/b', 'empty_port'),
    ('http://h:/a', 'http://h/a', 'empty_port'),
    ('http://u:p@[::1]:80/a', 'http://U:P@[::1]:80/a/b', 'userinfo'),
    ('http://@h/a', 'http://h/a', 'userinfo'),
]


def directed_pairs(ctx):
    from sdc11073.wsdiscovery.wsdimpl import MatchBy, match_scope
    for s1, s2, cls in DIRECTED_PAIRS:
        for rname, rule, lib_rule in (('rfc3986', RULE_URI, RULE_URI), ('rfc3986', RULE_URI, MatchBy.uri), ('default', None, None)):
            want = ref_match(s1, s2, rule)
            ctx.count('match.directed')
            ctx.case(('match.directed', cls, rname, want))
            try:
                got = match_scope(s1, s2, lib_rule)
            except Exception as ex:  # noqa: BLE001
                ctx.witness(f'match.raises.rfc3986.{cls}', f'match_scope raised {type(ex).__name__}: {ex}', {'requested': s1, 'offered': s2, 'rule': rule, 'reference': want})
                continue
            if bool(got) != want:
                ctx.witness(f'match.rfc3986.{"accepts" if got else "rejects"}.{cls}', f'match_scope says {bool(got)}, the matching rule says {want}',
                            {'requested': s1, 'offered': s2, 'rule': rule})
            else:
                ctx.count('match.agree')


# =============================================================================================
# message builders (real factory, same construction as wsdimpl._send_*)
# =============================================================================================
TYPE_UNIVERSE = [('http://docs.oasis-open.org/ws-dd/ns/dpws/2009/01', 'Device'), ('http://standards.ieee.org/downloads/11073/11073-20702-2016', 'MedicalDevice'),
                 ('http://example.com/t', 'A'), ('http://example.com/t', 'B'), ('http://example.com/u', 'A'), ('http://example.com/t', 'a')]


def _qn(t):
    from lxml import etree
    return etree.QName(t[0], t[1])


def _scopes_type(texts, rule=None):
    from sdc11073.xml_types import wsd_types
    sc = wsd_types.ScopesType(None, rule)
    sc.text.extend(texts)
    return sc


def _finish(payload, to, appseq, relates_to=None, mid=None):
    from sdc11073.namespaces import default_ns_helper as nsh
    from sdc11073.wsdiscovery.wsdimpl import _mk_wsd_soap_message
    from sdc11073.xml_types import wsd_types
    from sdc11073.xml_types.addressing_types import HeaderInformationBlock
    inf = HeaderInformationBlock(action=payload.action, addr_to=to, relates_to=relates_to)
    if mid is not None:
        inf.MessageID = mid
    cm = _mk_wsd_soap_message(inf, payload)
    if appseq:
        a = wsd_types.AppSequenceType()
        a.InstanceId = appseq[0]
        a.MessageNumber = appseq[1]
        cm.p_msg.add_header_element(a.as_etree_node(nsh.WSD.tag('AppSequence'), ns_map=nsh.partial_map(nsh.WSD)))
    return cm


def _fill(obj, item):
    obj.EndpointReference.Address = item['epr']
    obj.MetadataVersion = item['v']
    obj.Types = None if item['types'] is None else [_qn(t) for t in item['types']]
    obj.Scopes = None if item['scopes'] is None else _scopes_type(item['scopes'])
    obj.XAddrs = None if item['xaddrs'] is None else list(item['xaddrs'])


def build(msg: dict):
    """msg: {'kind': hello|bye|probematches|resolvematches|probe|resolve, ...} -> CreatedMessage"""
    from sdc11073.wsdiscovery.wsdimpl import ADDRESS_ALL, WSA_ANONYMOUS
    from sdc11073.xml_types import wsd_types
    kind = msg['kind']
    appseq = msg.get('appseq')
    if kind == 'hello':
        p = wsd_types.HelloType()
        _fill(p, msg['items'][0])
        return _finish(p, ADDRESS_ALL, appseq, mid=msg.get('mid'))
    if kind == 'bye':
        p = wsd_types.ByeType()
        p.EndpointReference.Address = msg['epr']
        if 'v' in msg:  # the optional parts of a Bye
            p.MetadataVersion = msg['v']
            p.Types = None if msg.get('types') is None else [_qn(t) for t in msg['types']]
            p.Scopes = None if msg.get('scopes') is None else _scopes_type(msg['scopes'])
            p.XAddrs = None if msg.get('xaddrs') is None else list(msg['xaddrs'])
        return _finish(p, ADDRESS_ALL, appseq, mid=msg.get('mid'))
    if kind == 'probematches':
        p = wsd_types.ProbeMatchesType()
        for item in msg['items']:
            pm = wsd_types.ProbeMatchType()
            _fill(pm, item)
            p.ProbeMatch.append(pm)
        return _finish(p, WSA_ANONYMOUS, appseq, relates_to='urn:uuid:some-probe', mid=msg.get('mid'))
    if kind == 'resolvematches':
        p = wsd_types.ResolveMatchesType()
        if msg['items']:
            p.ResolveMatch = wsd_types.ResolveMatchType()
            _fill(p.ResolveMatch, msg['items'][0])
        return _finish(p, WSA_ANONYMOUS, appseq, relates_to='urn:uuid:some-resolve', mid=msg.get('mid'))
    if kind == 'probe':
        p = wsd_types.ProbeType()
        p.Types = None if msg['types'] is None else [_qn(t) for t in msg['types']]
        if msg['scopes'] is not None:
            p.Scopes = _scopes_type(msg['scopes'], msg.get('rule'))
        return _finish(p, ADDRESS_ALL, None, mid=msg.get('mid'))
    if kind == 'resolve':
        p = wsd_types.ResolveType()
        p.EndpointReference.Address = msg['epr']
        return _finish(p, ADDRESS_ALL, None, mid=msg.get('mid'))
    raise ValueError(kind)


def wire(ctx, msg: dict):
    """bytes of the message, or None if the real factory refuses to serialise it (schema validation of outgoing messages)."""
    from sdc11073.exceptions import ValidationError
    try:
        return build(msg).serialize()
    except ValidationError:
        ctx.count('gen.refused_by_factory')
        return None


def wire_any(ctx, msg: dict, rng, raw_rate: float):
    """the message from the real factory or (at raw_rate) hand-written the way another implementation might spell it (vf/c14_wire.py)."""
    if rng.random() < raw_rate:
        ctx.count('gen.raw')
        return c14_wire.render(msg, rng), True
    return wire(ctx, msg), False


def parse(ctx, data: bytes | None):
    """what the receive loop does with a datagram before handing it on; None = dropped as invalid."""
    from lxml import etree
    from sdc11073.exceptions import ValidationError
    from sdc11073.wsdiscovery.common import message_reader
    if data is None:
        return None
    try:
        return message_reader.read_received_message(data, validate=True)
    except (etree.XMLSyntaxError, ValidationError) as ex:
        ctx.count('gen.dropped_by_reader.' + type(ex).__name__)
        return None


def _mk_wsd(cls=None):
    from sdc11073.wsdiscovery.wsdimpl import WSDiscovery
    wsd = (cls or WSDiscovery)('127.0.0.1')
    rec = RecordingNetworkingThread()
    wsd._networking_thread = rec
    wsd._server_started = True
    return wsd, rec


def _outbound(ctx, rec):
    """[(action-localname, payload-node, header_info)] of what the node queued for sending; messages are re-read from their bytes."""
    from sdc11073.wsdiscovery.common import message_reader
    out = []
    for cm, addr, port, _ in rec.out:
        rm = message_reader.read_received_message(cm.serialize(validate=False), validate=False)
        out.append((rm.action.rsplit('/', 1)[-1], rm, (addr, port)))
    rec.out.clear()
    return out


def _scope_cause(p_scopes, svc_scopes, rule, rname) -> str:
    """mechanism-key part for a wrong selection: the class of a scope pair on which library and reference disagree (diagnosis only)."""
    from sdc11073.wsdiscovery.wsdimpl import match_scope
    classes = set()
    for ps in p_scopes or []:
        for ss in svc_scopes:
            try:
                got = bool(match_scope(ps, ss, rule))
                if got != ref_match(ps, ss, rule):
                    classes.add(_pair_class(ps, ss, 'pair', got))
            except Exception:  # noqa: BLE001
                classes.add('raises')
    return f'scope.{_key_rule(rname)}.' + (sorted(classes)[0] if classes else 'selection')


def _selection_key(label, direction, cause, rname) -> str:
    """one mechanism = one key: a wrong selection explained by a recognised class of match_scope disagreement is reported under the match_scope key."""
    cls = cause.rsplit('.', 1)[-1]
    if cause.startswith('scope.') and cls in ('invalid_utf8_escape', 'empty_path_vs_rootless'):
        return f'match.{_key_rule(rname)}.{"accepts" if direction == "answers_nonmatching" else "rejects"}.{cls}'
    return f'{label}.{direction}.{cause}'


# =============================================================================================
# 2  Probe / Resolve against the reference selection
# =============================================================================================
# endpoint references that are prefixes / case variants / re-encodings of each other (and one that is also used as a transport address)
EPR_RELATED = ['urn:uuid:svc-1', 'urn:uuid:svc-10', 'urn:uuid:SVC-1', 'urn:uuid:svc-1/', 'URN:UUID:svc-1', 'urn:uuid:svc', 'http://10.0.0.1:6464/x', 'urn:uuid:svc-1%30']
REMOTE_ONLY_EPR = 'urn:uuid:only-known-as-remote-service'


def _near_misses(epr: str) -> list[str]:
    """addresses that are NOT epr but close to it"""
    out = [epr[:-1], epr[1:], epr + '0', epr + '/', epr.swapcase(), epr.upper(), epr.lower(), epr + '%20', epr.replace('-', '%2D', 1), epr + '#', epr + '?']
    return [x for x in dict.fromkeys(out) if x != epr]


def _check_content(ctx, label, match, pub, context):
    """a ProbeMatch / ResolveMatch stands for the service AS PUBLISHED NOW: a part it carries must be that of the current publication
    (an absent / empty part is tolerated: the node may leave optional parts out)."""
    ctx.count(f'{label}.content_checked')
    got = {'types': _norm((t.namespace, t.localname) for t in match.Types) if match.Types else None,
           'scopes': _norm(match.Scopes.text) if match.Scopes is not None and match.Scopes.text else None,
           'xaddrs': _norm(match.XAddrs) if match.XAddrs else None}
    want = {'types': _norm(tuple(t) for t in pub['types']), 'scopes': _norm(pub['scopes']), 'xaddrs': _norm(pub['xaddrs'])}
    for field in ('types', 'scopes', 'xaddrs'):
        if got[field] is not None and got[field] != want[field]:
            ctx.witness(f'{label}.answer_content.{field}', f'the answer for a published endpoint carries {field} that are not those of its current publication',
                        {'epr': match.EndpointReference.Address, 'carried': got[field], 'published': want[field], **context})


def w_probe(ctx: core.Ctx, arg):
    warnings.simplefilter('ignore')
    from sdc11073.wsdiscovery.wsdimpl import filter_services
    from sdc11073.xml_types import wsd_types
    rng = ctx.rng('probe', arg['i'])
    pool_bytes = _pool_bytes(ctx.seed * 1000 + 50 + arg['i'], arg['pool'])
    raw_rate = 0.35
    if not selfcheck_reference(ctx, rng, pool_bytes, 50):
        return
    for case in range(arg['n']):
        wsd, rec = _mk_wsd()
        bases = [urigen.gen_uri(rng, pool_bytes) for _ in range(rng.randrange(1, 4))]

        def scope_near():
            b = rng.choice(bases)
            v = rng.choice(urigen.VARIANTS)
            o = urigen.derive(rng, b, v, pool_bytes) if v != 'invalid_utf8' else None
            return urigen.render_uri(o or b, rng)

        related = rng.random() < 0.35
        epr_pool = rng.sample(EPR_RELATED, len(EPR_RELATED)) if related else [f'urn:uuid:svc-{j}' for j in range(8)]
        interleave = rng.random() < 0.6
        model = {}      # epr -> {'types', 'scopes' (None = published without Scopes), 'rule' (the service's OWN MatchBy), 'xaddrs'} = published right now
        history = []
        cleared_ever = set()
        state = {'serial': 0, 'mutations': 0, 'cleared_all': False}

        def publish(epr, what):
            state['serial'] += 1
            types = rng.sample(TYPE_UNIVERSE, rng.choice([0, 1, 1, 2, 3]))
            if rng.random() < 0.06:
                scopes, srule = None, None
            else:
                scopes = [scope_near() for _ in range(rng.choice([0, 1, 1, 2, 3]))]
                srule = None if rng.random() < 0.8 else rng.choice([RULE_STRCMP, RULE_STRCMP, RULE_URI, rng.choice(UNKNOWN_RULES)])
            xaddrs = [f'http://10.0.{state["serial"] // 250}.{state["serial"] % 250}:6464/x']
            wsd.publish_service(epr, [_qn(t) for t in types], None if scopes is None else _scopes_type(scopes, srule), xaddrs)
            model[epr] = {'types': types, 'scopes': scopes, 'rule': srule, 'xaddrs': xaddrs}
            state['cleared_all'] = False
            history.append((what, epr))

        def clear(epr):
            wsd.clear_service(epr)
            del model[epr]
            cleared_ever.add(epr)
            history.append(('clear', epr))

        def clear_all():
            wsd.clear_local_services()
            cleared_ever.update(model)
            model.clear()
            state['cleared_all'] = True
            history.append(('clear_all', None))

        def check_local_table():
            rec.out.clear()
            if set(wsd._local_services) != set(model):
                ctx.witness('publish.local_table', 'the set of locally published endpoint references is not what publish/clear produced',
                            {'have': sorted(wsd._local_services), 'want': sorted(model), 'history': history})

        def mutate():
            r = rng.random()
            unused = [e for e in epr_pool if e not in model]
            if r < 0.35 and unused:
                publish(rng.choice(unused), 'publish')  # may be one that was cleared before
            elif r < 0.6 and model:
                publish(rng.choice(sorted(model)), 'republish')
            elif r < 0.92 and model:
                clear(rng.choice(sorted(model)))
            elif r < 0.96:
                clear_all()
            else:
                return
            state['mutations'] += 1
            ctx.count('probe.mutations_between_requests')
            check_local_table()

        def do_probe(pj):
            rname = rng.choice(['rfc3986', 'rfc3986', 'default', 'default', 'strcmp0', 'unknown'])
            rule = _rule_for(rng, rname)
            p_types = None if rng.random() < 0.3 else rng.sample(TYPE_UNIVERSE, rng.choice([0, 1, 1, 2]))
            if rng.random() < 0.3:
                p_scopes = None
            else:
                p_scopes = []
                for _ in range(rng.choice([0, 1, 1, 1, 2])):
                    if model and rng.random() < 0.6:  # derived from a scope that really is published
                        sc = [s for pub in model.values() for s in (pub['scopes'] or [])]
                        if sc and rng.random() < 0.5:
                            p_scopes.append(rng.choice(sc))
                            continue
                    p_scopes.append(scope_near())
            if p_scopes is None and rname != 'default':
                rname, rule = 'default', None
            msg = {'kind': 'probe', 'types': p_types, 'scopes': p_scopes, 'rule': rule}
            data, raw = wire_any(ctx, msg, rng, raw_rate)
            rm = parse(ctx, data)
            if rm is None:
                return
            if raw:
                ctx.count('gen.raw_accepted')
            published = {e: (pub['types'], pub['scopes'], pub['rule']) for e, pub in model.items()}
            want = {epr for epr, pub in model.items() if ref_selects(pub['types'], pub['scopes'] or [], p_types or [], p_scopes or [], rule)}
            try:
                wsd.handle_received_message(rm, ('10.0.0.99', 3702))
                direct = filter_services(list(wsd._local_services.values()), None if p_types is None else [_qn(t) for t in p_types],
                                         None if p_scopes is None else _scopes_type(p_scopes, rule))
            except Exception as ex:  # noqa: BLE001
                ctx.witness(f'probe.raises.{rname}', f'handling a Probe raised {type(ex).__name__}: {ex}', {'probe': msg, 'published': published})
                rec.out.clear()
                return
            answered = []
            matches = []
            other = []
            for action, out_rm, _ in _outbound(ctx, rec):
                if action == 'ProbeMatches':
                    pms = wsd_types.ProbeMatchesType.from_node(out_rm.p_msg.msg_node)
                    answered.extend(m.EndpointReference.Address for m in pms.ProbeMatch)
                    matches.extend(pms.ProbeMatch)
                else:
                    other.append(action)
            ctx.count('probe.probes')
            ctx.count('probe.services_examined', len(model))
            ctx.count('probe.matches_expected', len(want))
            ctx.count(f'probe.rule.{rname}')
            if state['mutations']:
                ctx.count('probe.after_mutation')
                ctx.count('probe.after_mutation.matches_expected', len(want))
            if state['cleared_all']:
                ctx.count('probe.after_clear_all')
            if p_scopes:
                ctx.count('probe.service_own_matchby', sum(1 for pub in model.values() if pub['rule'] is not None and pub['scopes']))
                ctx.count('probe.service_scopes_none', sum(1 for pub in model.values() if pub['scopes'] is None))
            if len(answered) != len(set(answered)):
                ctx.count('probe.same_service_answered_twice')  # not judged: the SET of answering services is what the statement fixes
            ctx.case(('probe', rname, len(model), len(want), p_types is None, len(p_types or []), p_scopes is None, len(p_scopes or []),
                      bool(state['mutations']), raw, related))
            if case == 0 and pj < 2:
                ctx.sample({'kind': 'probe', 'published': published, 'probe': msg, 'hand_written_datagram': raw, 'reference_selection': sorted(want),
                            'answered': sorted(answered)})
            for label, got in (('probe', set(answered)), ('filter_services', {s.epr for s in direct})):
                for epr in sorted(got - want):
                    pub = model.get(epr)
                    cause = 'unpublished' if pub is None else ('types' if any(x not in pub['types'] for x in (p_types or []))
                                                               else _scope_cause(p_scopes, pub['scopes'] or [], rule, rname))
                    ctx.witness(_selection_key(label, 'answers_nonmatching', cause, rname), f'{label}: a service that does not satisfy the Probe was selected',
                                {'epr': epr, 'service': published.get(epr), 'probe': msg, 'history': history[-8:]})
                for epr in sorted(want - got):
                    cause = _scope_cause(p_scopes, model[epr]['scopes'] or [], rule, rname) if p_scopes else 'types'
                    ctx.witness(_selection_key(label, 'misses_matching', cause, rname), f'{label}: a published service satisfying the Probe was not selected',
                                {'epr': epr, 'service': published.get(epr), 'probe': msg, 'history': history[-8:]})
            for m in matches:
                epr = m.EndpointReference.Address
                if epr in model and epr in want:
                    _check_content(ctx, 'probe', m, model[epr], {'probe': msg, 'history': history[-8:]})
            if other:
                ctx.witness('probe.other_message_sent', f'a Probe made the node queue {other}', {'probe': msg})

        def do_resolves():
            near = set()
            for epr in sorted(model):
                near.update(rng.sample(_near_misses(epr), 2))
                near.add(model[epr]['xaddrs'][0])
            targets = (sorted(model) + sorted(cleared_ever - set(model)) + ['urn:uuid:never-published', 'urn:uuid:svc-99', 'http://10.0.0.1:6464/x', '', 'urn:uuid:',
                                                                             REMOTE_ONLY_EPR] + sorted(near))
            for epr in dict.fromkeys(targets):
                data, raw = wire_any(ctx, {'kind': 'resolve', 'epr': epr}, rng, raw_rate)
                rm = parse(ctx, data)
                if rm is None:
                    continue
                if raw:
                    ctx.count('gen.raw_accepted')
                try:
                    wsd.handle_received_message(rm, ('10.0.0.99', 3702))
                except Exception as ex:  # noqa: BLE001
                    ctx.witness('resolve.raises', f'handling a Resolve raised {type(ex).__name__}: {ex}', {'epr': epr})
                    rec.out.clear()
                    continue
                got = []
                matches = []
                for action, out_rm, _ in _outbound(ctx, rec):
                    if action == 'ResolveMatches':
                        m = wsd_types.ResolveMatchesType.from_node(out_rm.p_msg.msg_node).ResolveMatch
                        got.append(None if m is None else m.EndpointReference.Address)
                        if m is not None:
                            matches.append(m)
                if epr in model:
                    cls = 'published'
                    ctx.count('resolve.published')
                else:
                    cls = ('empty' if epr == '' else 'cleared' if epr in cleared_ever else 'remote' if epr == REMOTE_ONLY_EPR else 'near_miss' if epr in near
                           else 'unknown')
                    ctx.count('resolve.unpublished')
                    ctx.count(f'resolve.unpublished.{cls}')
                    if state['cleared_all']:
                        ctx.count('resolve.after_clear_all')
                ctx.case(('resolve', cls, raw, related, bool(state['mutations'])))
                if epr not in model and got:
                    ctx.witness(f'resolve.answered_unpublished.{cls}', 'a Resolve for an endpoint reference that is not published was answered',
                                {'asked': epr, 'answered': got, 'published': sorted(model), 'history': history[-8:]})
                if epr in model and got != [epr]:
                    ctx.witness('resolve.published_' + ('unanswered' if not got else 'answered_wrong_epr'),
                                'a Resolve for a published endpoint reference was not answered with exactly that endpoint',
                                {'asked': epr, 'answered': got, 'published': sorted(model)})
                if epr in model and got == [epr] and matches:
                    _check_content(ctx, 'resolve', matches[0], model[epr], {'history': history[-8:]})

        # ---- initial publications (as an application does at start-up)
        for j in range(rng.choice([0, 1, 2, 3, 3, 4, 5, 6])):
            epr = epr_pool[j]
            publish(epr, 'publish')
            r = rng.random()
            if r < 0.15:
                clear(epr)
            elif r < 0.3:  # re-publish with other content (metadata version 2)
                publish(epr, 'republish')
        check_local_table()
        # a service this node only DISCOVERED (it is in the table of remote services, it is not published here)
        rm = parse(ctx, wire(ctx, {'kind': 'hello', 'appseq': (7, 1), 'items': [{'epr': REMOTE_ONLY_EPR, 'v': 1, 'types': [TYPE_UNIVERSE[0]], 'scopes': ['http://a/b'],
                                                                                   'xaddrs': ['http://10.9.9.9/x']}]}))
        wsd.handle_received_message(rm, ('10.0.0.98', 3702))
        rec.out.clear()
        # ---- probes, with publish / clear in between
        for pj in range(arg['probes']):
            if interleave and rng.random() < 0.45:
                mutate()
            do_probe(pj)
        if interleave and rng.random() < 0.5:
            mutate()
        do_resolves()
        # ---- everything withdrawn at once: nothing is published any more
        if rng.random() < 0.3:
            clear_all()
            state['mutations'] += 1
            check_local_table()
            do_probe(99)
            do_probe(99)
            do_resolves()


# =============================================================================================
# 3  table of discovered services
# =============================================================================================
def _norm(seq):
    return tuple(sorted(seq or ()))


class TableModel:
    def __init__(self):
        self.ann = {}  # epr -> [(version, types, scopes, xaddrs)] since the last Bye

    def announce(self, item):
        self.ann.setdefault(item['epr'], []).append((item['v'], _norm(item['types']), _norm(item['scopes']), _norm(item['xaddrs'])))

    def bye(self, epr):
        self.ann.pop(epr, None)

    def check(self, ctx, table, trace, last_kind):
        have, want = set(table), set(self.ann)
        for epr in sorted(want - have):
            ctx.witness(f'table.missing_entry.after_{last_kind}', 'an endpoint announced since its last Bye is not in the table of discovered services',
                        {'epr': epr, 'announcements': self.ann[epr], 'trace': trace[-12:]})
        for epr in sorted(have - want):
            ctx.witness(f'table.entry_without_announcement.after_{last_kind}', 'the table holds an endpoint that said Bye (or was never announced)',
                        {'epr': epr, 'trace': trace[-12:]})
        ok = have == want
        for epr in have & want:
            svc = table[epr]
            anns = self.ann[epr]
            top = max(a[0] for a in anns)
            ctx.count('table.entries_checked')
            if svc.metadata_version != top:
                ok = False
                ctx.witness('table.version_not_highest.' + ('lower' if svc.metadata_version < top else 'never_seen'),
                            f'table entry has MetadataVersion {svc.metadata_version}, highest seen since the last Bye is {top}',
                            {'epr': epr, 'announcements': anns, 'trace': trace[-12:]})
                continue
            tops = [a for a in anns if a[0] == top]
            if len(tops) > 1 and len(set(tops)) > 1:
                ctx.count('table.equal_version_different_content')
            got = (_norm((t.namespace, t.localname) for t in (svc.types or ())), _norm(svc.scopes.text if svc.scopes is not None else ()), _norm(svc.x_addrs))
            for idx, name in ((0, 'types'), (1, 'scopes'), (2, 'xaddrs')):
                if got[idx] not in {a[idx + 1] for a in tops}:
                    ok = False
                    ctx.witness(f'table.{name}_from_no_top_announcement', f'table entry carries {name} that no announcement with the highest version contained',
                                {'epr': epr, 'entry': got, 'announcements_with_top_version': tops, 'all': anns, 'trace': trace[-12:]})
        return ok


def _gen_item(rng, eprs, scope_pool):
    r = rng.random
    return {'epr': rng.choice(eprs),
            'v': rng.choice([0, 1, 1, 2, 2, 3, 3, 4, 5, 7, 100, 4294967295]),
            'types': None if r() < 0.25 else rng.sample(TYPE_UNIVERSE, rng.choice([0, 1, 2, 3])),
            'scopes': None if r() < 0.25 else [rng.choice(scope_pool) for _ in range(rng.choice([0, 1, 2, 3]))],
            'xaddrs': None if r() < 0.3 else [f'http://10.0.{rng.randrange(3)}.{rng.randrange(3)}:{rng.choice([6464, 80])}/p' for _ in range(rng.choice([0, 1, 1, 2, 3]))]}


# endpoint references of remote services that are prefixes / case variants of each other: a Bye (or an announcement) for one must not touch another
REMOTE_EPR_RELATED = ['urn:uuid:remote-1', 'urn:uuid:remote-10', 'urn:uuid:REMOTE-1', 'urn:uuid:remote-1/', 'URN:UUID:remote-1', 'urn:uuid:remote']


def _remote_filter_check(ctx, wsd, rng, scope_structs, pool_bytes, trace):
    """the table is searched with the same matching rules (get_found_remote_services -> filter_services); entries may lack Types / Scopes.
    Reference selection over the entries' OWN content (what the table holds, right or wrong, is the other monitor's business)."""
    rname = rng.choice(['rfc3986', 'default', 'default', 'strcmp0', 'unknown'])
    rule = _rule_for(rng, rname)
    f_types = None if rng.random() < 0.4 else rng.sample(TYPE_UNIVERSE, rng.choice([0, 1, 1, 2]))
    if rng.random() < 0.35:
        f_scopes = None
    else:
        f_scopes = []
        for _ in range(rng.choice([0, 1, 1, 2])):
            u = rng.choice(scope_structs)
            if rng.random() < 0.5:
                u = urigen.derive(rng, u, rng.choice(['seg_prefix', 'seg_prefix', 'reencode', 'scheme_case', 'string_prefix', 'longer']), pool_bytes) or u
            f_scopes.append(urigen.render_uri(u, rng))
    if f_scopes is None and rname != 'default':
        rname, rule = 'default', None
    entries = {epr: ([(t.namespace, t.localname) for t in (svc.types or [])], list(svc.scopes.text) if svc.scopes is not None else None)
               for epr, svc in wsd._remote_services.items()}
    want = {epr for epr, (t, sc) in entries.items() if ref_selects(t, sc or [], [tuple(x) for x in f_types or []], f_scopes or [], rule)}
    ctx.count('remote_filter.queries')
    ctx.count('remote_filter.entries_examined', len(entries))
    ctx.count('remote_filter.selected_expected', len(want))
    ctx.count('remote_filter.entries_without_scopes', sum(1 for _, sc in entries.values() if sc is None))
    ctx.case(('remote_filter', rname, len(entries), len(want), f_types is None, len(f_types or []), f_scopes is None, len(f_scopes or [])))
    flt = {'types': f_types, 'scopes': f_scopes, 'rule': rule}
    try:
        got = {s.epr for s in wsd.get_found_remote_services(None if f_types is None else [_qn(t) for t in f_types],
                                                             None if f_scopes is None else _scopes_type(f_scopes, rule))}
    except Exception as ex:  # noqa: BLE001
        ctx.witness(f'remote_filter.raises.{rname}', f'searching the table of discovered services raised {type(ex).__name__}: {ex}',
                    {'filter': flt, 'entries': entries, 'trace': trace[-6:]})
        return
    for epr in sorted(got - want):
        t, sc = entries[epr]
        cause = 'types' if any(tuple(x) not in t for x in (f_types or [])) else _scope_cause(f_scopes, sc or [], rule, rname)
        ctx.witness(_selection_key('remote_filter', 'answers_nonmatching', cause, rname), 'a discovered service that does not satisfy the filter was selected',
                    {'epr': epr, 'entry': entries[epr], 'filter': flt})
    for epr in sorted(want - got):
        cause = _scope_cause(f_scopes, entries[epr][1] or [], rule, rname) if f_scopes else 'types'
        ctx.witness(_selection_key('remote_filter', 'misses_matching', cause, rname), 'a discovered service satisfying the filter was not selected',
                    {'epr': epr, 'entry': entries[epr], 'filter': flt})


def w_table(ctx: core.Ctx, arg):
    warnings.simplefilter('ignore')
    from sdc11073.wsdiscovery import wsdimpl
    rng = ctx.rng('table', arg['i'])
    pool_bytes = _pool_bytes(ctx.seed * 1000 + 80 + arg['i'], 50)
    scope_structs = [urigen.gen_uri(rng, pool_bytes) for _ in range(30)]
    scope_pool = [urigen.render_uri(u, rng) for u in scope_structs]
    raw_rate = 0.3
    for case in range(arg['n']):
        allow_missing = rng.random() < 0.25
        wsdimpl.allow_missing_app_sequence = allow_missing
        wsd, rec = _mk_wsd()
        model = TableModel()
        n_eprs = rng.choice([1, 2, 3, 4])
        related = rng.random() < 0.3
        eprs = rng.sample(REMOTE_EPR_RELATED, n_eprs) if related else [f'urn:uuid:remote-{k}' for k in range(n_eprs)]
        trace = []
        sent = []
        kinds_seen = set()
        broken = False
        for step in range(arg['len']):
            r = rng.random()
            if sent and r < 0.12:
                msg, data, raw = rng.choice(sent)  # a duplicate datagram handled again (identical bytes)
                dup = True
            else:
                dup = False
                kind = rng.choice(['hello', 'hello', 'hello', 'probematches', 'probematches', 'resolvematches', 'resolvematches', 'bye', 'bye'])
                if rng.random() < 0.12:
                    appseq = None
                else:  # InstanceId is an xs:unsignedInt: both ends of its range are ordinary values
                    appseq = (rng.choice([0, 0, 1, 4294967295]) if rng.random() < 0.15 else rng.randrange(1, 1000), rng.randrange(1, 50))
                if kind == 'bye':
                    msg = {'kind': 'bye', 'epr': rng.choice(eprs), 'appseq': appseq}
                    if rng.random() < 0.4:  # a Bye may carry the optional parts of an announcement, its MetadataVersion may be anything
                        it = _gen_item(rng, eprs, scope_pool)
                        msg.update({'v': None if rng.random() < 0.2 else it['v'], 'types': it['types'], 'scopes': it['scopes'], 'xaddrs': it['xaddrs']})
                elif kind == 'probematches':
                    msg = {'kind': kind, 'items': [_gen_item(rng, eprs, scope_pool) for _ in range(rng.choice([0, 1, 1, 2, 3]))], 'appseq': appseq}
                elif kind == 'resolvematches':
                    msg = {'kind': kind, 'items': [] if rng.random() < 0.05 else [_gen_item(rng, eprs, scope_pool)], 'appseq': appseq}
                else:
                    msg = {'kind': kind, 'items': [_gen_item(rng, eprs, scope_pool)], 'appseq': appseq}
                data, raw = wire_any(ctx, msg, rng, raw_rate)
                if data is None:
                    continue
                sent.append((msg, data, raw))
            rm = parse(ctx, data)
            if rm is None:
                continue
            if raw and not dup:
                ctx.count('gen.raw_accepted')
            try:
                wsd.handle_received_message(rm, ('10.0.0.7', 3702))
            except Exception as ex:  # noqa: BLE001  (the receive loop logs and carries on; the statement says nothing about it)
                ctx.count(f'table.handler_raised.{msg["kind"]}.{type(ex).__name__}')
            rec.out.clear()
            kind = msg['kind']
            kinds_seen.add(kind + ('.dup' if dup else '') + ('' if msg.get('appseq') else '.noappseq') + ('.parts' if kind == 'bye' and 'v' in msg else ''))
            ctx.count(f'table.messages.{kind}')
            if kind == 'bye':
                if 'v' in msg and msg['epr'] in model.ann:
                    top = max(a[0] for a in model.ann[msg['epr']])
                    ctx.count('table.bye_with_parts_for_known_entry')
                    if msg['v'] is not None and msg['v'] < top:
                        ctx.count('table.bye_with_lower_version_than_entry')
                model.bye(msg['epr'])
            elif msg.get('appseq') or allow_missing:
                if msg.get('appseq') and msg['appseq'][0] == 0 and msg['items']:
                    ctx.count('table.announcements_with_instance_id_zero')
                for item in msg['items']:
                    model.announce(item)
            else:
                ctx.count('table.ignored_without_appsequence')
            trace.append({'kind': kind, 'dup': dup, 'appseq': msg.get('appseq'), 'epr': msg.get('epr'), 'bye_version': msg.get('v'), 'hand_written_datagram': raw,
                          'items': [(i['epr'], i['v'], i['types'], i['scopes'], i['xaddrs']) for i in msg.get('items', [])]})
            ctx.count('table.checks')
            if related:
                ctx.count('table.checks_related_eprs')
            if not model.check(ctx, wsd._remote_services, trace, kind):
                broken = True
                break
            if rng.random() < 0.12:
                _remote_filter_check(ctx, wsd, rng, scope_structs, pool_bytes, trace)
        ctx.count('table.sequences')
        ctx.case(('table', allow_missing, len(eprs), related, tuple(sorted(kinds_seen)), broken))
        if case == 0:
            ctx.sample({'kind': 'announcement sequence', 'allow_missing_app_sequence': allow_missing, 'first_messages': trace[:6],
                        'final_table': {e: s.metadata_version for e, s in wsd._remote_services.items()}})
    wsdimpl.allow_missing_app_sequence = False


# =============================================================================================
# 4  duplicate filter of the real receive loop
# =============================================================================================
class LowRandom(EnumRandom):
    def randint(self, a, b):
        return a

    def randrange(self, a, b=None):
        return 0 if b is None else a


def w_dup(ctx: core.Ctx, arg):
    warnings.simplefilter('ignore')
    from sdc11073.wsdiscovery.wsdimpl import WSDiscovery
    rng = ctx.rng('dup', arg['i'])
    for case in range(arg['n']):
        log = []          # (feed index, message id, [outbound ids queued while handling it])
        current = []
        done = threading.Event()

        class CountingWSD(WSDiscovery):
            def handle_received_message(self, received_message, addr_from):
                mid = received_message.p_msg.header_info_block.MessageID
                entry = (addr_from[1] - 10000, mid, [])
                log.append(entry)
                current[:] = [entry]
                try:
                    if mid != 'urn:uuid:sentinel':
                        super().handle_received_message(received_message, addr_from)
                finally:
                    current[:] = []
                    if mid == 'urn:uuid:sentinel':
                        done.set()

        wsd = CountingWSD('127.0.0.1')
        thread = mk_networking_thread(wsd, VClock(), LowRandom())
        wsd._networking_thread = thread
        wsd._server_started = True
        window = thread._known_message_ids.maxlen
        ctx.extra['known_ids_window'] = [window]
        pre_out = []
        orig_add = thread.add_outbound_message

        def add_outbound(msg, addr, port, params, _orig=orig_add):
            (current[0][2] if current else pre_out).append(msg.p_msg.header_info_block.MessageID)
            _orig(msg, addr, port, params)

        thread.add_outbound_message = add_outbound
        # something local to answer Probes / Resolves with (their answers use up places in the window of remembered ids)
        wsd.publish_service('urn:uuid:local-0', [_qn(TYPE_UNIVERSE[0])], _scopes_type(['http://a/b']), ['http://10.0.0.1/x'])
        # ---- feed: fresh messages and repetitions at chosen distances
        w = window or 200
        msgs = []   # (kind, data, mid)

        KINDS = ['bye', 'bye', 'bye', 'hello', 'hello', 'probe', 'resolve', 'probematches', 'resolvematches', 'resolvematches_empty', 'hello_noxaddrs']

        def mk(kind, k, mid):
            item = {'epr': f'urn:uuid:r-{k % 7}', 'v': rng.randrange(1, 5), 'types': [TYPE_UNIVERSE[0]], 'scopes': ['http://a/b'], 'xaddrs': ['http://10.1.1.1/x']}
            if kind == 'bye':
                m = {'kind': 'bye', 'epr': item['epr'], 'appseq': (1, 1)}
            elif kind == 'probe':
                m = {'kind': 'probe', 'types': None, 'scopes': None}
            elif kind == 'resolve':
                m = {'kind': 'resolve', 'epr': rng.choice(['urn:uuid:local-0', 'urn:uuid:nobody'])}
            elif kind == 'resolvematches_empty':  # ResolveMatches without a ResolveMatch: schema-valid, the handler raises on it
                m = {'kind': 'resolvematches', 'items': [], 'appseq': (1, 1)}
            elif kind == 'hello_noxaddrs':  # makes the node send a Resolve of its own (one more id in its memory)
                m = {'kind': 'hello', 'items': [{**item, 'xaddrs': None}], 'appseq': (1, 1)}
            else:
                m = {'kind': kind, 'items': [item], 'appseq': (1, 1)}
            m['mid'] = mid
            data = c14_wire.render(m, rng) if rng.random() < 0.2 else build(m).serialize()
            msgs.append((kind, data, mid))
            return len(msgs) - 1

        def fresh(kind=None):
            k = len(msgs)
            return mk(kind or rng.choice(KINDS), k, f'urn:uuid:m-{case}-{k}')

        def again(mi, other=None):
            """the same message id once more: the identical datagram or (another sender re-using the id, a re-serialised copy) another message with that id"""
            if not (rng.random() < 0.3 if other is None else other):
                return mi
            kind = rng.choice([k for k in KINDS if k != msgs[mi][0]])
            idx = mk(kind, len(msgs), msgs[mi][2])
            other_body.add(idx)
            return idx

        other_body = set()
        feed = []   # indexes into msgs
        plan = arg['plan']
        if plan == 'edge':
            # X, then `gap` fresh ids, then X again - for gaps around the window size
            for gap in [0, 1, 2, w // 2, w - 3, w - 2, w - 1, w, w + 1, w + 5][case % 10:][:3]:
                x = fresh()
                feed.append(x)
                feed.extend(fresh('bye') for _ in range(gap))  # Bye: no answer, exactly one id per datagram
                feed.append(again(x))
                feed.extend(fresh() for _ in range(3))
            # directed: an id whose first handling raised, and an id that comes back with another message around it
            x = fresh('resolvematches_empty')
            feed.extend([x, fresh('bye'), x, again(x, other=True)])
            y = fresh('hello')
            feed.extend([y, again(y, other=True), fresh('probe'), again(y, other=True)])
        else:
            for _ in range(arg['len']):
                r = rng.random()
                if feed and r < 0.35:
                    back = rng.choice([1, 1, 2, 3, 5, 10, 50, w - 1, w, w + 10, 3 * w])
                    feed.append(again(feed[max(0, len(feed) - back)]))
                elif feed and r < 0.40:
                    feed.extend([feed[-1]] * rng.randrange(1, 4))  # UDP repetition burst
                else:
                    feed.append(fresh())
        garbage = {len(feed) // 3: b'<not xml', 2 * len(feed) // 3: b'<a xmlns="http://schemas.xmlsoap.org/ws/2005/04/discovery"/>'}
        for pos, mi in enumerate(feed):
            if pos in garbage:
                thread._read_queue.put((('10.0.0.1', 9999), garbage[pos]))
            thread._read_queue.put(((f'10.0.0.{1 + pos % 3}', 10000 + pos), msgs[mi][1]))  # the sender address is no part of the id
        sentinel = build({'kind': 'bye', 'epr': 'urn:uuid:nobody', 'appseq': (1, 1), 'mid': 'urn:uuid:sentinel'}).serialize()
        thread._read_queue.put((('10.0.0.1', 10000 + len(feed)), sentinel))
        th = threading.Thread(target=thread._run_q_read, daemon=True)
        th.start()
        ok = done.wait(120)
        thread._quit_recv_event.set()
        th.join(5)
        if not ok:
            ctx.not_decided('q-read loop did not reach the sentinel (watchdog)')
            continue
        # ---- reference window, replayed over the feed
        handled = {pos: outs for pos, mid, outs in log}
        model = collections.deque(pre_out, maxlen=window)
        model.reverse()
        acted = collections.Counter()
        first_pos = {}
        raised_kinds = ('resolvematches_empty',)
        for pos, mi in enumerate(feed):
            kind, _, mid = msgs[mi]
            remembered = mid in model
            was_handled = pos in handled
            first_pos.setdefault(mid, pos)
            ctx.count('dup.datagrams')
            if remembered:
                ctx.count('dup.repeats_inside_window')
                if mi in other_body:
                    ctx.count('dup.repeats_inside_window.same_id_other_message')
                if msgs[feed[first_pos[mid]]][0] in raised_kinds:
                    ctx.count('dup.repeats_inside_window.first_handling_raised')
                if was_handled:
                    ctx.witness('dup.acted_again_inside_window.' + ('same_id_other_message' if mi in other_body else kind),
                                f'message id handled again although it is among the last {window} ids the node has seen',
                                {'position': pos, 'first_position': first_pos[mid], 'first_kind': msgs[feed[first_pos[mid]]][0], 'kind': kind,
                                 'ids_since': len({msgs[x][2] for x in feed[first_pos[mid]:pos]}), 'window': window})
                else:
                    ctx.count('dup.suppressed_inside_window')
            else:
                if acted[mid]:
                    ctx.count('dup.repeats_after_eviction')
                if was_handled:
                    ctx.count('dup.handled_new_or_evicted')
                else:
                    ctx.count('dup.not_handled_although_not_remembered')
                model.appendleft(mid)
            if was_handled:
                acted[mid] += 1
                for o in handled[pos]:
                    model.appendleft(o)
        ctx.count('dup.runs')
        ctx.case(('dup', plan, len(feed) // 50, sum(1 for v in acted.values() if v > 1), len(other_body) // 5))
        if case == 0:
            ctx.sample({'kind': 'duplicate filter', 'plan': plan, 'datagrams': len(feed), 'distinct_ids': len({msgs[x][2] for x in feed}), 'handled': len(log) - 1, 'window': window})


def run(ctx: core.Ctx):
    ctx.rule = ('(1) one case = one (requested scope, offered scope, rule) triple from a URI grammar (base URI + a named relation: re-encoding, case changes, '
                'segment prefix, string prefix, %2F vs /, empty segments, trailing slash, ...), distinct = (rule, relation, reference answer, segment counts); '
                '(2) one case = one Probe / Resolve handled by a WSDiscovery with 0-6 published services, publish / re-publish / clear / clear-all between the requests, '
                'Resolve addresses = published, cleared, unknown, empty, near misses of published ones, a service only known as remote; messages from the real factory '
                'or hand-written with foreign prefixes; distinct = (rule, #services, #selected, shape of the filter, mutated, hand-written) / (class of the address); '
                '(3) one case = one sequence of Hello/ProbeMatches/ResolveMatches/Bye (Bye with and without optional parts), table compared after every message, '
                'distinct = set of message kinds seen; plus searches of the table with type / scope filters, distinct as for a Probe; '
                '(4) one case = one datagram feed through the real receive loop (ids repeated with identical and with other content); non-trivial = every case')
    q = ctx.quick
    jobs = []
    for i in range(8 if q else 48):  # thorough: many short jobs, so that no worker comes near the wall-clock watchdog on a loaded machine
        jobs.append(['w_match', {'i': i, 'n': 6500 if q else 107000, 'pool': 150 if q else 800}])
    for i in range(8 if q else 48):
        jobs.append(['w_probe', {'i': i, 'n': 60 if q else 500, 'probes': 6, 'pool': 60 if q else 300}])
    for i in range(8 if q else 48):
        jobs.append(['w_table', {'i': i, 'n': 250 if q else 1070, 'len': 30 if q else 60}])
    for i in range(4 if q else 16):
        jobs.append(['w_dup', {'i': i, 'n': 10 if q else 30, 'plan': 'edge'}])
        jobs.append(['w_dup', {'i': 100 + i, 'n': 4 if q else 40, 'plan': 'random', 'len': 600}])
    core.fanout(ctx, MODULE, 'dispatch', jobs)
    for rname in ('rfc3986', 'default', 'strcmp0'):
        ctx.floor(f'match.{rname}.ref_true', 500)
        ctx.floor(f'match.{rname}.ref_false', 500)
    ctx.floor('match.unknown.ref_false', 500)
    ctx.floor('match.directed', 30)
    ctx.floor('probe.probes', 1000)
    ctx.floor('probe.matches_expected', 300)
    ctx.floor('resolve.published', 300)
    ctx.floor('resolve.unpublished', 300)
    ctx.floor('table.checks', 20000)
    ctx.floor('table.entries_checked', 20000)
    ctx.floor('table.equal_version_different_content', 500)
    ctx.floor('table.messages.bye', 1000)
    ctx.floor('dup.suppressed_inside_window', 200)
    ctx.floor('dup.repeats_after_eviction', 5)
    # round 4
    ctx.floor('gen.raw_accepted', 2000)
    ctx.floor('probe.after_mutation', 300)
    ctx.floor('probe.after_mutation.matches_expected', 100)
    ctx.floor('probe.after_clear_all', 100)
    ctx.floor('probe.service_own_matchby', 100)
    ctx.floor('probe.service_scopes_none', 30)
    ctx.floor('probe.content_checked', 300)
    ctx.floor('resolve.content_checked', 300)
    for cls, n in (('empty', 200), ('near_miss', 500), ('remote', 200), ('cleared', 200), ('unknown', 500)):
        ctx.floor(f'resolve.unpublished.{cls}', n)
    ctx.floor('resolve.after_clear_all', 200)
    ctx.floor('table.announcements_with_instance_id_zero', 300)
    ctx.floor('table.bye_with_parts_for_known_entry', 500)
    ctx.floor('table.bye_with_lower_version_than_entry', 200)
    ctx.floor('table.checks_related_eprs', 3000)
    ctx.floor('remote_filter.queries', 2000)
    ctx.floor('remote_filter.selected_expected', 500)
    ctx.floor('remote_filter.entries_without_scopes', 200)
    ctx.floor('dup.repeats_inside_window.same_id_other_message', 100)
    ctx.floor('dup.repeats_inside_window.first_handling_raised', 40)
    ctx.assumptions += [
        'judged rules: rfc3986, absent MatchBy (= rfc3986, the WS-Discovery default), strcmp0, and unknown rule URIs (no match); ldap / uuid / empty MatchBy are not judged',
        'scheme, authority and path are the only compared components (query and fragment are not part of the comparison); an absent and an empty authority are the same; '
        'percent-decoding yields octets (two different octet sequences are different segments even if neither is valid UTF-8)',
        'generated scopes are syntactically valid RFC 3986 URIs (plus IRIs with raw non-ASCII path characters); scheme and authority are ASCII',
        'table oracle: entry version = highest version announced since the last Bye; types / scopes / addresses each equal those of SOME announcement with that version '
        '(the library merges equal-version announcements field by field; absent and empty lists are not distinguished)',
        'an announcement without AppSequence counts only if wsdimpl.allow_missing_app_sequence is set (documented switch; both settings are exercised)',
        'Resolve: "answered iff published" is checked in both directions (the statement literally demands only "answered => published"); an endpoint reference is '
        'published iff its address is, character by character, the epr of a service published and not cleared since (no case folding, no prefix, no decoding)',
        'the rule of a Probe is the MatchBy of the PROBE; a MatchBy on the scopes a service was published / announced with does not take part',
        'a ProbeMatch / ResolveMatch may leave optional parts out; a part it carries (types, scopes, addresses) must be that of the current publication of the endpoint',
        'a Bye ends the history of its endpoint reference whatever optional parts (MetadataVersion, ...) it carries',
        'searching the table (get_found_remote_services) uses the same rules as answering a Probe; judged against the entries as they are in the table',
        'a message id that comes back with other content (other action, other sender) is still the same id',
        'remembered ids: window size read from the node itself (deque maxlen), own outbound ids take places in it',
    ]


def dispatch(ctx: core.Ctx, job):
    globals()[job[0]](ctx, job[1])
