"""C20 - query services return exactly the selected states and texts.

Real provider + real consumer service clients (GetService, ContextService, LocalizationService) over the loop-back transport.

(1) states: the four sample MDIBs are evolved by seeded histories (vf.mdibops; extra context descriptors are added under every
    SystemContext through a descriptor transaction, so the second MDS of mdib_two_mds.xml owns context states too).  At quiescent
    points GetMdState / GetContextStates are called with generated handle lists; the response is compared as a MULTISET of
    (kind, handle, StateVersion) with ``reference_selection`` - an independent implementation of the BICEPS rules named in the
    statement, computed on ``snap(provider mdib)`` (parents are walked in the canonical descriptor table, source_mds is not used).
(2) texts: generated text stores x presence patterns of the five filter parameters.  Soundness is judged for every request (every
    returned text is a stored text and satisfies every given constraint), exact content only for the unconstrained request and for
    GetSupportedLanguages.  Completeness of width / lines constrained requests is NOT demanded ("best match" is implementation
    defined).
(3) round 4: the CONTENT of every returned state is compared with the MDIB (not only handle + version); one handle of every descriptor
    NODETYPE, very long lists and handles of removed context states are asked in every world (vf.c20_more); both provider component
    sets (sync / async); the option contextstates_in_getmdib is switched while the provider runs; the same monitors run over REAL
    sockets with the library's default components (vf.realworld); texts: boundary values of every filter parameter and boundary stores,
    the storage driven through its whole API (constructor with texts, add, replacement of the storage object = the only way to remove
    texts), GetSupportedLanguages asked again after every change of the store.
"""
from __future__ import annotations

import os
from collections import Counter

from sdc11073.provider.porttypes.localizationservice import LocalizationStorage
from sdc11073.xml_types import pm_qnames as pm
from sdc11073.xml_types import pm_types

from .. import c20_more, core, mdibops
from ..history import canon, first_difference, snap, tolerant_equal
from ..mdibharness import MDIB_FILES, World

MODULE = 'vf.props.c20'
MDS_TYPE = pm.MdsDescriptor.text


# ------------------------------------------------------------------------------------------------
# reference model (states)
# ------------------------------------------------------------------------------------------------
def _field(c, name):
    return dict(c[1]).get(name)


def reference_selection(s: dict, handles, service: str):
    """BICEPS selection on a canonical snapshot -> (Counter{(kind, handle, StateVersion): 1}, mds_of(descriptor handle))."""
    parent = {h: c[2][1] for h, c in s['descr'].items()}
    ntype = {h: c[3][1] for h, c in s['descr'].items()}
    single = {h: _field(c, 'StateVersion') for h, c in s['states'].items()}
    multi = {h: (_field(c, 'DescriptorHandle'), _field(c, 'StateVersion')) for h, c in s['ctx'].items()}

    def mds_of(descr_handle):
        seen = set()
        while descr_handle is not None and descr_handle not in seen:
            seen.add(descr_handle)
            if ntype.get(descr_handle) == MDS_TYPE:
                return descr_handle
            descr_handle = parent.get(descr_handle)
        return None

    sel = set()
    if not handles:
        sel |= {('ctx', h) for h in multi}
        if service == 'GetMdState':
            sel |= {('state', h) for h in single}
    for h in handles or []:
        if h in multi:  # a context state handle: that state
            sel.add(('ctx', h))
        if h in parent:  # a descriptor handle: all its states
            if service == 'GetMdState' and h in single:
                sel.add(('state', h))
            sel |= {('ctx', ch) for ch, (dh, _) in multi.items() if dh == h}
            if service == 'GetContextStates' and ntype[h] == MDS_TYPE:  # all context states of that MDS
                sel |= {('ctx', ch) for ch, (dh, _) in multi.items() if mds_of(dh) == h}
        # unknown handle: nothing
    return Counter({(k, h, single[h] if k == 'state' else multi[h][1]): 1 for k, h in sel}), mds_of


def observed_selection(states) -> Counter:
    out = Counter()
    for st in states:
        if st.is_context_state:
            out[('ctx', st.Handle, st.StateVersion)] += 1
        else:
            out[('state', st.DescriptorHandle, st.StateVersion)] += 1
    return out


# ------------------------------------------------------------------------------------------------
# handle list generator
# ------------------------------------------------------------------------------------------------
LIST_CLASSES = ['empty', 'none', 'one_descr', 'one_ctx_state', 'one_ctx_descr', 'one_mds', 'all_mds', 'unknown', 'dup_descr',
                'dup_ctx_state', 'dup_ctx_descr', 'ctx_descr+own_state', 'own_state+ctx_descr', 'mds+ctx_state', 'mds+ctx_descr',
                'mixed', 'mixed', 'mixed_with_dups', 'deleted', 'two_ctx_states_one_descr']
UNKNOWN = ['does.not.exist', ' ', 'LC.mds0 ', 'pc.MDS0', '0', 'ÄÖ-unknown']  # (an empty HandleRef is not schema-valid)


def gen_handles(rng, cls, s, memo):
    descr = sorted(s['descr'])
    ctx_states = sorted(s['ctx'])
    ctx_descr = sorted(h for h, c in s['descr'].items() if 'ContextDescriptor' in c[3][1] and 'System' not in c[3][1])
    mds = sorted(h for h, c in s['descr'].items() if c[3][1] == MDS_TYPE)
    by_descr = {}
    for h, c in s['ctx'].items():
        by_descr.setdefault(_field(c, 'DescriptorHandle'), []).append(h)
    if cls == 'empty':
        return []
    if cls == 'none':
        return None
    if cls == 'one_descr':
        return [rng.choice(descr)]
    if cls == 'one_ctx_state' and ctx_states:
        return [rng.choice(ctx_states)]
    if cls == 'one_ctx_descr' and ctx_descr:
        return [rng.choice(ctx_descr)]
    if cls == 'one_mds':
        return [rng.choice(mds)]
    if cls == 'all_mds':
        return list(mds)
    if cls == 'unknown':
        return rng.sample(UNKNOWN, rng.randrange(1, 3))
    if cls == 'dup_descr':
        h = rng.choice(descr)
        return [h] * rng.randrange(2, 4)
    if cls == 'dup_ctx_state' and ctx_states:
        return [rng.choice(ctx_states)] * 2
    if cls == 'dup_ctx_descr' and ctx_descr:
        return [rng.choice(ctx_descr)] * 2
    if cls in ('ctx_descr+own_state', 'own_state+ctx_descr') and by_descr:
        d = rng.choice(sorted(by_descr))
        pair = [d, rng.choice(sorted(by_descr[d]))]
        return pair if cls == 'ctx_descr+own_state' else pair[::-1]
    if cls == 'mds+ctx_state' and ctx_states:
        return [rng.choice(mds), rng.choice(ctx_states)]
    if cls == 'mds+ctx_descr' and ctx_descr:
        return [rng.choice(mds), rng.choice(ctx_descr)]
    if cls == 'deleted' and memo.get('deleted'):
        return [rng.choice(memo['deleted'])] + ([rng.choice(descr)] if rng.random() < 0.5 else [])
    if cls == 'two_ctx_states_one_descr':
        many = sorted(d for d, hs in by_descr.items() if len(hs) >= 2)
        if many:
            return rng.sample(sorted(by_descr[rng.choice(many)]), 2)
    # mixed
    pools = [descr, descr, ctx_states or descr, ctx_descr or descr, mds, UNKNOWN]
    out = [rng.choice(rng.choice(pools)) for _ in range(rng.randrange(2, 9))]
    if cls == 'mixed_with_dups':
        out += rng.sample(out, min(len(out), rng.randrange(1, 3)))
        rng.shuffle(out)
    return out


def handle_kinds(s, handles):
    """shape of a handle list: per entry the kind of thing it names and how often it was named before"""
    out = []
    seen = Counter()
    for h in handles or []:
        if h in s['ctx']:
            k = 'ctxstate'
        elif h in s['descr']:
            t = s['descr'][h][3][1].rsplit('}', 1)[-1].replace('Descriptor', '')
            k = t if ('Context' in t or t == 'Mds') else ('single' if h in s['states'] else 'stateless')
        else:
            k = 'unknown'
        out.append(f'{k}#{seen[h]}' if seen[h] else k)
        seen[h] += 1
    return tuple(out)


# ------------------------------------------------------------------------------------------------
# the state query monitor
# ------------------------------------------------------------------------------------------------
def judge_states(ctx, service, s, handles, result, detail):
    want, mds_of = reference_selection(s, handles, service)
    if service == 'GetMdState' and detail.get('contextstates_in_getmdib') is False:
        # provider option: context states are served by GetContextStates only; GetMdib / GetMdState do not contain them (documented behaviour of
        # SdcProvider.contextstates_in_getmdib) - the selection rules apply to the single states
        want = Counter({k: n for k, n in want.items() if k[0] != 'ctx'})
    returned = result.MdState.State if service == 'GetMdState' else result.ContextState
    got = observed_selection(returned)
    key = 'getmdstate' if service == 'GetMdState' else 'getcontextstates'
    ctx.count(f'{key}.responses')
    ctx.count(f'{key}.states_returned', sum(got.values()))
    # "that state": a returned state whose identity and version are those of a selected MDIB state carries the content of that state
    content_ok = True
    for st in returned:
        ident = ('ctx', st.Handle, st.StateVersion) if st.is_context_state else ('state', st.DescriptorHandle, st.StateVersion)
        if ident not in want:
            continue
        ctx.count(f'{key}.contents_compared')
        mine, theirs = canon(st), s['ctx' if ident[0] == 'ctx' else 'states'][ident[1]]
        if not tolerant_equal(theirs, mine):
            content_ok = False
            ctx.witness(f'{key}.state_content_differs', f'{service} returns a selected state with a content different from the MDIB state',
                        {**detail, 'handles': short_handles(handles), 'state': list(ident), 'difference (mdib != response)': first_difference(theirs, mine)})
    if got == want:
        return content_ok
    want_ids = {(k, h): v for k, h, v in want}
    got_ids = Counter()
    for (k, h, v), n in got.items():
        got_ids[(k, h)] += n
    info = {**detail, 'handles': short_handles(handles), 'expected': sorted(want)[:8], 'observed': sorted(got.elements())[:12]}
    ok_versions = True
    for (k, h, v) in got:
        if (k, h) in want_ids and want_ids[(k, h)] != v:
            ok_versions = False
            ctx.witness(f'{key}.wrong_version', f'{service} returns a state with a StateVersion different from the MDIB', {**info, 'state': [k, h, v]})
    dups = sorted(kh for kh, n in got_ids.items() if n > 1 and kh in want_ids)
    extra = sorted(kh for kh in got_ids if kh not in want_ids)
    missing = sorted(kh for kh in want_ids if kh not in got_ids)
    if dups:
        ctx.witness(f'{key}.duplicate_state', f'{service} returns a selected state more than once', {**info, 'duplicated': dups[:4]})
    if extra:
        sub = 'unselected_state'
        req_mds = {h for h in handles or [] if s['descr'].get(h, (0, 0, 0, (0, None)))[3][1] == MDS_TYPE}
        if service == 'GetContextStates' and req_mds:
            foreign = [kh for kh in extra if mds_of(_field(s['ctx'][kh[1]], 'DescriptorHandle')) not in req_mds] if all(kh[1] in s['ctx'] for kh in extra) else []
            if foreign:
                sub = 'mds_handle_foreign_mds'
        ctx.witness(f'{key}.{sub}', f'{service} returns a state that the handle list does not select', {**info, 'not_selected': extra[:6]})
    if missing:
        ctx.witness(f'{key}.missing_state', f'{service} omits a state that the handle list selects', {**info, 'missing': missing[:6]})
    if not (dups or extra or missing) and ok_versions:
        ctx.witness(f'{key}.multiset_differs', f'{service} response differs from the reference selection', info)
    return False


def add_context_descriptors(mdib):
    """every SystemContext gets the context descriptor kinds it does not have yet (all six kinds exist under every MDS afterwards)."""
    made = []
    with mdib.descriptor_transaction() as mgr:
        for sc in sorted(d.Handle for d in mdib.descriptions.NODETYPE.get(pm.SystemContextDescriptor, [])):
            children = {d.NODETYPE for d in mdib.descriptions.parent_handle.get(sc, [])}
            for qn, prefix in ((pm.PatientContextDescriptor, 'PCx'), (pm.LocationContextDescriptor, 'LCx'), (pm.EnsembleContextDescriptor, 'ECx'),
                               (pm.OperatorContextDescriptor, 'OCx'), (pm.WorkflowContextDescriptor, 'WCx'), (pm.MeansContextDescriptor, 'MCx')):
                if qn in children:
                    continue
                cls = mdib.data_model.get_descriptor_container_class(qn)
                d = cls(handle=f'{prefix}.{sc}', parent_handle=sc)
                d.SafetyClassification = pm_types.SafetyClassification.INF
                mgr.add_descriptor(d)
                made.append(d.Handle)
    return made


def short_handles(handles):
    return handles if handles is None or len(handles) <= 12 else handles[:12] + [f'... {len(handles)} handles']


def ask_both(ctx, clients, s, handles, cls, detail, mark=None):
    """one handle list sent to GetMdState and GetContextStates through the consumer clients, both answers judged on snapshot s"""
    get_client, ctx_client = clients
    kinds = handle_kinds(s, handles)
    results = {}
    for service in ('GetMdState', 'GetContextStates'):
        d = {**detail, 'service': service, 'list_class': cls, 'mdib_version': s['version'][0]}
        key = 'getmdstate' if service == 'GetMdState' else 'getcontextstates'
        try:
            res = get_client.get_md_state(handles) if service == 'GetMdState' else ctx_client.get_context_states(handles)
        except Exception as ex:  # noqa: BLE001
            ctx.witness(f'{key}.request_failed', f'{service} with a well-formed handle list failed',
                        {**d, 'handles': short_handles(handles), 'exception': repr(ex)[:300]})
            ctx.case((service, 'failed', kinds if len(kinds) <= 4 else tuple(sorted(set(kinds)))))
            continue
        if res.mdib_version_group.mdib_version != s['version'][0]:
            ctx.not_decided(f'MDIB moved during a query ({res.mdib_version_group.mdib_version} != {s["version"][0]})')
            continue
        ok = judge_states(ctx, service, s, handles, res.result, d)
        results[service] = (res, ok)
        if mark:
            ctx.count(f'{key}.{mark}')
        if any(k.startswith('Mds') for k in kinds) and service == 'GetContextStates':
            ctx.count('getcontextstates.with_mds_handle')
            if detail.get('two_mds_have_states'):
                ctx.count('getcontextstates.with_mds_handle.two_mds_have_states')
        if any('#' in k for k in kinds):
            ctx.count(f'{key}.with_repeated_handle')
        n_sel = len(res.result.MdState.State if service == 'GetMdState' else res.result.ContextState)
        ctx.case((service, kinds if len(kinds) <= 4 else tuple(sorted(set(kinds))), min(n_sel, 3), ok), nontrivial=True)
    return results


def evolve(ctx, mdib, rng, memo, weights, n_ops, removed):
    for _ in range(n_ops):
        ap = mdibops.apply_op(mdib, mdibops.gen_op(rng, mdib, memo, weights), memo)
        if ap.outcome == 'ok' and ap.expect == 'commit' and ap.deleted_ctx:
            removed.extend(sorted(ap.deleted_ctx))
            ctx.count('history.context_states_removed', len(ap.deleted_ctx))


def take_snapshot(ctx, mdib):
    s = snap(mdib, with_index_check=False)
    per_descr = Counter(_field(c, 'DescriptorHandle') for c in s['ctx'].values())
    ctx.count('snapshot.taken')
    ctx.count('snapshot.ctx_descr_with_2plus_states', sum(1 for n in per_descr.values() if n >= 2))
    mds_with_ctx = {reference_selection(s, [], 'GetContextStates')[1](d) for d in per_descr}
    if len(mds_with_ctx) >= 2:
        ctx.count('snapshot.two_mds_with_context_states')
    return s, len(mds_with_ctx) >= 2


STATE_WEIGHTS = {'context': 30, 'location': 6, 'abort': 1, 'reject': 1, 'rt': 1, 'metric': 5, 'alert': 3, 'descr_create': 5, 'descr_delete': 4,
                 'ctx_delete': 4}   # (no consumer MDIB is attached: context states may be removed through the entity interface)


def directed_lists(ctx, s, rng, removed, sweep: bool):
    out = c20_more.removed_ctx_lists(s, removed, rng)
    if sweep:
        out += c20_more.type_sweep(s, rng) + c20_more.big_lists(s, rng)
    return out


def w_states(ctx: core.Ctx, arg):
    rng = ctx.rng('states', arg['i'])
    weights = dict(mdibops.DEFAULT_WEIGHTS)
    weights.update(STATE_WEIGHTS)
    for wno in range(arg['worlds']):
        k = arg['i'] + wno
        mdib_file = MDIB_FILES[k % len(MDIB_FILES)]
        ctx_in_getmdib = k % 3 != 1    # the provider option contextstates_in_getmdib changes the code path of GetMdState
        async_mgr = (k // 4) % 2 == 1  # both provider component sets
        switching = (k // 2) % 2 == 1  # the application switches the option while the provider is running
        world = World(mdib_file, role_provider=False, contextstates_in_getmdib=ctx_in_getmdib, async_mgr=async_mgr)
        ctx.count(f'world.contextstates_in_getmdib.{ctx_in_getmdib}')
        ctx.count(f'world.components.{"async" if async_mgr else "sync"}')
        try:
            mdib = world.mdib
            consumer, _ = world.add_consumer(with_mdib=False)
            clients = (consumer.client('Get'), consumer.client('Context'))
            made = add_context_descriptors(mdib)
            ctx.count('world.context_descriptors_added', len(made))
            memo, removed = {}, []
            switched = False
            for rnd in range(arg['rounds']):
                evolve(ctx, mdib, rng, memo, weights, arg['ops'], removed)
                s, two = take_snapshot(ctx, mdib)
                base = {'mdib_file': mdib_file, 'transport': 'loop-back', 'async_components': async_mgr, 'two_mds_have_states': two}
                for cls, handles in directed_lists(ctx, s, rng, removed, sweep=rnd % 5 == 0):
                    detail = {**base, 'contextstates_in_getmdib': world.provider.contextstates_in_getmdib}
                    ask_both(ctx, clients, s, handles, cls, detail)
                    ctx.count(f'directed.{cls}')
                for q in range(arg['queries']):
                    if switching and q == arg['queries'] // 2:
                        world.provider.contextstates_in_getmdib = not world.provider.contextstates_in_getmdib
                        switched = True
                        ctx.count('world.option_switched_at_runtime')
                    cls = LIST_CLASSES[q % len(LIST_CLASSES)] if q < 2 * len(LIST_CLASSES) else rng.choice(LIST_CLASSES)
                    handles = gen_handles(rng, cls, s, memo)
                    detail = {**base, 'contextstates_in_getmdib': world.provider.contextstates_in_getmdib}
                    results = ask_both(ctx, clients, s, handles, cls, detail, mark='responses.after_runtime_switch' if switched else None)
                    ctx.count(f'list.{cls}')
                    if rnd == 0 and wno == 0 and arg['i'] == 0 and q in (3, 11):
                        for service, (res, _ok) in results.items():
                            ctx.sample({**detail, 'service': service, 'list_class': cls, 'handles': handles, 'returned': sorted(observed_selection(
                                res.result.MdState.State if service == 'GetMdState' else res.result.ContextState).elements())[:6]})
                world.network.log.clear()
        finally:
            world.stop()


def w_real(ctx: core.Ctx, arg):
    """the same monitors with NOTHING replaced below the service clients: real HTTP servers / clients on 127.0.0.1, the library's default
    components (sync or async provider set), compression, optional chunking."""
    from ..realworld import RealWorld
    rng = ctx.rng('real', arg['i'])
    k = arg['i']
    mdib_file = MDIB_FILES[(k + 2 + k // 4) % len(MDIB_FILES)]   # job 0 gets the two-MDS MDIB
    async_mgr = k % 2 == 0
    chunk = [0, 300, 0, 41][k % 4]
    ctx_in_getmdib = k % 4 != 3
    try:
        world = RealWorld(mdib_file, async_mgr=async_mgr, chunk_size=chunk, contextstates_in_getmdib=ctx_in_getmdib)
    except Exception as ex:  # noqa: BLE001
        ctx.not_decided(f'real-socket world could not be set up: {ex!r}')
        return
    try:
        mdib = world.mdib
        consumer, _ = world.add_consumer(with_mdib=False)
        clients = (consumer.client('Get'), consumer.client('Context'))
        add_context_descriptors(mdib)
        weights = dict(mdibops.DEFAULT_WEIGHTS)
        weights.update(STATE_WEIGHTS)
        memo, removed = {}, []
        ctx.count(f'real.world.{"async" if async_mgr else "sync"}')
        if chunk:
            ctx.count('real.world.chunked')
        for rnd in range(arg['rounds']):
            evolve(ctx, mdib, rng, memo, weights, arg['ops'], removed)
            s, two = take_snapshot(ctx, mdib)
            detail = {'mdib_file': mdib_file, 'transport': 'real sockets', 'async_components': async_mgr, 'chunk_size': chunk,
                      'contextstates_in_getmdib': ctx_in_getmdib, 'two_mds_have_states': two}
            lists = directed_lists(ctx, s, rng, removed, sweep=rnd == 0)
            lists += [(cls, gen_handles(rng, cls, s, memo)) for cls in LIST_CLASSES[:arg['queries']]]
            for cls, handles in lists:
                for service, (_res, _ok) in ask_both(ctx, clients, s, handles, cls, detail).items():
                    ctx.count(f'real.{"getmdstate" if service == "GetMdState" else "getcontextstates"}.responses')
        client = consumer.localization_service_client
        service = world.provider.hosted_services.localization_service
        if client is None or service is None:
            ctx.not_decided('LocalizationService not available')
            return
        before = ctx.counters['getlocalizedtext.responses']
        text_session(ctx, ctx.rng('real-texts', arg['i']), world.provider, service, client,
                     {'i': arg['i'], 'stores': arg['stores'], 'extra': 0, 'first': 6 + arg['i'] * arg['stores']}, 'real sockets')
        ctx.count('real.getlocalizedtext.responses', ctx.counters['getlocalizedtext.responses'] - before)
    finally:
        world.stop()


# ------------------------------------------------------------------------------------------------
# texts
# ------------------------------------------------------------------------------------------------
WIDTHS = list(pm_types.LocalizedTextWidth)
W_RANK = {w: i for i, w in enumerate(WIDTHS)}  # xs < s < m < l < xl < xxl (declaration order of the enum = BICEPS order)
REFS = ['r1', 'r2', 'ref.3', 'Übr', 'r1x']
LANGS = ['en', 'de', 'en-US', 'fr', 'zh-Hans']
WORDS = ['alpha', 'beta gamma', 'Größe', '東京', 'x', 'a&b <c>', 'line']


def text_key(t):
    return (t.text or '', t.Lang, t.Ref, t.Version, t.TextWidth.value if t.TextWidth is not None else None)


def min_lines(text: str) -> int:
    """lower bound of the number of lines under every reading of the BICEPS definition (paragraph breaks only)."""
    return len((text or '').split('\n'))


def gen_store(rng, style):
    texts = []
    refs = rng.sample(REFS, rng.randrange(1, len(REFS) + 1))
    langs = rng.sample(LANGS, rng.randrange(1, 4))
    versions = {'uniform': [2], 'unversioned': [None], 'two': [1, 2], 'ragged': [1, 2, 3, 5], 'with_none': [None, 1, 2]}[style]
    for ref in refs:
        for lang in langs:
            if rng.random() < 0.15:
                continue
            vs = versions if style in ('uniform', 'unversioned', 'two') else rng.sample(versions, rng.randrange(1, len(versions) + 1))
            for v in vs:
                for _ in range(rng.choice([1, 1, 2, 3])):
                    lines = rng.choice([1, 1, 2, 3, 4])
                    body = '\n'.join(f'{rng.choice(WORDS)} {ref} {lang} v{v} {rng.randrange(1000)}' for _ in range(lines))
                    width = rng.choice([None] + WIDTHS) if rng.random() < 0.9 else None
                    texts.append(pm_types.LocalizedText(body, lang=lang, ref=ref, version=v, text_width=width))
    if texts and rng.random() < 0.5:
        # LocalizedText.Lang is optional: texts WITHOUT a language next to the translated ones (same refs / versions, own wording)
        for t in rng.sample(texts, min(len(texts), rng.randrange(1, 5))):
            lines = rng.choice([1, 2, 3])
            body = '\n'.join(f'{rng.choice(WORDS)} {t.Ref} nolang v{t.Version} {rng.randrange(1000)}' for _ in range(lines))
            texts.append(pm_types.LocalizedText(body, lang=None, ref=t.Ref, version=t.Version, text_width=rng.choice([None] + WIDTHS)))
    return texts


def gen_request(rng, pattern, store):
    refs = sorted({t.Ref for t in store}) or ['r1']
    langs = sorted({t.Lang for t in store if t.Lang is not None}) or ['en']
    versions = sorted({t.Version for t in store if t.Version is not None}) or [1]
    req = {}
    if pattern & 1:
        req['refs'] = rng.sample(refs, rng.randrange(1, min(3, len(refs)) + 1)) + (['unknown.ref'] if rng.random() < 0.2 else [])
        if rng.random() < 0.15:
            req['refs'].append(req['refs'][0])
    if pattern & 2:
        req['version'] = rng.choice(versions + [min(max(versions) + 1, c20_more.U64)]) if rng.random() < 0.9 else 0
    if pattern & 4:
        req['langs'] = rng.sample(langs, rng.randrange(1, min(2, len(langs)) + 1)) + (['xx'] if rng.random() < 0.2 else [])
    if pattern & 8:
        req['text_widths'] = rng.sample(WIDTHS, rng.randrange(1, 3))
    if pattern & 16:
        req['number_of_lines'] = rng.sample([1, 2, 3, 4], rng.randrange(1, 3))
    return req


def judge_texts(ctx, store, req, returned, detail):
    stored = Counter(text_key(t) for t in store)
    got = Counter(text_key(t) for t in returned)
    info = {**detail, 'request': {k: [getattr(x, 'value', x) for x in v] if isinstance(v, list) else v for k, v in req.items()}}
    req = {k: v for k, v in req.items() if not (isinstance(v, list) and not v)}  # an empty list is no element on the wire = no constraint
    ok = True
    ctx.count('getlocalizedtext.responses')
    ctx.count('getlocalizedtext.texts_returned', sum(got.values()))

    def bad(sub, what, t):
        nonlocal ok
        ok = False
        ctx.witness(f'getlocalizedtext.{sub}', what, {**info, 'text': t, 'returned': sorted(got, key=repr)[:6]})

    for t in got:
        text, lang, ref, version, width = t
        if t not in stored:
            bad('unknown_text', 'GetLocalizedText returns a text that is not in the store', t)
            continue
        if 'refs' in req:
            ctx.count('constraint.ref.judged')
            if ref not in req['refs']:
                bad('ref_constraint', 'returned text has a Ref that was not requested', t)
        if 'version' in req:
            ctx.count('constraint.version.judged')
            if version != req['version']:
                bad('version_constraint', 'returned text has a Version different from the requested one', t)
        if 'langs' in req:
            ctx.count('constraint.lang.judged')
            if lang is None:
                ctx.count('constraint.lang.judged_text_without_lang')
            # a Lang constraint is only satisfied by a text that HAS one of the requested languages (tags are case-insensitive)
            if lang is None or (lang not in req['langs'] and lang.lower() not in [x.lower() for x in req['langs']]):
                bad('lang_constraint', 'returned text has a Lang that was not requested', t)
        if 'text_widths' in req:
            ctx.count('constraint.width.judged')
            if width is not None and W_RANK[pm_types.LocalizedTextWidth(width)] > max(W_RANK[w] for w in req['text_widths']):
                bad('width_constraint', 'returned text is wider than every requested TextWidth', t)
        if 'number_of_lines' in req:
            ctx.count('constraint.lines.judged')
            if min_lines(text) > max(req['number_of_lines']):
                bad('lines_constraint', 'returned text has more lines than every requested NumberOfLines', t)
    if any(k[1] is None for k in got):
        ctx.count('getlocalizedtext.texts_without_lang_returned', sum(n for k, n in got.items() if k[1] is None))
    if not req:
        if any(k[1] is None and k[3] == max([x[3] for x in stored if x[3] is not None], default=None) for k in stored):
            ctx.count('getlocalizedtext.unconstrained.latest_has_text_without_lang')
        # all texts of the latest version (incl. the texts without Lang).  required: Version == highest version of the store (latest under every reading);
        # allowed in addition: texts that are the latest of their (Ref, Lang) or carry no Version; forbidden: superseded texts.
        ctx.count('getlocalizedtext.unconstrained')
        versions = [k[3] for k in stored if k[3] is not None]
        top = max(versions) if versions else None
        required = Counter({k: n for k, n in stored.items() if k[3] == top})
        newest = {}
        for k in stored:
            if k[3] is not None:
                newest[(k[2], k[1])] = max(newest.get((k[2], k[1]), k[3]), k[3])
        allowed = Counter({k: n for k, n in stored.items() if k[3] is None or k[3] == newest[(k[2], k[1])]})
        if required == allowed:
            ctx.count('getlocalizedtext.unconstrained.unambiguous')
        for k, n in required.items():
            if got[k] < n:
                bad('unconstrained_missing', 'unconstrained GetLocalizedText omits a text of the latest version', k)
                break
        for k, n in got.items():
            if k in stored and n > allowed.get(k, 0):
                sub = 'unconstrained_superseded' if k not in allowed else 'unconstrained_duplicate'
                bad(sub, 'unconstrained GetLocalizedText returns a superseded text / a text more often than stored', k)
                break
    return ok


def judge_languages(ctx, client, store, detail, phase):
    try:
        langs = list(client.get_supported_languages().result.Lang)
    except Exception as ex:  # noqa: BLE001
        ctx.witness('getsupportedlanguages.request_failed', 'GetSupportedLanguages failed', {**detail, 'phase': phase, 'exception': repr(ex)[:300]})
        return
    ctx.count('getsupportedlanguages.responses')
    ctx.count(f'getsupportedlanguages.responses.{phase}')
    want = {t.Lang for t in store if t.Lang is not None}   # the Lang values of the stored texts that have one
    if any(t.Lang is None for t in store):
        ctx.count('getsupportedlanguages.responses.store_has_texts_without_lang')
    if set(langs) != want:
        ctx.witness('getsupportedlanguages.differs', 'GetSupportedLanguages does not list exactly the stored languages',
                    {**detail, 'phase': phase, 'listed': sorted(langs), 'stored': sorted(want)})
    elif len(langs) != len(want):
        ctx.witness('getsupportedlanguages.listed_twice', 'GetSupportedLanguages lists a stored language more than once',
                    {**detail, 'phase': phase, 'listed': sorted(langs), 'stored': sorted(want)})
    ctx.case(('langs', detail['store_style'], phase, len(want)), nontrivial=bool(store))


STYLES = ['uniform', 'unversioned', 'two', 'ragged', 'with_none', 'empty'] + c20_more.BOUNDARY_STYLES


def text_session(ctx, rng, provider, service, client, arg, transport):
    """stores x requests against one running provider.  The storage is driven through its whole API: constructor with / without texts,
    add() of one / many texts before and between requests, in-place revision of stored texts, replacement of the storage object (the
    library offers no other way to remove texts)."""
    ints_ok = None

    def request(store, req, detail, shape):
        nonlocal ints_ok
        send = dict(req)
        if 'number_of_lines' in req and req['number_of_lines'] and not ints_ok:
            if ints_ok is None:  # first request with a NumberOfLines list: as documented (list[int])
                try:
                    client.get_localized_texts(**req)
                    ints_ok = True
                except (TypeError, ValueError) as ex:
                    ints_ok = False
                    ctx.witness('getlocalizedtext.client.number_of_lines_not_serializable',
                                'LocalizationServiceClient.get_localized_texts(number_of_lines=[int, ...]) cannot build the request',
                                {'request': repr(req)[:300], 'exception': repr(ex)[:160]})
            if not ints_ok:  # work-around so that the provider side is still observed: the values as xml text
                send['number_of_lines'] = [str(n) for n in req['number_of_lines']]
                ctx.count('getlocalizedtext.lines_sent_as_text')
        try:
            res = client.get_localized_texts(**send)
        except Exception as ex:  # noqa: BLE001
            ctx.witness('getlocalizedtext.request_failed', 'GetLocalizedText with valid parameters failed',
                        {**detail, 'request': repr(req)[:300], 'exception': repr(ex)[:300]})
            ctx.case(('text', detail['store_style'], shape, 'failed'))
            return None
        ok = judge_texts(ctx, store, req, res.result.Text, detail)
        n = len(res.result.Text)
        ctx.case(('text', detail['store_style'], shape, min(n, 3), len(req.get('text_widths', [])), len(req.get('number_of_lines', [])), ok),
                 nontrivial=bool(store))
        return res

    for sno in range(arg['stores']):
        style = STYLES[(sno + arg.get('first', arg['i'])) % len(STYLES)]
        if style == 'empty':
            store = []
        elif style in c20_more.BOUNDARY_STYLES:
            store = c20_more.boundary_store(rng, style)
        else:
            store = gen_store(rng, style)
        # a fresh, real storage object, filled through the constructor, through add(), or through both
        how = ['add', 'constructor', 'constructor+add', 'add_one_by_one'][(sno + arg['i']) % 4]
        if how == 'add':
            service.localization_storage = LocalizationStorage()
            provider.localization_storage.add(*store)
        elif how == 'constructor':
            service.localization_storage = LocalizationStorage(list(store))
        elif how == 'constructor+add':
            service.localization_storage = LocalizationStorage(store[:len(store) // 2])
            provider.localization_storage.add(*store[len(store) // 2:])
        else:
            service.localization_storage = LocalizationStorage(None)
            for t in store:
                provider.localization_storage.add(t)
        ctx.count(f'store.{style}')
        ctx.count(f'store.filled_by.{how}')
        detail = {'store_style': style, 'n_texts': len(store), 'filled_by': how, 'transport': transport}
        judge_languages(ctx, client, store, detail, 'initial')
        patterns = list(range(32)) + [0] + [rng.randrange(32) for _ in range(arg['extra'])]
        for pno, pattern in enumerate(patterns):
            if pno == len(patterns) // 2 and store:
                # the application revises stored texts in place and adds texts derived from stored ones (copy + new wording), after the
                # service has already answered requests about them
                import copy as _copy
                for t in rng.sample(store, min(len(store), 4)):
                    lines = rng.choice([1, 2, 3, 4])
                    t.text = '\n'.join(f'revised {rng.choice(WORDS)} {rng.randrange(1000)}' for _ in range(lines))
                    ctx.count('store.texts_revised_in_place')
                for t in rng.sample(store, min(len(store), 3)):
                    c = _copy.deepcopy(t)
                    lines = rng.choice([1, 2, 3, 4])
                    c.text = '\n'.join(f'derived {rng.choice(WORDS)} {rng.randrange(1000)}' for _ in range(lines))
                    provider.localization_storage.add(c)
                    store.append(c)
                    ctx.count('store.texts_derived_from_stored')
                # ... and a translation into a language that the store did not have (in the latest / an old / no version)
                t = rng.choice(store)
                versions = sorted({x.Version for x in store if x.Version is not None})
                v = rng.choice([t.Version, versions[0] if versions else None, versions[-1] if versions else None])
                new = pm_types.LocalizedText(f'tradução {rng.randrange(1000)}', lang='pt-BR', ref=t.Ref, version=v, text_width=t.TextWidth)
                provider.localization_storage.add(new)
                store.append(new)
                ctx.count('store.language_added_later')
                judge_languages(ctx, client, store, detail, 'after_add')
            req = gen_request(rng, pattern, store)
            res = request(store, req, detail, pattern)
            if res is None:
                continue
            ctx.count(f'pattern.{pattern:05b}')
            if sno == 0 and arg['i'] == 0 and pattern in (0, 13):
                ctx.sample({**detail, 'request': repr(req), 'returned': [text_key(t) for t in res.result.Text][:4]})
        # boundary values of every filter parameter (directed, the same list for every store)
        for bno, req in enumerate(c20_more.boundary_requests(store)):
            if request(store, req, detail, f'b{bno}') is not None:
                ctx.count('getlocalizedtext.boundary_requests')
                for name in req:
                    ctx.count(f'boundary.{name}')
        # removal: the storage object is replaced by one that holds a part of the texts - the others must be gone
        if store:
            kept = store[::2]
            service.localization_storage = LocalizationStorage(kept)
            ctx.count('store.replaced_by_subset')
            d2 = {**detail, 'phase': 'storage replaced by a storage with every second text', 'n_texts': len(kept)}
            judge_languages(ctx, client, kept, d2, 'after_replace')
            for req in ({}, {'version': 0}, gen_request(rng, rng.randrange(1, 32), store)):
                if request(kept, req, d2, 'replaced') is not None:
                    ctx.count('getlocalizedtext.after_replace')


def w_texts(ctx: core.Ctx, arg):
    rng = ctx.rng('texts', arg['i'])
    async_mgr = arg['i'] % 2 == 1
    world = World(MDIB_FILES[arg['i'] % len(MDIB_FILES)], role_provider=False, async_mgr=async_mgr)
    try:
        consumer, _ = world.add_consumer(with_mdib=False)
        client = consumer.localization_service_client
        service = world.provider.hosted_services.localization_service
        if client is None or service is None:
            ctx.not_decided('LocalizationService not available')
            return
        text_session(ctx, rng, world.provider, service, client, arg, 'loop-back')
        world.network.log.clear()
    finally:
        world.stop()


# ------------------------------------------------------------------------------------------------
def run(ctx: core.Ctx):
    ctx.rule = ('states: 4 sample MDIBs (+ the missing context descriptor kinds added under every SystemContext) evolved by seeded vf.mdibops '
                'histories incl. removal of context states; per quiescent point generated handle lists of 20 classes (empty / one of each kind / '
                'unknown / repeated / descriptor + own state / MDS handles / mixed / deleted) + directed lists (one handle of every descriptor '
                'NODETYPE, every descriptor, every context state, everything twice, 200 unknown + 1, removed context state handles) sent to '
                'GetMdState and GetContextStates through the consumer clients - loop-back worlds with the sync and the async provider components, '
                'contextstates_in_getmdib on / off / switched at runtime, and real-socket worlds with the default components (chunked requests); '
                'distinct = (service, kinds of the listed handles incl. repetition marks, size class of the answer, verdict).  texts: generated '
                'stores (6 version styles + 5 boundary styles, filled through constructor / add / both / one by one, revised and extended between '
                'requests, finally replaced by a subset) x all 32 presence patterns of Ref/Version/Lang/TextWidth/NumberOfLines (+ random '
                'repeats) + 34 directed boundary requests; distinct = (store style, pattern or boundary request, size class, #widths, #lines, '
                'verdict); non-trivial = store not empty.')
    ctx.assumptions += [
        'GetMdState is judged with the value of SdcProvider.contextstates_in_getmdib at the time of the request (False: single states only); '
        'handles of context states never equal descriptor handles (C10)',
        'a returned state is compared with the MDIB state through vf.history.canon (semantic content, timestamps +-1 ms)',
        'texts: number of lines is judged with the lower bound "paragraphs" (split at newline), a text without TextWidth is never judged '
        'against a width constraint, completeness is not demanded for width / lines constrained requests, a parameter given as an empty list '
        '(no element on the wire) is no constraint, language tags are compared case-insensitively',
        'unconstrained GetLocalizedText: required = texts whose Version is the highest of the store, tolerated = latest per (Ref, Lang) and '
        'unversioned texts, forbidden = superseded texts (both readings of "latest version" accepted)',
        'stored texts carry Ref; Lang is optional (texts without Lang are stored too: they satisfy no Lang constraint, belong to "all texts of the '
        'latest version" and contribute no language to GetSupportedLanguages); the library has no API to remove a text - removal = '
        'replacing the storage object of the service',
    ]
    if ctx.quick:
        s_jobs = [['w_states', {'i': k, 'worlds': 1, 'rounds': 3, 'ops': 25, 'queries': 45}] for k in range(12)]
        t_jobs = [['w_texts', {'i': k, 'stores': 6, 'extra': 8, 'first': 6 * k}] for k in range(4)]
        r_jobs = [['w_real', {'i': k, 'rounds': 2, 'ops': 20, 'queries': 20, 'stores': 2}] for k in range(4)]
    else:
        s_jobs = [['w_states', {'i': k, 'worlds': 3, 'rounds': 10, 'ops': 30, 'queries': 100}] for k in range(24)]
        t_jobs = [['w_texts', {'i': k, 'stores': 60, 'extra': 30, 'first': 7 * k}] for k in range(8)]
        r_jobs = [['w_real', {'i': k, 'rounds': 8, 'ops': 30, 'queries': 20, 'stores': 11}] for k in range(16)]
    core.fanout(ctx, MODULE, 'dispatch', r_jobs + s_jobs + t_jobs, timeout=2400)
    if os.environ.get('VERIF_C20_DUMP'):   # development aid: all counters (the console shows the first 40 only)
        import json
        with open(os.environ['VERIF_C20_DUMP'], 'w') as f:
            json.dump({'counters': dict(sorted(ctx.counters.items())), 'witnesses': dict(ctx.witness_counts)}, f, indent=1)
    ctx.floor('getmdstate.responses', 1000)
    ctx.floor('getcontextstates.responses', 1000)
    ctx.floor('getcontextstates.with_mds_handle.two_mds_have_states', 20)
    ctx.floor('getmdstate.with_repeated_handle', 50)
    ctx.floor('getcontextstates.with_repeated_handle', 50)
    ctx.floor('snapshot.ctx_descr_with_2plus_states', 20)
    ctx.floor('list.ctx_descr+own_state', 20)
    ctx.floor('getlocalizedtext.responses', 500)
    ctx.floor('getlocalizedtext.unconstrained.unambiguous', 10)
    ctx.floor('getsupportedlanguages.responses', 20)
    for c in ('ref', 'version', 'lang', 'width', 'lines'):
        ctx.floor(f'constraint.{c}.judged', 50)
    # round 4
    ctx.floor('getmdstate.contents_compared', 5000)
    ctx.floor('getcontextstates.contents_compared', 2000)
    ctx.floor('getmdstate.responses.after_runtime_switch', 100)
    ctx.floor('world.components.async', 2)
    ctx.floor('world.components.sync', 2)
    ctx.floor('real.getmdstate.responses', 100)
    ctx.floor('real.getcontextstates.responses', 100)
    ctx.floor('real.getlocalizedtext.responses', 100)
    ctx.floor('directed.removed_ctx_state', 5)
    ctx.floor('directed.big.everything_twice', 10)
    for t in ('Mds', 'SystemContext', 'Vmd', 'Channel', 'NumericMetric', 'AlertSystem', 'AlertCondition', 'Sco', 'PatientContext', 'LocationContext',
              'EnsembleContext', 'OperatorContext', 'WorkflowContext', 'MeansContext'):
        ctx.floor(f'directed.type.{t}', 4)
    ctx.floor('getlocalizedtext.boundary_requests', 500)
    for name in ('refs', 'version', 'langs', 'text_widths', 'number_of_lines'):
        ctx.floor(f'boundary.{name}', 100)
    ctx.floor('getsupportedlanguages.responses.after_add', 10)
    ctx.floor('getsupportedlanguages.responses.after_replace', 10)
    ctx.floor('getlocalizedtext.after_replace', 30)
    for how in ('add', 'constructor', 'constructor+add', 'add_one_by_one'):
        ctx.floor(f'store.filled_by.{how}', 2)
    for style in c20_more.BOUNDARY_STYLES:
        ctx.floor(f'store.{style}', 1)
    ctx.floor('getsupportedlanguages.responses.store_has_texts_without_lang', 10)
    ctx.floor('getlocalizedtext.texts_without_lang_returned', 50)
    ctx.floor('getlocalizedtext.unconstrained.latest_has_text_without_lang', 5)


def dispatch(ctx: core.Ctx, job):
    globals()[job[0]](ctx, job[1])
