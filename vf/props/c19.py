"""C19 - with TLS configured no endpoint is advertised or contacted in plaintext.

(1) loop-back, configuration enumeration: provider TLS {off,on} x consumer {none, optional, enforced} x {sync, async} provider x
    alternative host names (provider and consumer) x {path, reference-parameter} dispatching subscription managers.  Per run:
    * raw subscriber (vf/c19_wire.py): hand-written Subscribe requests, everything the subscriber controls varied (wsa:To scheme / host /
      absent, Host header, NotifyTo / EndTo written with http or on other netlocs); reports and SubscriptionEnd go to sinks of the harness;
    * library consumer: start-up, subscription, transactions + notifications, operation, renew, GetStatus, location (Hello) + directed Probe,
      faults injected after start-up, unsubscribe, restart against a failing handshake; provider shutdown with SubscriptionEnd.
    Monitors: regex scanner over every serialised message (every scheme:host:port that names an endpoint of the run, also the '//'-less form
    of SubscriptionEnd), structural scanner (every element that names a transport address of the sender, whatever host:port), x_addrs handed
    to WS-Discovery, recorder of every connection object the SOAP clients create (TLS client context identity; consumer -> provider,
    provider -> consumer, provider -> raw subscriber sinks), audit hook (no connection outside the SOAP clients).
(2) real localhost sockets with a generated PKI, own http servers on both sides, sync / async provider components x alternative host names:
    sys.addaudithook records every socket.connect, a recorder around SSLContext.wrap_socket records which socket was wrapped by which context;
    first bytes written to plain TCP sockets must be TLS records; the plaintext entering the TLS layer (SSLSocket.send / SSLObject.write) is
    scanned for addresses; peers without / with an untrusted certificate and a plaintext peer are offered to both real servers, a server with
    an untrusted certificate to the consumer's soap client.
(3) contexts built by mk_ssl_contexts(ca_file=...): verify_mode == CERT_REQUIRED on both, in-memory handshake matrix
    {trusted, untrusted, no certificate} x {consumer->provider, provider->consumer}; call sequences (vf/c19_ctxseq.py): every call with a CA
    file is judged by a per-call model (trusts exactly its CA, both directions) whatever was called before / afterwards.
"""
from __future__ import annotations

import os
import pathlib
import re
import ssl
import sys
import threading
import time
import uuid

from .. import c19_ctxseq, c19_wire, core, mdibops
from ..mdibharness import FIXTURES, World

MODULE = 'vf.props.c19'
PKI = pathlib.Path(FIXTURES) / 'pki'
RX_URL = re.compile(rb'(https?)://([A-Za-z0-9_.\-]+):(\d+)')


def contexts(name: str, ca: str | None = 'ca.pem'):
    from sdc11073.certloader import mk_ssl_contexts
    return mk_ssl_contexts(PKI / f'{name}.key', PKI / f'{name}.pem', PKI / ca if ca else None)


# ------------------------------------------------------------------------------------------------
_AUDIT = {'installed': False, 'active': False, 'events': []}
OFFSITE = '10.255.255.1'


def _install_audit():
    """process-wide audit hook (cannot be removed): while a loop-back run is active every attempt to open a REAL connection is recorded - the
    loop-back transport has no sockets, so any such attempt by-passes the SOAP clients (and their TLS context).  Attempts towards the off-site
    address the harness plants are refused at once (no waiting for a connect timeout)."""
    if _AUDIT['installed']:
        return
    _AUDIT['installed'] = True

    def hook(event, args):
        if not _AUDIT['active']:
            return
        if event == 'socket.connect':
            _AUDIT['events'].append(('socket.connect', repr(args[1])[:80]))
            if OFFSITE in repr(args[1]):
                raise ConnectionRefusedError('vf: off-site address')
        elif event == 'urllib.Request':
            _AUDIT['events'].append(('urllib.Request', str(args[0])[:120]))
    sys.addaudithook(hook)


def _refparam_hook(async_mgr):
    """provider components with the reference-parameter dispatching subscription managers (the default dispatches on the path)."""
    def hook(comps):
        from sdc11073.provider.subscriptionmgr import ReferenceParamSubscriptionsManager
        from sdc11073.provider.subscriptionmgr_async import SubscriptionsManagerReferenceParamAsync
        cls = SubscriptionsManagerReferenceParamAsync if async_mgr else ReferenceParamSubscriptionsManager
        for name in list(comps.subscriptions_manager_class):
            comps.subscriptions_manager_class[name] = cls
    return hook


CONSUMER_ALT = 'vfconsumer.example'
PROVIDER_KINDS = ('subscription_manager', 'hosted_endpoint', 'wsdl_location', 'xaddrs')


def w_loopback(ctx: core.Ctx, arg):
    provider_tls, consumer_mode, async_mgr, alt_host = arg['provider_tls'], arg['consumer'], arg['async_mgr'], arg['alt_host']
    label = dict(arg)
    _install_audit()
    _AUDIT['events'].clear()
    _AUDIT['active'] = True
    try:
        _w_loopback(ctx, arg, provider_tls, consumer_mode, async_mgr, alt_host, label)
    finally:
        _AUDIT['active'] = False
    ctx.count('loopback.audit_runs')
    if _AUDIT['events']:
        ev = sorted(set(_AUDIT['events']))
        ctx.witness('connect.unmanaged.' + ev[0][0], 'a connection was opened outside the SOAP clients (no TLS client context): ' + repr(ev[:3]),
                    {**label, 'events': ev[:6]})


def _w_loopback(ctx, arg, provider_tls, consumer_mode, async_mgr, alt_host, label):
    pcont = contexts('provider') if provider_tls else None
    ccont = contexts('consumer') if consumer_mode != 'none' else None
    import socket
    orig_gethost = socket.gethostbyname
    if alt_host:
        socket.gethostbyname = lambda h: '127.0.0.1' if h == 'vfhost.example' else orig_gethost(h)
    try:
        world = World('70041_MDIB_Final.xml', async_mgr=async_mgr, role_provider='no_waveform', ssl_context_container=pcont,
                      components_hook=_refparam_hook(async_mgr) if arg.get('dispatch') == 'refparam' else None)
        if alt_host:
            world.provider._alternative_hostname = 'vfhost.example'
    finally:
        pass
    net = world.network
    expect_connect_ok = (provider_tls and consumer_mode != 'none') or (not provider_tls and consumer_mode != 'enforced')
    consumer = None
    outcome = 'ok'
    rng = ctx.rng('c19', repr(sorted(arg.items())))
    # ---- raw subscriber: everything a subscriber controls in its request is varied; the provider's answers (and the connections it opens to
    # the sinks afterwards) are judged by the monitors below like all other traffic
    raw = None
    if arg.get('raw', True):
        try:
            raw = c19_wire.RawSubscriber(net, f'127.0.0.1:{world.provider_server.server_port}', world.provider_address.replace('vfhost.example', '127.0.0.1'),
                                        sink_scheme='https' if provider_tls else 'http')
            if raw.discover() is None:
                raise RuntimeError('no hosted service address in the TransferGet response')
            combos = list(c19_wire.DIRECTED)
            for _ in range(ctx.pick(3, 12)):
                combos.append((rng.choice(c19_wire.TO_KINDS), rng.choice(c19_wire.HOST_KINDS), rng.choice(c19_wire.SINK_KINDS), rng.choice(c19_wire.END_KINDS)))
            for combo in combos:
                e, found = raw.subscribe(*combo)
                mgr = [a for k, a in found if k == 'subscription_manager']
                ctx.count('loopback.raw.subscribe_requests')
                ctx.count(f'loopback.raw.subscribe.to_{combo[0]}.{"granted" if mgr else "status%s" % e.status}')
                if mgr:
                    ctx.count('loopback.raw.subscribe_responses' + ('.tls_provider' if provider_tls else '.plain_provider'))
                    ctx.case(('raw-subscribe', provider_tls, async_mgr, arg.get('dispatch', 'path')) + combo)
        except Exception as ex:  # noqa: BLE001
            ctx.count('loopback.raw.failed')
            label['raw_exception'] = repr(ex)[:200]
    try:
        from sdc11073.consumer.consumerimpl import SdcConsumer, default_components_factory
        from sdc11073.definitions_sdc import SdcV1Definitions
        from .. import loopback
        comps = default_components_factory()
        comps.soap_client_class = loopback.mk_soap_client_class(net)
        from ..mdibharness import _SyncDispatcher
        comps.action_dispatcher_class = _SyncDispatcher
        if arg.get('dispatch') == 'refparam':
            from sdc11073.consumer.subscription import ClientSubscriptionManagerReferenceParams
            comps.subscription_manager_class = ClientSubscriptionManagerReferenceParams
        scheme = 'https' if ccont is not None and (consumer_mode == 'enforced' or provider_tls) else 'http'
        server = net.new_server(scheme=scheme)
        if alt_host:
            net.servers[f'{CONSUMER_ALT}:{server.server_port}'] = server  # the consumer's sink under its alternative host name
        address = world.provider_address.replace('vfhost.example', '127.0.0.1')
        if arg.get('offsite_wsdl'):
            # a peer may advertise its WSDL at another host:port (valid DPWS): whatever the consumer does with that location, it opens no
            # connection outside its SOAP clients
            rx_loc = re.compile(rb'(<[A-Za-z0-9]*:?Location>)https?://[^/<]+')

            def rewrite(entry, _scheme=arg['offsite_wsdl']):
                if entry.response and b'wsdl' in entry.response and b'Location>' in entry.response:
                    new, n = rx_loc.subn(rb'\1' + f'{_scheme}://{OFFSITE}:81'.encode(), entry.response)
                    if n:
                        entry.response = new
                        entry.extra['vf_planted'] = True
                        ctx.count('loopback.offsite_wsdl_locations_planted', n)
            net.observers.append(rewrite)
        consumer = SdcConsumer(address, SdcV1Definitions, ssl_context_container=ccont, validate=True, components=comps,
                               force_ssl_connect=(consumer_mode == 'enforced'), epr=uuid.UUID(int=0x7000),
                               alternative_hostname=CONSUMER_ALT if alt_host else None)
        consumer.start_all(shared_http_server=server)
        from sdc11073.mdib.consumermdib import ConsumerMdib
        cm = ConsumerMdib(consumer)
        cm.init_mdib()
        # traffic: transactions, operation, renew, status, stop
        memo = {}
        for _ in range(5):
            mdibops.apply_op(world.mdib, mdibops.gen_op(rng, world.mdib, memo, {'metric': 1, 'alert': 1, 'context': 1}), memo)
        try:
            from decimal import Decimal
            from sdc11073.xml_types import pm_qnames as pm
            ops = world.mdib.descriptions.NODETYPE.get(pm.SetValueOperationDescriptor, [])
            if ops:
                fut = consumer.client('Set').set_numeric_value(ops[0].Handle, Decimal('1'))
                fut.result(timeout=WATCHDOG)  # generous: guards against a hang only, no verdict depends on it
                ctx.count('loopback.operation_invoked')
        except Exception as ex:  # noqa: BLE001
            ctx.count('loopback.operation_failed')
        for sub in list(consumer._subscription_mgr.subscriptions.values()):
            sub.renew(60)
            sub.get_status()
            ctx.count('loopback.renew_getstatus')
        # the device endpoint as WS-Discovery gets it (Hello) and as a directed Probe is answered
        try:
            from sdc11073.location import SdcLocation
            world.provider.set_location(SdcLocation(fac='vf', poc='c19', bed='b1'))
            consumer.send_probe()
            ctx.count('loopback.directed_probe')
        except Exception:  # noqa: BLE001
            ctx.count('loopback.directed_probe.failed')
        if consumer_mode == 'enforced' and provider_tls:
            _midsession_faults(ctx, net, world, consumer, label)
        if consumer_mode == 'enforced':
            # a peer may hand out endpoints on another host:port with any scheme (subscription manager, hosted service EPRs):
            # the client an enforced consumer uses for them must still carry its TLS client context
            other = net.new_server(scheme='http')
            for addr in (f'http://127.0.0.1:{other.server_port}/x/y', f'https://127.0.0.1:{other.server_port}/x', f'http://localhost:{other.server_port}/'):
                client = consumer.get_soap_client(addr)
                ctx.count('loopback.foreign_endpoint_clients')
                if getattr(client, '_ssl_context', None) is not ccont.client_context:
                    ctx.witness('connect.enforced_consumer_plaintext_client_for_foreign_endpoint',
                                'a consumer with enforced TLS creates a SOAP client without its TLS client context for an endpoint on another '
                                'host:port advertised with http', {**label, 'address': addr})
                    break
        # hosted services are asked for their metadata through another name than the one the provider is bound to (alternative host name
        # kept by a client, NAT, hosts entry): the addresses in the answer are scanned like everything else on the wire
        ppt = world.provider_server.server_port
        for e in [x for x in list(net.log) if x.body and b'mex/GetMetadata/Request' in x.body and x.netloc.endswith(f':{ppt}')][:8]:
            for host in (f'localhost:{ppt}', f'device.example:{ppt}'):
                try:
                    net.transmit(e.netloc, 'POST', e.path, {**e.headers, 'Host': host}, e.raw_body, bypass_policy=True)
                    ctx.count('loopback.getmetadata_with_foreign_host_header')
                except Exception:  # noqa: BLE001
                    ctx.count('loopback.getmetadata_with_foreign_host_header.failed')
        consumer.stop_all(unsubscribe=True)
        if consumer_mode == 'enforced' and provider_tls:
            # the consumer is started again, now against a peer whose TLS handshake fails: it must fail, never fall back to plaintext
            n_conn = len(net.connections)
            world.provider_server.scheme = 'http'
            server2 = net.new_server(scheme='https')
            try:
                consumer.start_all(shared_http_server=server2)
                restart_outcome = 'connected'
            except Exception as ex2:  # noqa: BLE001
                restart_outcome = type(ex2).__name__
            finally:
                world.provider_server.scheme = 'https'
            ctx.count(f'loopback.restart_against_failing_handshake.{restart_outcome}')
            for netloc, sslctx in net.connections[n_conn:]:
                if int(netloc.rsplit(':', 1)[1]) == world.provider_server.server_port and sslctx is None:
                    ctx.witness('connect.enforced_fallback_after_restart',
                                'a consumer with enforced TLS opened a plaintext connection when it was started again and the TLS handshake failed',
                                {**label, 'restart_outcome': restart_outcome})
                    break
            if restart_outcome == 'connected':
                ctx.witness('connect.enforced_fallback_after_restart', 'a consumer with enforced TLS connected to a peer whose TLS handshake fails',
                            {**label, 'restart_outcome': restart_outcome})
            try:
                consumer.stop_all(unsubscribe=False)
            except Exception:  # noqa: BLE001
                pass
    except Exception as ex:  # noqa: BLE001
        outcome = f'{type(ex).__name__}'
        label['exception'] = repr(ex)[:200]
    try:
        if raw is not None:
            # reports for the raw subscriptions (again, in case the consumer session above did not get that far), then the provider goes down:
            # SubscriptionEnd to every EndTo / NotifyTo
            memo2 = {}
            for _ in range(2):
                mdibops.apply_op(world.mdib, mdibops.gen_op(rng, world.mdib, memo2, {'metric': 1, 'alert': 1}), memo2)
        world.provider.stop_all(send_subscription_end=True)
        if raw is not None:
            ctx.count('loopback.raw.messages_received_by_sinks', raw.received())
    except Exception as ex:  # noqa: BLE001
        ctx.count('loopback.provider_stop_failed')
        label['stop_exception'] = repr(ex)[:200]
    finally:
        import socket as _s
        _s.gethostbyname = orig_gethost
    ctx.count(f'loopback.config.{"tls" if provider_tls else "plain"}.{consumer_mode}.{outcome}')
    ctx.case(('loopback', provider_tls, consumer_mode, async_mgr, alt_host, arg.get('dispatch', 'path'), arg.get('offsite_wsdl'), outcome))
    provider_port = world.provider_server.server_port
    consumer_port = server.server_port if consumer is not None else None
    # ---- monitor 1: URLs on the wire ------------------------------------------------------------
    # (a) every host:port with a scheme anywhere in the bytes (port = an endpoint of this run); (b) every element that names a transport address
    # of the sender of the message (whatever host:port it names).  Requests of the raw subscriber are harness input: only their responses count;
    # responses the harness rewrote (off-site WSDL location) are not judged structurally.
    n_urls = n_struct = 0
    for e in net.log:
        to_provider = e.netloc.endswith(f':{provider_port}')
        is_raw = bool(e.extra.get('vf_raw'))
        for which, data in (('request', e.body), ('response', e.response)):
            if not data or (is_raw and which == 'request'):
                continue
            for m in c19_wire.RX_URL.finditer(data):
                scheme, host, port = m.group(1).decode().lower(), m.group(2).decode(), int(m.group(3))
                if port == provider_port:
                    n_urls += 1
                    if provider_tls and scheme != 'https':
                        ctx.witness('url.provider_endpoint_advertised_plaintext', 'a provider configured with TLS advertises one of its endpoints with http',
                                    {**label, 'url': m.group(0).decode(), 'path': e.path, 'which': which, 'raw': e.extra.get('vf_raw'),
                                     'context': data[max(0, m.start() - 120):m.end() + 40]})
                elif port == consumer_port and not is_raw:
                    n_urls += 1
                    if consumer_mode == 'enforced' and scheme != 'https':
                        ctx.witness('url.consumer_endpoint_advertised_plaintext', 'a consumer with enforced TLS advertises NotifyTo / EndTo with http',
                                    {**label, 'url': m.group(0).decode(), 'path': e.path, 'which': which, 'context': data[max(0, m.start() - 120):m.end() + 40]})
            if e.extra.get('vf_planted') and which == 'response':
                continue
            sender = ('consumer' if which == 'request' else 'provider') if to_provider else ('provider' if which == 'request' else 'consumer')
            for kind, adr in c19_wire.transport_addresses(data) or ():
                if sender == 'provider' and kind in PROVIDER_KINDS:
                    n_struct += 1
                    ctx.count(f'loopback.addresses.{kind}')
                    if provider_tls and c19_wire.scheme_of(adr) != 'https':
                        ctx.witness(f'url.provider_address_not_https.{kind}', f'a provider configured with TLS advertises its {kind} address without https',
                                    {**label, 'address': adr, 'path': e.path, 'which': which, 'raw': e.extra.get('vf_raw'), 'request_headers': e.headers if is_raw else None,
                                     'request': (e.body or b'')[:700] if is_raw else None})
                elif sender == 'consumer' and kind in ('notify_to', 'end_to'):
                    n_struct += 1
                    ctx.count(f'loopback.addresses.{kind}')
                    if consumer_mode == 'enforced' and c19_wire.scheme_of(adr) != 'https':
                        ctx.witness(f'url.consumer_address_not_https.{kind}', f'a consumer with enforced TLS advertises its {kind} address without https',
                                    {**label, 'address': adr, 'path': e.path})
    for _epr, _types, _scopes, x_addrs in world.wsd.published:
        for adr in x_addrs:
            n_struct += 1
            ctx.count('loopback.addresses.xaddrs_published')
            if provider_tls and c19_wire.scheme_of(adr) != 'https':
                ctx.witness('url.provider_address_not_https.xaddrs', 'a provider configured with TLS hands an xAddr without https to WS-Discovery', {**label, 'address': adr})
    ctx.count('loopback.urls_scanned', n_urls)
    ctx.count('loopback.addresses_checked', n_struct)
    # ---- monitor 2: connections --------------------------------------------------------------
    sink_ports = raw.ports if raw is not None else set()
    for netloc, sslctx in net.connections:
        port = int(netloc.rsplit(':', 1)[1])
        ctx.count('loopback.connections_recorded')
        if port == provider_port and consumer_mode == 'enforced':
            if sslctx is None or (ccont is not None and sslctx is not ccont.client_context):
                ctx.witness('connect.consumer_plaintext', 'a consumer with enforced TLS opened a connection without its TLS client context', {**label, 'netloc': netloc})
        if (port == consumer_port or port in sink_ports) and provider_tls:
            if port in sink_ports:
                ctx.count('loopback.raw.sink_connections')
            if sslctx is None or sslctx is not pcont.client_context:
                ctx.witness('connect.provider_plaintext', 'a provider configured with TLS opened a connection without its TLS client context',
                            {**label, 'netloc': netloc, 'to': 'raw subscriber sink (NotifyTo / EndTo as given in the Subscribe)' if port in sink_ports else 'consumer'})
    if consumer_mode == 'enforced' and not provider_tls and outcome == 'ok':
        ctx.witness('connect.enforced_fallback', 'a consumer with enforced TLS talked to a plaintext provider', label)
    if expect_connect_ok and outcome != 'ok':
        ctx.witness('config.consistent_setup_failed', 'a consistent TLS configuration could not complete start-up / traffic', label)
    if arg.get('sample'):
        ctx.sample({'config': label, 'outcome': outcome, 'wire_messages': len(net.log), 'urls_scanned': n_urls, 'connections': len(net.connections)})
    try:
        world.stop()
    except Exception:  # noqa: BLE001
        pass


def _reconnect(ctx, consumer):
    """what an application does after a connection error: a soap client stays closed until connect() is called again."""
    for client in list(consumer._soap_clients.values()):
        if client.is_closed():
            try:
                client.connect()
                ctx.count('loopback.midsession_fault.reconnects')
            except Exception:  # noqa: BLE001
                ctx.count('loopback.midsession_fault.reconnect_failed')


def _midsession_faults(ctx, net, world, consumer, label):
    """faults after the session is up: a TLS error / a reset while an operation is invoked, the MDIB is read, a subscription is renewed; more
    traffic follows each.  What the consumer does about them is seen by the connection monitor (every connection it creates is recorded)."""
    import ssl as _ssl
    provider_netloc = f'127.0.0.1:{world.provider_server.server_port}'
    from ..loopback import Raise
    armed = {}

    def policy(entry):
        if armed and entry.netloc == provider_netloc and armed['match'] in (entry.raw_body or b''):
            exc = armed['exc']
            armed.clear()
            ctx.count('loopback.midsession_faults_injected')
            return Raise(exc)
        return None
    old_policy, net.policy = net.policy, policy
    try:
        get = consumer.client('Get')
        for match, exc, call in ((b'GetMdib', _ssl.SSLError(1, '[SSL: TLSV1_ALERT_INTERNAL_ERROR] loop-back: injected'), get.get_mdib),
                                 (b'GetMdib', ConnectionResetError('loop-back: injected reset'), get.get_mdib),
                                 (b'GetMdState', _ssl.SSLEOFError(8, 'loop-back: injected EOF'), get.get_md_state)):
            armed.update(match=match, exc=exc)
            try:
                call()
                ctx.count('loopback.midsession_fault.call_survived')
            except Exception:  # noqa: BLE001
                ctx.count('loopback.midsession_fault.call_failed')
            armed.clear()
            _reconnect(ctx, consumer)
            try:
                call()  # the consumer goes on
                ctx.count('loopback.midsession_fault.next_call_ok')
            except Exception:  # noqa: BLE001
                ctx.count('loopback.midsession_fault.next_call_failed')
        subs = list(consumer._subscription_mgr.subscriptions.values())
        if subs:
            armed.update(match=b'eventing/Renew', exc=_ssl.SSLError(1, '[SSL: WRONG_VERSION_NUMBER] loop-back: injected'))
            subs[-1].renew(60)
            armed.clear()
            _reconnect(ctx, consumer)
            for sub in subs:
                sub.renew(60)
                ctx.count('loopback.midsession_fault.renew_after_fault')
    finally:
        net.policy = old_policy


# ------------------------------------------------------------------------------------------------
def w_contexts(ctx: core.Ctx, arg):
    """mk_ssl_contexts(ca_file=...) -> CERT_REQUIRED on both; handshake matrix in memory."""
    for name in ('provider', 'consumer'):
        c = contexts(name)
        for side, sc in (('client', c.client_context), ('server', c.server_context)):
            ctx.count('contexts.verify_mode_checked')
            ctx.case(('verify_mode', name, side))
            if sc.verify_mode != ssl.CERT_REQUIRED:
                ctx.witness(f'contexts.verify_mode.{side}', f'{side} context built from a CA file does not require the peer certificate',
                            {'who': name, 'verify_mode': str(sc.verify_mode)})
    # the same with a cipher string / cipher file (other code path in mk_ssl_contexts)
    import shutil
    import tempfile
    from sdc11073.certloader import mk_ssl_contexts, mk_ssl_contexts_from_folder
    cipher_variants = []
    for cyphers in ('HIGH:!aNULL:!MD5', 'ECDHE+AESGCM:ECDHE+CHACHA20'):
        try:
            cipher_variants.append((f'cyphers={cyphers}', mk_ssl_contexts(PKI / 'provider.key', PKI / 'provider.pem', PKI / 'ca.pem', cyphers=cyphers)))
        except ssl.SSLError:
            ctx.count('contexts.cipher_string_refused')
    tmp = tempfile.mkdtemp(prefix='vf_c19_')
    try:
        for src, dst in (('consumer.key', 'userkey.pem'), ('consumer.pem', 'usercert.pem'), ('ca.pem', 'cacert.pem')):
            shutil.copy(PKI / src, os.path.join(tmp, dst))
        with open(os.path.join(tmp, 'cyphers.txt'), 'w') as f:
            f.write('# comment\nHIGH:!aNULL\n')
        cipher_variants.append(('folder+cyphers_file', mk_ssl_contexts_from_folder(tmp, cyphers_file='cyphers.txt')))
        cipher_variants.append(('folder', mk_ssl_contexts_from_folder(tmp)))
    finally:
        shutil.rmtree(tmp, ignore_errors=True)
    for name, c in cipher_variants:
        for side, sc in (('client', c.client_context), ('server', c.server_context)):
            ctx.count('contexts.verify_mode_checked')
            ctx.case(('verify_mode', name, side))
            if sc.verify_mode != ssl.CERT_REQUIRED:
                ctx.witness(f'contexts.verify_mode.{side}', f'{side} context built from a CA file does not require the peer certificate',
                            {'variant': name, 'verify_mode': str(sc.verify_mode)})
    trusted = {'provider': contexts('provider'), 'consumer': contexts('consumer')}
    # peers: trusted, untrusted (signed by another CA), no certificate
    untrusted = contexts('untrusted', ca='otherca.pem')

    def handshake(client_ctx: ssl.SSLContext, server_ctx: ssl.SSLContext) -> tuple[bool, str]:
        c_in, c_out, s_in, s_out = ssl.MemoryBIO(), ssl.MemoryBIO(), ssl.MemoryBIO(), ssl.MemoryBIO()
        c = client_ctx.wrap_bio(c_in, c_out, server_side=False)
        s = server_ctx.wrap_bio(s_in, s_out, server_side=True)
        done_c = done_s = False
        err = ''
        for _ in range(50):
            if not done_c:
                try:
                    c.do_handshake()
                    done_c = True
                except ssl.SSLWantReadError:
                    pass
                except ssl.SSLError as ex:
                    return False, f'client: {ex.reason}'
            data = c_out.read()
            if data:
                s_in.write(data)
            if not done_s:
                try:
                    s.do_handshake()
                    done_s = True
                except ssl.SSLWantReadError:
                    pass
                except ssl.SSLError as ex:
                    return False, f'server: {ex.reason}'
            data = s_out.read()
            if data:
                c_in.write(data)
            if done_c and done_s:
                # TLS 1.3: the client may finish before the server has verified the client certificate: exchange application data
                try:
                    c.write(b'ping')
                    s_in.write(c_out.read())
                    s.read(4)
                    s.write(b'pong')
                    c_in.write(s_out.read())
                    c.read(4)
                    return True, ''
                except ssl.SSLWantReadError:
                    continue
                except ssl.SSLError as ex:
                    return False, f'post-handshake: {ex.reason}'
        return False, 'no progress'

    plain_client = ssl.SSLContext(ssl.PROTOCOL_TLS_CLIENT)
    plain_client.check_hostname = False
    plain_client.verify_mode = ssl.CERT_NONE  # presents no certificate
    for direction, server_side, client_side in (('consumer->provider', 'provider', 'consumer'), ('provider->consumer', 'consumer', 'provider')):
        server_ctx = trusted[server_side].server_context
        for peer, client_ctx, expect in (('trusted', trusted[client_side].client_context, True),
                                         ('untrusted', untrusted.client_context, False),
                                         ('no_certificate', plain_client, False)):
            ok, why = handshake(client_ctx, server_ctx)
            ctx.count('contexts.handshakes')
            ctx.case(('handshake', direction, 'client', peer))
            if ok != expect:
                ctx.witness(f'handshake.client_{peer}.{"accepted" if ok else "rejected"}',
                            f'server context: handshake with a {peer} client {"succeeded" if ok else "failed"}', {'direction': direction, 'why': why})
        # the client side must verify the server certificate as well
        client_ctx = trusted[client_side].client_context
        for peer, sctx, expect in (('trusted', trusted[server_side].server_context, True), ('untrusted', untrusted.server_context, False)):
            if peer == 'untrusted':
                # a server that does not ask for client certs, so that only the client's verification decides
                sctx = ssl.SSLContext(ssl.PROTOCOL_TLS_SERVER)
                sctx.load_cert_chain(PKI / 'untrusted.pem', PKI / 'untrusted.key')
            ok, why = handshake(client_ctx, sctx)
            ctx.count('contexts.handshakes')
            ctx.case(('handshake', direction, 'server', peer))
            if ok != expect:
                ctx.witness(f'handshake.server_{peer}.{"accepted" if ok else "rejected"}',
                            f'client context: handshake with a {peer} server {"succeeded" if ok else "failed"}', {'direction': direction, 'why': why})
    # call sequences (history of earlier calls, other CA, cyphers, folder variant), each call with a CA file judged by the per-call model
    c19_ctxseq.run(ctx, PKI)


# ------------------------------------------------------------------------------------------------
WATCHDOG = 120.0  # wall-clock bound of one wait in the real-socket runs: only guards against a real hang, firing = inconclusive


def _barrier(consumer) -> bool:
    """True when everything that was enqueued at the consumer's notification dispatcher before this call has been processed (the provider's
    commit returns after the consumer's http server answered every notification, i.e. after they were enqueued)."""
    q = getattr(consumer._services_dispatcher, '_queue', None)
    if q is None:
        return True
    done = threading.Event()
    q.put((lambda _request: done.set(), None, 'vf-barrier'))
    return done.wait(WATCHDOG)


def _peer_context(kind: str) -> ssl.SSLContext | None:
    """client contexts of the harness' own peers (built with the ssl module, not with the library)."""
    if kind == 'plaintext':
        return None
    c = ssl.SSLContext(ssl.PROTOCOL_TLS_CLIENT)
    c.check_hostname = False
    c.verify_mode = ssl.CERT_NONE
    if kind == 'trusted':
        c.load_cert_chain(PKI / 'consumer.pem', PKI / 'consumer.key')
    elif kind == 'untrusted':
        c.load_cert_chain(PKI / 'untrusted.pem', PKI / 'untrusted.key')
    return c


def _http_probe(port: int, kind: str, harness_socks: list) -> tuple[bool, str]:
    """one peer of the given kind asks the server on 127.0.0.1:port for something -> (it got an HTTP answer, what happened)."""
    import socket
    sock = socket.socket(socket.AF_INET, socket.SOCK_STREAM)
    harness_socks.append(sock)
    sock.settimeout(WATCHDOG)
    try:
        sock.connect(('127.0.0.1', port))
        cctx = _peer_context(kind)
        if cctx is not None:
            sock = cctx.wrap_socket(sock)
            harness_socks.append(sock)
        sock.sendall(b'GET /vf/?wsdl HTTP/1.1\r\nHost: 127.0.0.1\r\nConnection: close\r\n\r\n')
        data = b''
        while len(data) < 5:
            part = sock.recv(64)
            if not part:
                break
            data += part
        return data.startswith(b'HTTP/'), f'answer starts with {data[:12]!r}'
    except (ssl.SSLError, OSError) as ex:
        return False, f'{type(ex).__name__}'
    finally:
        try:
            sock.close()
        except OSError:
            pass


def w_real_sockets(ctx: core.Ctx, arg):
    """real localhost sockets + TLS, own http servers on both sides: every TCP connection to a provider / consumer port is wrapped by the expected
    client context, nothing but TLS records is written to them, every address inside the TLS streams uses https, and the two servers answer no
    peer without / with an untrusted certificate and no plaintext peer."""
    import socket
    from sdc11073.consumer.consumerimpl import SdcConsumer
    from sdc11073.definitions_sdc import SdcV1Definitions
    from sdc11073.mdib import ProviderMdib
    from sdc11073.provider import SdcProvider
    from ..loopback import WsdStub
    from ..mdibharness import load_mdib_bytes, mk_model_and_device
    connects = []  # (id(sock), addr)
    wraps = {}  # id(sock) -> context
    harness_socks = []  # sockets of the harness' own peers (kept alive: ids stay unique)

    def audit(event, args):
        if event == 'socket.connect':
            sock, addr = args
            if isinstance(addr, tuple) and len(addr) >= 2:
                connects.append((id(sock), addr, sock))
    sys.addaudithook(audit)
    orig_wrap = ssl.SSLContext.wrap_socket

    def wrap_socket(self, sock, *a, **k):
        wraps[id(sock)] = self
        res = orig_wrap(self, sock, *a, **k)
        wraps[id(res)] = self
        return res
    ssl.SSLContext.wrap_socket = wrap_socket
    # second monitor, independent of who wraps what: the first bytes that python code writes to a plain TCP socket.  An SSLSocket writes through
    # the ssl module (never through socket.socket.send), asyncio / aiohttp TLS writes the records it produced in memory through the plain socket:
    # whatever is written to a plain TCP socket that is connected to a TLS endpoint of this run must therefore start with a TLS record header.
    first_bytes = {}  # id(sock) -> (peer address, own address, first bytes)
    fb_lock = threading.Lock()
    o_send, o_sendall = socket.socket.send, socket.socket.sendall

    def _rec(sock, data):
        if type(sock) is not socket.socket or sock.family not in (socket.AF_INET, socket.AF_INET6) or sock.type != socket.SOCK_STREAM:
            return
        try:
            peer, own = sock.getpeername(), sock.getsockname()
        except OSError:
            return
        with fb_lock:
            if id(sock) not in first_bytes:
                first_bytes[id(sock)] = (peer, own, bytes(data[:5]), sock)

    def send(self, data, *a):
        _rec(self, data)
        return o_send(self, data, *a)

    def sendall(self, data, *a):
        _rec(self, data)
        return o_sendall(self, data, *a)
    socket.socket.send, socket.socket.sendall = send, sendall
    # third monitor: the plaintext that enters the TLS layer (http.client / the http server write through SSLSocket.send, asyncio TLS through
    # SSLObject.write): the serialised messages of the own-http-server configuration, scanned for addresses like the loop-back wire log
    streams = {}  # id(ssl object) -> [object, bytearray]
    o_ssl_send, o_obj_write = ssl.SSLSocket.send, ssl.SSLObject.write

    def _cap(obj, data, n):
        if n:
            with fb_lock:
                buf = streams.setdefault(id(obj), [obj, bytearray()])[1]
                if len(buf) < 4_000_000:
                    buf += bytes(memoryview(data)[:n])

    def ssl_send(self, data, flags=0):
        n = o_ssl_send(self, data, flags)
        _cap(self, data, n)
        return n

    def obj_write(self, data):
        n = o_obj_write(self, data)
        _cap(self, data, n)
        return n
    ssl.SSLSocket.send, ssl.SSLObject.write = ssl_send, obj_write
    alt = bool(arg.get('alt_host'))
    o_gai, o_ghbn = socket.getaddrinfo, socket.gethostbyname
    names = ('vfhost.example', CONSUMER_ALT)
    if alt:
        socket.getaddrinfo = lambda host, *a, **k: o_gai('127.0.0.1' if host in names else host, *a, **k)
        socket.gethostbyname = lambda host: '127.0.0.1' if host in names else o_ghbn(host)
    pcont, ccont = contexts('provider'), contexts('consumer')
    provider = consumer = None
    async_provider = bool(arg.get('async_provider'))
    label = {'async_provider': async_provider, 'alt_host': alt}
    try:
        mdib = ProviderMdib.from_string(load_mdib_bytes('mdib_tns.xml'))
        model, device = mk_model_and_device()
        # synchronous components: http.client connections go through SSLContext.wrap_socket, which the recorder observes; asyncio / aiohttp
        # (the default provider components) wrap with memory BIOs and are judged by the first-bytes monitor
        from sdc11073.provider.providerimpl import provider_components_async_factory, provider_components_sync_factory
        wsd = WsdStub('127.0.0.1')
        provider = SdcProvider(wsd, model, device, mdib, ssl_context_container=pcont, max_subscription_duration=600, socket_timeout=WATCHDOG,
                               components=provider_components_async_factory() if async_provider else provider_components_sync_factory(),
                               alternative_hostname='vfhost.example' if alt else None)
        provider.set_used_compression()  # nothing compressed: the captured plaintext stays readable
        provider.start_all(start_rtsample_loop=False)
        xaddr = provider.get_xaddrs()[0]
        consumer = SdcConsumer(xaddr, SdcV1Definitions, ssl_context_container=ccont, force_ssl_connect=True, socket_timeout=int(WATCHDOG),
                               alternative_hostname=CONSUMER_ALT if alt else None)
        consumer.set_used_compression()
        consumer.start_all()
        from sdc11073.mdib.consumermdib import ConsumerMdib
        cm = ConsumerMdib(consumer)
        cm.init_mdib()
        rng = ctx.rng('real')
        memo = {}
        for _ in range(3):
            mdibops.apply_op(mdib, mdibops.gen_op(rng, mdib, memo, {'metric': 1, 'alert': 1}), memo)
        if not _barrier(consumer):
            ctx.not_decided(f'real sockets: the consumer did not process its notification queue within the {WATCHDOG}s watchdog')
        if cm.mdib_version != mdib.mdib_version:
            ctx.count('real.consumer_mdib_behind')  # not judged here (C01 does): this run is about how the bytes travel
        provider_port = provider._http_server.server_port
        consumer_port = consumer._http_server.server_port
        if not xaddr.startswith('https://'):
            ctx.witness('url.provider_endpoint_advertised_plaintext', 'xAddr of a TLS provider uses http', {'xaddr': xaddr})
        try:
            from sdc11073.location import SdcLocation
            provider.set_location(SdcLocation(fac='vf', poc='c19', bed='b2'))
            consumer.send_probe()
            ctx.count('real.directed_probe')
        except Exception:  # noqa: BLE001
            ctx.count('real.directed_probe.failed')
        for _epr, _types, _scopes, x_addrs in wsd.published:
            for adr in x_addrs:
                ctx.count('real.addresses.xaddrs_published')
                if c19_wire.scheme_of(adr) != 'https':
                    ctx.witness('url.provider_address_not_https.xaddrs', 'a provider configured with TLS hands an xAddr without https to WS-Discovery',
                                {**label, 'address': adr})
        for sub in list(consumer._subscription_mgr.subscriptions.values()):
            sub.renew(60)
            sub.get_status()
        # ---- hostile peers against the two real servers (both were given the server context of a container built from a CA file) ----------
        for who, port in (('provider', provider_port), ('consumer_event_sink', consumer_port)):
            for kind in ('trusted', 'anonymous', 'untrusted', 'plaintext'):
                accepted, info = _http_probe(port, kind, harness_socks)
                ctx.count(f'real.peer_probe.{kind}.{"answered" if accepted else "refused"}')
                ctx.count('real.peer_probes')
                ctx.case(('real-peer', who, kind, async_provider, alt))
                if kind == 'trusted':
                    if not accepted:
                        ctx.not_decided(f'real sockets: the control peer with a trusted certificate got no answer from the {who} server ({info})')
                elif accepted:
                    ctx.witness(f'handshake.real.client_{kind}.accepted',
                                f'the http server of a TLS {who} (server context built from a CA file) answered a {kind} peer', {**label, 'server': who, 'info': info})
        # the other direction: the consumer's client context against a server whose certificate another CA signed
        srv = socket.socket(socket.AF_INET, socket.SOCK_STREAM)
        srv.bind(('127.0.0.1', 0))
        srv.listen(2)
        srv.settimeout(WATCHDOG)
        sctx = ssl.SSLContext(ssl.PROTOCOL_TLS_SERVER)
        sctx.load_cert_chain(PKI / 'untrusted.pem', PKI / 'untrusted.key')
        served = {}

        def serve():
            try:
                conn, _ = srv.accept()
                harness_socks.append(conn)
                conn.settimeout(WATCHDOG)
                try:
                    tls = sctx.wrap_socket(conn, server_side=True)
                    harness_socks.append(tls)
                    served['handshake'] = 'completed'
                    tls.close()
                except (ssl.SSLError, OSError) as ex:
                    served['handshake'] = type(ex).__name__
                    conn.close()
            except OSError as ex:
                served['accept'] = type(ex).__name__
        th = threading.Thread(target=serve, daemon=True)
        th.start()
        client = consumer.get_soap_client(f'https://127.0.0.1:{srv.getsockname()[1]}/vf')
        try:
            client.connect()
            connected = True
        except Exception as ex:  # noqa: BLE001
            connected = False
            served['client'] = type(ex).__name__
        th.join(WATCHDOG)
        srv.close()
        ctx.count(f'real.untrusted_server.{"connected" if connected else "refused"}')
        ctx.count('real.peer_probes')
        ctx.case(('real-peer', 'untrusted_server', async_provider, alt))
        if connected:
            ctx.witness('handshake.real.server_untrusted.accepted', 'the soap client of a TLS-enforced consumer connected to a server whose certificate '
                        'was signed by another CA than the one its contexts were built from', {**label, **served})
        try:
            client.close()
        except Exception:  # noqa: BLE001
            pass
        n_connects = len(connects)
        consumer.stop_all()
        provider.stop_all()
        harness_ids = {id(x) for x in harness_socks}
        for sid, addr, sock in connects:
            if addr[1] in (provider_port, consumer_port) and sid not in harness_ids:
                ctx.count('real.tcp_connections')
                expected = ccont.client_context if addr[1] == provider_port else pcont.client_context
                if async_provider and addr[1] == consumer_port:
                    continue  # asyncio TLS: judged by the first-bytes monitor below
                if wraps.get(sid) is not expected:
                    ctx.witness('connect.real_socket_not_wrapped', 'a TCP connection to a TLS endpoint was not wrapped by the expected TLS client context',
                                {'addr': list(addr), 'wrapped_by': repr(wraps.get(sid)), **label})
        for peer, own, head, _sock in list(first_bytes.values()):
            if id(_sock) in harness_ids:
                continue
            if peer[1] in (provider_port, consumer_port) or own[1] in (provider_port, consumer_port):
                ctx.count('real.plain_socket_streams_checked')
                ctx.count('real.plain_socket_streams_checked.' + ('async_provider' if async_provider else 'sync_provider'))
                if not (len(head) >= 3 and head[0] in (0x14, 0x15, 0x16, 0x17) and head[1] == 0x03):
                    ctx.witness('connect.real_plaintext_bytes', 'bytes that are not a TLS record were written to a TCP connection of a TLS endpoint',
                                {'peer': list(peer), 'own': list(own), 'first_bytes': head, **label,
                                 'towards': 'provider' if peer[1] == provider_port else 'consumer' if peer[1] == consumer_port else 'client'})
        # ---- addresses inside the TLS streams ----------------------------------------------------------------------------------------
        n_urls = 0
        for obj, buf in list(streams.values()):
            if id(obj) in harness_ids:
                continue
            data = bytes(buf)
            for m in c19_wire.RX_URL.finditer(data):
                scheme, port = m.group(1).decode().lower(), int(m.group(3))
                if port in (provider_port, consumer_port):
                    n_urls += 1
                    ctx.count('real.urls_scanned.' + ('provider' if port == provider_port else 'consumer'))
                    if scheme != 'https':
                        who = 'provider' if port == provider_port else 'consumer'
                        ctx.witness(f'url.{who}_endpoint_advertised_plaintext',
                                    f'own http server: a {who} with TLS {"configured" if who == "provider" else "enforced"} advertises one of its endpoints with http',
                                    {**label, 'url': m.group(0).decode(), 'context': data[max(0, m.start() - 160):m.end() + 60]})
        ctx.count('real.urls_scanned', n_urls)
        ctx.count('real.tls_streams_captured', len(streams))
        ctx.case(('real', 'tls-both-enforced', async_provider, alt))
        ctx.case(('real', 'connections', async_provider, alt, n_connects > 2))
    except Exception as ex:  # noqa: BLE001
        import traceback
        ctx.not_decided(f'real-socket sub-check could not run: {ex!r} {traceback.format_exc()[-800:]}')
    finally:
        ssl.SSLContext.wrap_socket = orig_wrap
        socket.socket.send, socket.socket.sendall = o_send, o_sendall
        ssl.SSLSocket.send, ssl.SSLObject.write = o_ssl_send, o_obj_write
        socket.getaddrinfo, socket.gethostbyname = o_gai, o_ghbn


def run(ctx: core.Ctx):
    ctx.rule = ('configuration enumeration: provider TLS {off,on} x consumer {none, optional, enforced} x {sync, async} x alternative host names '
                '(provider and consumer) + reference-parameter dispatching subscription managers (quick: 3 configurations, thorough: all 24); each '
                'loop-back run = raw subscriber (9 directed + seeded random combinations of wsa:To x Host header x NotifyTo x EndTo written by hand), '
                'library consumer session (start-up, subscription, 5 transactions, operation, renew, GetStatus, location / Hello, directed Probe, '
                'faults after start-up, unsubscribe, restart against a failing handshake), provider shutdown with SubscriptionEnd; '
                'certloader: one-call variants + 8 directed and seeded random call sequences (key pair x CA {none, a, b} x cyphers x direct/folder), '
                'every call with a CA judged by the per-call model (verify_mode + 5 in-memory handshakes), earlier results judged again at the end; '
                'four real-socket runs (sync / async provider components x alternative host names, own http servers) with hostile peers against both '
                'servers.  distinct = configuration + outcome / shape of the raw Subscribe / shape of the call sequence / kind of peer')
    jobs = []
    first = True
    for provider_tls in (False, True):
        for consumer in ('none', 'optional', 'enforced'):
            for async_mgr in (False, True):
                for alt in (False, True):
                    jobs.append(['w_loopback', {'provider_tls': provider_tls, 'consumer': consumer, 'async_mgr': async_mgr, 'alt_host': alt,
                                                'sample': first and provider_tls}])
    jobs[12][1]['sample'] = True
    if ctx.quick:
        for provider_tls, consumer, async_mgr in ((True, 'enforced', False), (True, 'enforced', True), (False, 'none', False)):
            jobs.append(['w_loopback', {'provider_tls': provider_tls, 'consumer': consumer, 'async_mgr': async_mgr, 'alt_host': False, 'dispatch': 'refparam'}])
    else:
        for job in list(jobs):
            jobs.append(['w_loopback', {**job[1], 'dispatch': 'refparam', 'sample': False}])
    for scheme in ('http', 'https'):
        for async_mgr in (False, True):
            jobs.append(['w_loopback', {'provider_tls': True, 'consumer': 'enforced', 'async_mgr': async_mgr, 'alt_host': False, 'offsite_wsdl': scheme}])
    jobs.append(['w_contexts', {}])
    for async_provider in (False, True):
        for alt in (False, True):
            jobs.append(['w_real_sockets', {'async_provider': async_provider, 'alt_host': alt}])
    core.fanout(ctx, MODULE, 'dispatch', jobs, timeout=600)
    ctx.exhaustive = True
    ctx.extra['exhaustive_part'] = ('the configuration space listed in rule; traffic per configuration is one scripted session plus the directed raw '
                                    'Subscribe combinations; random part: further raw combinations and certloader call sequences')
    ctx.floor('loopback.urls_scanned', 1000)
    ctx.floor('loopback.addresses_checked', 800)
    ctx.floor('loopback.addresses.subscription_manager', 300)
    ctx.floor('loopback.addresses.hosted_endpoint', 100)
    ctx.floor('loopback.addresses.wsdl_location', 100)
    ctx.floor('loopback.addresses.xaddrs', 8)
    ctx.floor('loopback.addresses.xaddrs_published', 8)
    ctx.floor('loopback.addresses.notify_to', 16)
    ctx.floor('loopback.addresses.end_to', 16)
    ctx.floor('loopback.raw.subscribe_responses.tls_provider', 100)
    ctx.floor('loopback.raw.sink_connections', 30)
    ctx.floor('loopback.midsession_faults_injected', 10)
    ctx.floor('loopback.getmetadata_with_foreign_host_header', 20)
    ctx.floor('loopback.offsite_wsdl_locations_planted', 4)
    ctx.floor('loopback.connections_recorded', 100)
    ctx.floor('contexts.handshakes', 10)
    ctx.floor('contexts.history.calls_with_ca_after_same_key_other_ca_setting', 8)
    ctx.floor('contexts.history.handshakes', 100)
    ctx.floor('contexts.history.rechecked_after_later_calls', 6)
    ctx.floor('real.tcp_connections', 8)
    ctx.floor('real.plain_socket_streams_checked.async_provider', 2)
    ctx.floor('real.urls_scanned.provider', 40)
    ctx.floor('real.urls_scanned.consumer', 16)
    ctx.floor('real.peer_probe.trusted.answered', 8)
    ctx.floor('real.peer_probes', 32)
    ctx.assumptions += ['loop-back: a TLS / plaintext mismatch is emulated by the transport (SSLError resp. connection reset), no real handshake',
                        'handing a plaintext shared server to a TLS-enforced consumer is an application contradiction and not generated',
                        'real-socket runs: connections of http.client are attributed to the wrapping SSLContext; asyncio TLS (async provider components) is judged by the first bytes written to the plain socket (must be a TLS record header)',
                        'real-socket runs: compression is switched off on both sides so that the plaintext captured at the entry of the TLS layer can be scanned for addresses',
                        'transport addresses judged structurally: wse:SubscriptionManager, dpws:Hosted EPRs, mex Location, wsd:XAddrs (provider), wse:NotifyTo / wse:EndTo (enforced consumer); wsa:To / ReplyTo echo what the peer wrote and are not judged; the SubscriptionEnd manager address is written https:host:port (no //) by the library: its scheme is https, the malformed form is not a matter of this property',
                        'after an injected connection error the harness calls connect() on the closed soap clients (the library leaves that to the application)']


def dispatch(ctx: core.Ctx, job):
    globals()[job[0]](ctx, job[1])
