"""C03 - transactions are atomic, and the data they hand out is isolated from the MDIB.

Workload: a real provider (loop-back transport, one subscribed consumer as report sink) on the sample MDIBs.
(a) bodies raising at every step, (b) API calls that must be rejected, (c) pre-commit handler raising, (d) commits failing for
natural reasons, (e) failpoints: the n-th table update of a commit raises  ->  snapshot(after) must equal snapshot(before) and
nothing may appear on the wire.  Isolation: a generic deep mutator walks every nested attribute path of every handed-out object
(transaction getters, entity getters, transaction results, observables) and after each single mutation the MDIB snapshot and all
previously recorded results must be unchanged.
Round 4: exhaustive crash points also for context / descriptor transaction bodies, the error flag, calls that the API rejects half way,
every *_by_handle observable counts as a report; further hand-out paths live in vf/c03_handouts.py (entities refreshed with update(), the
periodic-report store and the periodic report on the wire as published data, context / descriptor results, by_node_type / items()).
"""
from __future__ import annotations

import copy
import enum
import random
from decimal import Decimal

from .. import core, mdibops
from ..history import canon, canon_descriptor, first_difference, snap, snap_equal
from ..mdibharness import MDIB_FILES, World

MODULE = 'vf.props.c03'


class InjectedFault(Exception):
    pass


# ------------------------------------------------------------------------------------------------
# deep mutator
# ------------------------------------------------------------------------------------------------
def _changed(v):
    if isinstance(v, bool):
        return not v
    if isinstance(v, enum.Enum):
        members = list(type(v))
        return members[(members.index(v) + 1) % len(members)]
    if isinstance(v, int):
        return v + 1
    if isinstance(v, Decimal):
        return v + 1
    if isinstance(v, float):
        return v + 1.0
    if isinstance(v, str):
        return v + 'x'
    return None


def deep_mutations(obj, path='', depth=0):
    """yield (path, thunk): each thunk performs ONE in-place mutation somewhere below obj."""
    if depth > 6 or not hasattr(obj, 'sorted_container_properties'):
        return
    # NOT followed: state.descriptor_container.  It is a reference to ANOTHER MDIB object (the library hands out transaction states that
    # refer to the live descriptor, by design); the statement is about the content of the handed-out object itself (see DESIGN.md, C03).
    for name, prop in obj.sorted_container_properties():
        try:
            v = prop.get_actual_value(obj)
        except Exception:  # noqa: BLE001
            continue
        if v is None:
            continue
        p = f'{path}.{name}'
        if hasattr(v, 'sorted_container_properties'):
            yield from deep_mutations(v, p, depth + 1)
        elif isinstance(v, list):
            if v and hasattr(v[0], 'sorted_container_properties'):
                yield from deep_mutations(v[0], p + '[0]', depth + 1)
            elif v and _changed(v[0]) is not None:
                def _set_item(lst=v, val=_changed(v[0])):
                    lst[0] = val
                yield p + '[0]=', _set_item
            if v:
                def _append(lst=v):
                    lst.append(copy.deepcopy(lst[0]))
                yield p + '.append()', _append

                def _pop(lst=v):
                    lst.pop()
                yield p + '.pop()', _pop
        else:
            nv = _changed(v)
            if nv is not None and (depth > 0 or name not in ('Handle', 'DescriptorHandle')):  # identity members stay (the harness looks objects up)
                def _set(o=obj, n=name, val=nv):
                    setattr(o, n, val)
                yield p, _set


# ------------------------------------------------------------------------------------------------
OBSERVABLES = ('metrics_by_handle', 'waveform_by_handle', 'alert_by_handle', 'context_by_handle', 'component_by_handle',
               'operation_by_handle', 'new_descriptors_by_handle', 'updated_descriptors_by_handle', 'deleted_descriptors_by_handle',
               'deleted_states_by_handle', 'description_modifications')


class Sink:
    """counts what reaches the subscribed consumer and what the provider mdib publishes."""

    def __init__(self, world: World, consumer):
        self.world = world
        self.netloc = f'127.0.0.1:{consumer.vf_server.server_port}'
        self.results = []
        self.observed = []   # (observable name, keys) of every non-empty *_by_handle dict the MDIB publishes
        from sdc11073 import observableproperties as properties
        properties.strongbind(world.mdib, transaction=self._on_tr)
        for name in OBSERVABLES:
            properties.strongbind(world.mdib, **{name: lambda value, _n=name: self._on_observable(_n, value)})

    def _on_tr(self, tr):
        # an empty TransactionResult (empty transaction) is not a published result
        if tr is not None and (tr.has_descriptor_updates or tr.all_states()):
            self.results.append(tr)

    def _on_observable(self, name, value):
        if value:
            self.observed.append((name, value))

    def published_count(self):
        """number of things the MDIB told its observers (transaction results + *_by_handle observables)."""
        return len(self.results) + len(self.observed)

    def wire_count(self):
        return sum(1 for e in self.world.network.log if e.netloc == self.netloc)


def _expect_untouched(ctx, world, sink, before, wire_before, results_before, key, what, detail, single_key=False):
    after = snap(world.mdib)
    if single_key:  # one mechanism, one key (known finding): every symptom is reported under it
        diffs = snap_equal(before, after, keys=('version', 'descr', 'states', 'ctx'))
        if (diffs or before['hvl'] != after['hvl'] or before['sizes'] != after['sizes'] or after.get('index_problems')
                or sink.wire_count() != wire_before or sink.published_count() != results_before):
            ctx.witness(key, what, {**detail, 'diff': diffs[:4], 'index_problems': after.get('index_problems', [])[:2]})
            return False, after
        return True, after
    diffs = snap_equal(before, after, keys=('version', 'descr', 'states', 'ctx'))
    bad = False
    if diffs:
        ctx.witness(key, what, {**detail, 'diff': diffs[:4]})
        bad = True
    elif before['hvl'] != after['hvl'] or before['sizes'] != after['sizes']:
        ctx.witness(key + '.bookkeeping', what + ' (saved version counters / table sizes changed)', detail)
        bad = True
    if after.get('index_problems'):
        ctx.witness(key + '.index', what + ' (lookups disagree with a scan afterwards)', {**detail, 'problems': after['index_problems'][:3]})
        bad = True
    if sink.wire_count() != wire_before or sink.published_count() != results_before:
        ctx.witness(key + '.report_sent', 'a report was sent / a transaction result or *_by_handle observable published although the transaction '
                    'did not commit', {**detail, 'wire_delta': sink.wire_count() - wire_before,
                                       'observables': [n for n, _ in sink.observed[-3:]]})
        bad = True
    return not bad, after


def _mk_world(mdib_file):
    world = World(mdib_file, role_provider=False)  # no role provider: no background transactions
    consumer, _ = world.add_consumer(with_mdib=False)
    sink = Sink(world, consumer)
    return world, sink


# ------------------------------------------------------------------------------------------------
def w_aborts(ctx: core.Ctx, arg):
    """(a)+(b)+(c): aborted / rejected transactions inside random histories."""
    rng = ctx.rng('aborts', arg['i'])
    rng_mode = ctx.rng('aborts.mode', arg['i'])
    mdib_file = MDIB_FILES[arg['i'] % len(MDIB_FILES)]
    world, sink = _mk_world(mdib_file)
    mdib = world.mdib
    memo = {}
    weights = dict(mdibops.DEFAULT_WEIGHTS)
    weights.update({'abort': 14, 'reject': 8, 'unget': 3, 'empty': 2, 'ctx_delete': 2, 'exotic': 1})
    orig_pre = mdib.pre_commit_handler
    for step in range(arg['n']):
        op = mdibops.gen_op(rng, mdib, memo, weights)
        precommit = rng.random() < 0.1 and 'abort_at' not in op and op['op'] not in ('reject', 'empty', 'location')
        error_flag = precommit and rng_mode.random() < 0.4
        if precommit:
            reached = []

            def _raising(m, tr, _orig=orig_pre, _flag=error_flag, _reached=reached):
                if callable(_orig):
                    _orig(m, tr)
                _reached.append(1)
                if _flag:   # the transaction is marked as failed: the library must not commit it ("transaction without updates")
                    tr._error = True
                    return
                raise InjectedFault('pre_commit_handler')
            mdib.pre_commit_handler = _raising
        before = snap(mdib)
        wire_before, results_before = sink.wire_count(), sink.published_count()
        ap = mdibops.apply_op(mdib, op, memo if not precommit else None)
        mdib.pre_commit_handler = orig_pre
        opk = op['op'] + ('.' + op['sub'] if op.get('sub') else '')
        detail = {'op': op, 'outcome': ap.outcome, 'mdib_file': mdib_file, 'step': step, 'exception': repr(ap.exception)[:200]}
        if error_flag:
            if not reached or ap.outcome != 'ok':
                ctx.count('abort.error_flag_not_reached')
                continue
            ctx.count('abort.error_flag')
            _expect_untouched(ctx, world, sink, before, wire_before, results_before, f'error_flag.{opk}',
                              'the error flag of the transaction was set before the commit but the MDIB changed / a report was sent', detail)
            ctx.case(('error_flag', opk, op.get('iface')))
        elif precommit:
            ctx.count('abort.precommit_handler_raises')
            if ap.outcome != 'raised:InjectedFault':
                ctx.count('abort.precommit_not_reached')
                continue
            _expect_untouched(ctx, world, sink, before, wire_before, results_before, f'precommit_raise.{opk}',
                              'pre-commit handler raised but the MDIB changed', detail)
            ctx.case(('precommit', opk, op.get('iface')))
        elif ap.expect == 'abort' and ap.outcome == 'raised:BodyAbort':
            ctx.count(f'abort.body.{op["abort_at"]}')
            _expect_untouched(ctx, world, sink, before, wire_before, results_before, f'abort.{opk}.{op["abort_at"]}',
                              'the transaction body raised but the MDIB changed', detail)
            ctx.case(('abort', opk, op.get('iface'), op['abort_at'], len(op.get('handles', []))))
        elif ap.expect == 'reject':
            if ap.outcome == 'ok':
                ctx.witness(f'reject.accepted.{op["sub"]}', 'an API call that must be rejected was accepted', detail)
            elif ap.outcome != 'raised:BodyAbort':
                ctx.count(f'reject.{op["sub"]}')
                _expect_untouched(ctx, world, sink, before, wire_before, results_before, f'reject.{op["sub"]}',
                                  'the API rejected a call but the MDIB changed', detail)
                ctx.case(('reject', op['sub'], ap.outcome))
        elif ap.expect == 'empty':
            ctx.count('abort.empty')
            _expect_untouched(ctx, world, sink, before, wire_before, results_before, f'empty.{op.get("kind")}',
                              'an empty transaction changed the MDIB or sent a report', detail)
            ctx.case(('empty', op.get('kind')))
        elif ap.outcome != 'ok':
            # a transaction that was expected to commit raised: whatever the reason, the MDIB must be untouched
            ctx.count(f'abort.unexpected_raise.{opk}.{ap.outcome}')
            _expect_untouched(ctx, world, sink, before, wire_before, results_before, f'failed_commit.{opk}.{ap.outcome.split(":")[-1]}',
                              'a transaction raised but left changes in the MDIB', detail)
            ctx.case(('raised', opk, ap.outcome))
        else:
            ctx.count('commit.ok')
    if arg['i'] == 0:
        ctx.sample({'kind': 'abort history', 'mdib_file': mdib_file, 'steps': arg['n']})
    world.stop()


def w_crashpoints(ctx: core.Ctx, arg):
    """(a) exhaustive body crash points: state transactions over k handles aborted after j = 0..k steps; descriptor templates."""
    rng = ctx.rng('crash', arg['i'])
    mdib_file = MDIB_FILES[arg['i'] % len(MDIB_FILES)]
    world, sink = _mk_world(mdib_file)
    mdib = world.mdib
    cat = mdibops.catalog(mdib)
    for kind in ('metric', 'alert', 'component', 'operational', 'rt'):
        pool = cat[kind]
        if not pool:
            continue
        for iface in ('classic', 'entity'):
            handles = pool[:4]
            for j in range(len(handles) + 1):
                before = snap(mdib)
                wire_before, results_before = sink.wire_count(), sink.published_count()
                r = random.Random(rng.randrange(1 << 30))
                try:
                    with getattr(mdib, mdibops._TR[kind])() as mgr:
                        for i, h in enumerate(handles):
                            if i == j:
                                raise mdibops.BodyAbort(j)
                            if iface == 'entity':
                                ent = mdib.entities.by_handle(h)
                                mdibops.mutate_state(ent.state, r)
                                _run_all_mutations(ent.state)
                                mgr.write_entity(ent)
                            else:
                                st = mgr.get_state(h)
                                mdibops.mutate_state(st, r)
                                _run_all_mutations(st)
                        raise mdibops.BodyAbort('end')
                except mdibops.BodyAbort:
                    pass
                ctx.count(f'crashpoint.{kind}')
                _expect_untouched(ctx, world, sink, before, wire_before, results_before, f'abort.{kind}.step',
                                  'the transaction body raised (after deep mutation of the handed-out states) but the MDIB changed',
                                  {'kind': kind, 'iface': iface, 'crash_after_steps': j, 'handles': handles, 'mdib_file': mdib_file})
                ctx.case(('crash', mdib_file, kind, iface, j))
    for kind, steps in (('context', _context_body(mdib, cat, rng)), ('descriptor', _descriptor_body(mdib, cat, rng))):
        for j in range(len(steps) + 1):
            before = snap(mdib)
            wire_before, results_before = sink.wire_count(), sink.published_count()
            done = []
            try:
                with getattr(mdib, mdibops._TR[kind])() as mgr:
                    for i, (name, step) in enumerate(steps):
                        if i == j:
                            raise mdibops.BodyAbort(j)
                        step(mgr)
                        done.append(name)
                    raise mdibops.BodyAbort('end')
            except mdibops.BodyAbort:
                pass
            ctx.count(f'crashpoint.{kind}')
            _expect_untouched(ctx, world, sink, before, wire_before, results_before, f'abort.{kind}.step',
                              f'the body of a {kind} transaction raised (after deep mutation of the handed-out objects) but the MDIB changed',
                              {'kind': kind, 'steps_done': done, 'mdib_file': mdib_file})
            ctx.case(('crash', mdib_file, kind, j))
        # the complete body is acceptable to the library (otherwise the crash points above would not be crash points of a valid body)
        _DEEP['on'] = False   # (the deep mutator writes values that are not schema-valid; they must not go onto the wire)
        try:
            with getattr(mdib, mdibops._TR[kind])() as mgr:
                for _name, step in steps:
                    step(mgr)
            ctx.count(f'crashpoint.{kind}.full_body_commits')
        except Exception as ex:  # noqa: BLE001
            ctx.count(f'crashpoint.{kind}.full_body_raised.{type(ex).__name__}')
        finally:
            _DEEP['on'] = True
    world.stop()


def _context_body(mdib, cat, rng):
    """steps of a context-state transaction body that uses every call of the manager (both interfaces)."""
    if len(cat['context']) < 2:
        return []
    dh, dh2 = cat['context'][:2]
    for h, descr, assoc in (('cp_a', dh, False), ('cp_b', dh, False), ('cp_c', dh, False), ('cp_d', dh2, True)):
        with mdib.context_state_transaction() as mgr:
            st = mgr.mk_context_state(descr, h, set_associated=assoc)
            mdibops.mutate_context_state(st, rng)
            st.Identification = [mdib.data_model.pm_types.InstanceIdentifier(root='urn:cp', extension_string=h)]

    def s_mk(mgr):
        st = mgr.mk_context_state(dh, 'cp_new_1', set_associated=True)
        mdibops.mutate_context_state(st, rng)

    def s_get(mgr):
        st = mgr.get_context_state('cp_a')
        mdibops.mutate_context_state(st, rng)
        _deep(st)

    def s_entity_update(mgr):
        ent = mdib.entities.by_handle(dh)
        mdibops.mutate_context_state(ent.states['cp_b'], rng)
        _deep(ent.states['cp_b'])
        mgr.write_entity(ent, ['cp_b'])

    def s_entity_new(mgr):
        ent = mdib.entities.by_handle(dh)
        st = ent.new_state('cp_new_2')
        mdibops.mutate_context_state(st, rng)
        mgr.write_entity(ent, ['cp_new_2'])

    def s_entity_delete(mgr):
        ent = mdib.entities.by_handle(dh)
        del ent.states['cp_c']
        mgr.write_entity(ent, ['cp_c'])

    def s_disassociate(mgr):
        mgr.disassociate_all(dh2)

    def s_add_state(mgr):
        st = mdib.data_model.mk_state_container(mdib.descriptions.handle.get_one(dh2))
        st.Handle = 'cp_new_3'
        mdibops.mutate_context_state(st, rng)
        mgr.add_state(st)
    return [('mk_context_state', s_mk), ('get_context_state', s_get), ('write_entity.update', s_entity_update),
            ('write_entity.new', s_entity_new), ('write_entity.delete', s_entity_delete), ('disassociate_all', s_disassociate),
            ('add_state', s_add_state)]


def _descriptor_body(mdib, cat, rng):
    """steps of a descriptor transaction body that uses every call of the manager (both interfaces)."""
    from sdc11073.xml_types import pm_qnames as pm
    if len(cat['leaf_metric']) < 3 or not cat['channel'] or not cat['alert']:
        return []
    m0, m1, m2 = cat['leaf_metric'][:3]
    chan = cat['channel'][0]

    def s_get_descriptor(mgr):
        d = mgr.get_descriptor(m0)
        mdibops.mutate_descriptor(d, rng)
        _deep(d)

    def s_get_state(mgr):
        st = mgr.get_state(m0)
        mdibops.mutate_state(st, rng)
        _deep(st)

    def s_add_with_state(mgr):
        d = mdibops._new_numeric(mdib, 'cp_d1', chan, rng)
        st = mdib.data_model.mk_state_container(d)
        mdibops.mutate_state(st, rng)
        mgr.add_descriptor(d, state_container=st)

    def s_add_then_state(mgr):
        d = mdibops._new_numeric(mdib, 'cp_d2', chan, rng)
        mgr.add_descriptor(d)
        st = mdib.data_model.mk_state_container(d)
        mdibops.mutate_state(st, rng)
        mgr.add_state(st)

    def s_new_entity(mgr):
        ent = mdib.entities.new_entity(pm.NumericMetricDescriptor, 'cp_d3', chan)
        ent.descriptor.Type, ent.descriptor.Unit = mdibops._coded(rng), mdibops._coded(rng)
        ent.descriptor.Resolution = Decimal('0.1')
        ent.descriptor.MetricCategory = mdib.data_model.pm_types.MetricCategory.MEASUREMENT
        ent.descriptor.MetricAvailability = mdib.data_model.pm_types.MetricAvailability.CONTINUOUS
        mdibops.mutate_state(ent.state, rng)
        mgr.write_entity(ent)

    def s_write_existing(mgr):
        ent = mdib.entities.by_handle(m1)
        mdibops.mutate_descriptor(ent.descriptor, rng)
        mdibops.mutate_state(ent.state, rng)
        _deep(ent.state)
        mgr.write_entity(ent)

    def s_remove(mgr):
        mgr.remove_descriptor(m2)
    return [('get_descriptor', s_get_descriptor), ('get_state', s_get_state), ('add_descriptor+state', s_add_with_state),
            ('add_descriptor,add_state', s_add_then_state), ('write_entity.new', s_new_entity), ('write_entity.existing', s_write_existing),
            ('remove_descriptor', s_remove)]


def w_rejected_caught(ctx: core.Ctx, arg):
    """directed: every transaction kind x every way to end with nothing to commit (no call; get + unget; ONE call that the API rejects, the
    application catches the exception inside the body and leaves the body normally).  A rejected call has no effect, so the commit must be
    empty: MDIB, lookups, counters as before, nothing on the wire."""
    mdib_file = MDIB_FILES[arg['i'] % len(MDIB_FILES)]
    world, sink = _mk_world(mdib_file)
    mdib = world.mdib
    cat = mdibops.catalog(mdib)
    for h in cat['context'][:2]:
        mdibops.apply_op(mdib, {'op': 'context', 'sub': 'new', 'descr': h, 'new_handle': f'rc_{h}', 'seed': 1, 'iface': 'classic'})
    first = {k: (cat[k][0] if cat[k] else None) for k in ('metric', 'alert', 'component', 'operational', 'rt', 'context', 'channel')}
    ctx_state = next((s.Handle for s in mdib.context_states.objects), None)

    def ent(kind, n=0):
        hs = cat[kind]
        return mdib.entities.by_handle(hs[n % len(hs)]) if hs else None

    def new_ctx_state(descr_handle, handle):
        st = mdib.data_model.mk_state_container(mdib.descriptions.handle.get_one(descr_handle))
        st.Handle = handle
        return st

    def edited_ctx_entity(descr_handle, new=None):
        e = mdib.entities.by_handle(descr_handle)
        for st in e.states.values():
            st.Identification = [mdib.data_model.pm_types.InstanceIdentifier(root='urn:rejected', extension_string=st.Handle)]
        if new:
            e.new_state(new).Identification = [mdib.data_model.pm_types.InstanceIdentifier(root='urn:rejected.new')]
        return e

    def wrong_kind(kind):
        return next((k for k in ('metric', 'alert', 'component', 'operational') if k != kind and first[k]), None)

    plans = []   # (transaction kind, manner, callable(mgr))
    for kind in ('metric', 'alert', 'component', 'operational', 'rt'):
        if not first[kind]:
            continue
        wk = wrong_kind(kind)
        plans += [
            (kind, 'no_call', lambda mgr: None),
            (kind, 'get_unget', lambda mgr, h=first[kind]: mgr.unget_state(mgr.get_state(h))),
            (kind, 'get_state.unknown_handle', lambda mgr: mgr.get_state('no.such.handle')),
            (kind, 'get_state.wrong_kind', lambda mgr, h=first[wk]: mgr.get_state(h)),
            (kind, 'write_entity.wrong_kind', lambda mgr, k=wk: mgr.write_entity(ent(k))),
            (kind, 'write_entity.multi_state', lambda mgr: mgr.write_entity(ent('context'))),
            (kind, 'write_entities.bad_last', lambda mgr, k=kind, w=wk: mgr.write_entities([ent(k, 0), ent(k, 1), ent(w)])),
            (kind, 'write_entities.bad_middle', lambda mgr, k=kind, w=wk: mgr.write_entities([ent(k, 0), ent(w), ent(k, 1)])),
            (kind, 'write_entities.multi_state_last', lambda mgr, k=kind: mgr.write_entities([ent(k, 0), ent('context')])),
        ]
    if first['context']:
        d = first['context']
        plans += [
            ('context', 'no_call', lambda mgr: None),
            ('context', 'get_context_state.unknown_handle', lambda mgr: mgr.get_context_state('no.such.state')),
            ('context', 'mk_context_state.not_a_context_descriptor', lambda mgr: mgr.mk_context_state(first['metric'], 'x1')),
            ('context', 'mk_context_state.unknown_descriptor', lambda mgr: mgr.mk_context_state('no.such.descriptor', 'x2')),
            ('context', 'mk_context_state.handle_in_use', lambda mgr: mgr.mk_context_state(d, ctx_state)),
            ('context', 'write_entity.unknown_state', lambda mgr: mgr.write_entity(mdib.entities.by_handle(d), ['no.such.state'])),
            ('context', 'disassociate_all.nothing_associated', lambda mgr: mgr.disassociate_all('no.such.descriptor')),
            ('context', 'add_state.handle_in_use', lambda mgr: mgr.add_state(new_ctx_state(d, f'rc_{d}'))),
            ('context', 'add_state.not_a_context_state', lambda mgr: mgr.add_state(
                mdib.data_model.mk_state_container(mdib.descriptions.handle.get_one(first['metric'])))),
            # calls over SEVERAL states that the API rejects because of one of them: a rejected call has no effect, also not half of it
            ('context', 'write_entity_partial.unknown_then_good', lambda mgr: mgr.write_entity(edited_ctx_entity(d), ['no.such.state', f'rc_{d}'])),
            ('context', 'write_entity_partial.good_then_unknown', lambda mgr: mgr.write_entity(edited_ctx_entity(d), [f'rc_{d}', 'no.such.state'])),
            ('context', 'write_entity_partial.new_then_unknown', lambda mgr: mgr.write_entity(edited_ctx_entity(d, new='rc_new'),
                                                                                             ['rc_new', 'no.such.state'])),
        ]
    if first['channel']:
        plans += [
            ('descriptor', 'no_call', lambda mgr: None),
            ('descriptor', 'get_descriptor.unknown_handle', lambda mgr: mgr.get_descriptor('no.such.handle')),
            ('descriptor', 'add_descriptor.handle_in_use', lambda mgr: mgr.add_descriptor(
                mdibops._new_numeric(mdib, first['metric'], first['channel'], random.Random(1)))),
            ('descriptor', 'remove_descriptor.unknown_handle', lambda mgr: mgr.remove_descriptor('no.such.handle')),
            ('descriptor', 'get_state.descriptor_not_in_transaction', lambda mgr: mgr.get_state(first['metric'])),
            ('descriptor', 'add_state.descriptor_not_in_transaction', lambda mgr: mgr.add_state(
                mdib.data_model.mk_state_container(mdib.descriptions.handle.get_one(first['metric'])))),
            # add_descriptor gets a state that the API refuses: the descriptor must not stay registered either
            ('descriptor', 'add_descriptor_partial.state_of_other_descriptor', lambda mgr: mgr.add_descriptor(
                mdibops._new_numeric(mdib, 'rc_new_descr_1', first['channel'], random.Random(1)),
                state_container=mdib.data_model.mk_state_container(mdib.descriptions.handle.get_one(first['metric'])))),
        ]
    for kind, manner, call in plans:
        before = snap(mdib)
        wire_before, results_before = sink.wire_count(), sink.published_count()
        rejected = None
        try:
            with getattr(mdib, mdibops._TR[kind])() as mgr:
                try:
                    call(mgr)
                except Exception as ex:  # noqa: BLE001  the application handles the rejection and goes on
                    rejected = type(ex).__name__
        except Exception as ex:  # noqa: BLE001
            ctx.count(f'rejected_caught.commit_raised.{kind}.{manner}.{type(ex).__name__}')
            _expect_untouched(ctx, world, sink, before, wire_before, results_before, f'rejected_caught.commit_raised.{kind}.{manner}',
                              'the only call of the body was rejected (and handled); the commit then raised and left changes', {'mdib_file': mdib_file})
            continue
        if rejected is None and manner not in ('no_call', 'get_unget', 'disassociate_all.nothing_associated'):
            ctx.count(f'rejected_caught.not_rejected.{kind}.{manner}')   # the API accepts it: outside the statement
            continue
        ctx.count('rejected_caught.judged')
        ctx.count(f'rejected_caught.{kind}.{manner}.{rejected or "no_exception"}')
        key = f'empty.{kind}' if rejected is None else f'rejected_caught.{kind}.{manner.split(".")[0]}'
        _expect_untouched(ctx, world, sink, before, wire_before, results_before, key,
                          'a transaction whose body did nothing / whose only call was rejected by the API changed the MDIB or sent a report',
                          {'kind': kind, 'manner': manner, 'rejected_with': rejected, 'mdib_file': mdib_file},
                          single_key='_partial.' in manner)   # one mechanism (call rejected half way), one key for all its symptoms
        ctx.case(('rejected_caught', mdib_file, kind, manner, rejected))
    world.stop()


_DEEP = {'on': True}


def _deep(obj):
    return _run_all_mutations(obj) if _DEEP['on'] else 0


def _run_all_mutations(obj):
    n = 0
    for _path, thunk in list(deep_mutations(obj)):
        try:
            thunk()
            n += 1
        except Exception:  # noqa: BLE001
            pass
    return n


# ------------------------------------------------------------------------------------------------
def w_commit_failures(ctx: core.Ctx, arg):
    """(d) natural commit failures and (e) failpoints on the n-th table update."""
    rng = ctx.rng('fail', arg['i'])
    mdib_file = MDIB_FILES[arg['i'] % len(MDIB_FILES)]
    world, sink = _mk_world(mdib_file)
    mdib = world.mdib
    cat = mdibops.catalog(mdib)
    from sdc11073.xml_types import pm_types
    ctx_descr = [h for h in cat['context']]
    # make sure there are context states to collide with
    for h in ctx_descr[:2]:
        mdibops.apply_op(mdib, {'op': 'context', 'sub': 'new', 'descr': h, 'new_handle': f'base_{h}', 'seed': 1, 'iface': 'classic'})

    def attempt(key, what, fn, detail):
        before = snap(mdib)
        wire_before, results_before = sink.wire_count(), sink.published_count()
        try:
            fn()
        except Exception as ex:  # noqa: BLE001
            ctx.count(f'commit_failure.{key}.raised')
            ok, _ = _expect_untouched(ctx, world, sink, before, wire_before, results_before, key, what,
                                      {**detail, 'exception': repr(ex)[:200], 'mdib_file': mdib_file})
            return 'raised'
        ctx.count(f'commit_failure.{key}.no_exception')
        return 'ok'

    # (d1) duplicate context-state handle handed to add_state
    for h in ctx_descr[:2]:
        existing = sorted(s.Handle for s in mdib.context_states.descriptor_handle.get(h, []))
        if not existing:
            continue

        def dup(h=h, existing=existing):
            with mdib.context_state_transaction() as mgr:
                other = mgr.mk_context_state(h, f'fresh_{rng.randrange(10 ** 6)}')
                st = mdib.data_model.mk_state_container(mdib.descriptions.handle.get_one(h))
                st.Handle = existing[0]
                mgr.add_state(st)
        res = attempt('commit_fail.duplicate_context_handle', 'commit failed for a duplicate context-state handle but left changes behind', dup,
                      {'descriptor': h})
        ctx.case(('dup_ctx', mdib_file, h, res))

    # (d2) deletion of a context state through the entity interface
    for h in ctx_descr[:2]:
        existing = sorted(s.Handle for s in mdib.context_states.descriptor_handle.get(h, []))
        if not existing:
            continue

        def delete(h=h, existing=existing):
            ent = mdib.entities.by_handle(h)
            ent.states.pop(existing[0])
            with mdib.context_state_transaction() as mgr:
                mgr.mk_context_state(h, f'fresh2_{rng.randrange(10 ** 6)}')
                mgr.write_entity(ent, [existing[0]])
        res = attempt('commit_fail.context_state_deleted_via_entity',
                      'commit failed while deleting a context state through the entity interface but left changes behind', delete, {'descriptor': h})
        ctx.case(('del_ctx', mdib_file, h, res))

    # (e) failpoints: the n-th table update of a commit raises
    memo = {}
    for trial in range(arg['n']):
        op = mdibops.gen_op(rng, mdib, memo, {k: v for k, v in mdibops.DEFAULT_WEIGHTS.items() if k not in ('abort', 'reject', 'empty', 'unget', 'location')})
        # dry run on a scratch counter: count table updates of this op
        counter = {'n': 0, 'fail_at': None, 'where': None}
        tables = {'descriptions': mdib.descriptions, 'states': mdib.states, 'context_states': mdib.context_states}
        originals = {}

        def wrap(tname, mname):
            table = tables[tname]
            orig = getattr(table, mname)
            originals[(tname, mname)] = orig

            def wrapper(*a, **k):
                counter['n'] += 1
                if counter['fail_at'] is not None and counter['n'] == counter['fail_at']:
                    counter['where'] = f'{tname}.{mname}'
                    raise InjectedFault(f'{tname}.{mname} #{counter["n"]}')
                return orig(*a, **k)
            setattr(table, mname, wrapper)
        for tname in tables:
            for mname in ('add_object_no_lock', 'remove_object_no_lock', 'update_object_no_lock'):
                wrap(tname, mname)
        try:
            # how many updates does this op perform?  run it for real once (commits), then run a sibling op with a failpoint
            mdibops.apply_op(mdib, op, memo)
            total = counter['n']
            if total == 0:
                continue
            op2 = mdibops.gen_op(rng, mdib, memo, {op['op']: 1}) if op['op'] in mdibops.DEFAULT_WEIGHTS else None
            if op2 is None or op2['op'] != op['op']:
                continue
            counter['n'] = 0
            counter['fail_at'] = rng.randrange(1, total + 1)
            before = snap(mdib)
            wire_before, results_before = sink.wire_count(), sink.published_count()
            ap = mdibops.apply_op(mdib, op2, None)
            if ap.outcome != 'raised:InjectedFault':
                ctx.count('failpoint.not_reached')
                continue
            ctx.count('failpoint.fired')
            where = counter['where']
            opk = op2['op']
            _expect_untouched(ctx, world, sink, before, wire_before, results_before, 'commit_fail.failpoint.no_rollback',
                              'the commit failed at its n-th table update but the MDIB is left partially committed (no rollback)',
                              {'op': op2, 'failpoint': where, 'n': counter['fail_at'], 'of': total, 'mdib_file': mdib_file}, single_key=True)
            ctx.case(('failpoint', opk, where, counter['fail_at'] == 1, counter['fail_at'] == total))
            # the MDIB may be inconsistent now: start from a fresh world for the next trial
            world.stop()
            world, sink = _mk_world(mdib_file)
            mdib = world.mdib
            memo = {}
            continue
        finally:
            for (tname, mname), orig in originals.items():
                try:
                    delattr(tables[tname], mname)
                except AttributeError:
                    pass
    world.stop()


# ------------------------------------------------------------------------------------------------
def w_isolation(ctx: core.Ctx, arg):
    """hand-outs: every nested attribute path of every handed-out object mutated once; MDIB and earlier results must not change."""
    rng = ctx.rng('iso', arg['i'])
    mdib_file = MDIB_FILES[arg['i'] % len(MDIB_FILES)]
    world, sink = _mk_world(mdib_file)
    mdib = world.mdib
    memo = {}
    # evolve the MDIB a bit so that optional members are populated
    for _ in range(arg.get('warmup', 40)):
        mdibops.apply_op(mdib, mdibops.gen_op(rng, mdib, memo, {k: v for k, v in mdibops.DEFAULT_WEIGHTS.items()
                                                                  if k in ('metric', 'alert', 'component', 'context', 'operational', 'rt', 'location')}), memo)
    recorded = []  # (label, object, canonical form at recording time) of previously published results

    last = {}   # the snapshot taken after the latest mutation (= the MDIB before the next one, if nothing was committed in between)

    def check(label, cls_name, path, before):
        after = last['snap'] = snap(mdib, with_index_check=False)
        diffs = snap_equal(before, after)
        ctx.count('isolation.mutations')
        if diffs:
            ctx.witness(f'isolation.{label}', f'mutating an object handed out by the MDIB ({label}) changed the MDIB without a commit',
                        {'class': cls_name, 'path': path, 'diff': diffs[:2], 'mdib_file': mdib_file})
            return False
        for rlabel, robj, rcanon in recorded:
            now = canon(robj)
            if now != rcanon:
                ctx.witness(f'isolation.published_changed.{rlabel}.via.{label}',
                            f'mutating an object handed out by the MDIB ({label}) changed what an earlier commit published ({rlabel})',
                            {'class': cls_name, 'path': path, 'diff': first_difference(rcanon, now), 'mdib_file': mdib_file})
                recorded.remove((rlabel, robj, rcanon))
                return False
        return True

    def mutate_all(label, obj):
        cls_name = type(obj).__name__
        paths = list(deep_mutations(obj))
        before = snap(mdib, with_index_check=False)
        for path, thunk in paths:
            try:
                thunk()
            except Exception:  # noqa: BLE001
                continue
            ctx.case((label, cls_name, path))
            if not check(label, cls_name, path, before):
                break
            before = last['snap']   # judged equal to 'before', and only this loop touched anything since
        return len(paths)

    all_handles = sorted(d.Handle for d in mdib.descriptions.objects)
    rng.shuffle(all_handles)
    # every kind of hand-out in every run: two handles of each descriptor kind first, the rest at random
    cat = mdibops.catalog(mdib)
    chosen = []
    for kind in ('metric', 'rt', 'alert', 'component', 'operational', 'context'):
        pool = [h for h in cat[kind] if h not in chosen]
        if kind == 'context':
            pool = [h for h in pool if mdib.context_states.descriptor_handle.get(h)] or pool
        chosen += rng.sample(pool, min(2, len(pool)))
    chosen += [h for h in all_handles if h not in chosen]
    for h in chosen[:max(arg['n'], 12)]:
        d = mdib.descriptions.handle.get_one(h)
        # 1. entity getters
        ent = mdib.entities.by_handle(h)
        mutate_all('entities.by_handle.descriptor', ent.descriptor)
        if ent.is_multi_state:
            for st in list(ent.states.values())[:2]:
                mutate_all('entities.by_handle.state', st)
        else:
            mutate_all('entities.by_handle.state', ent.state)
        for ent2 in mdib.entities.by_parent_handle(h)[:1]:
            mutate_all('entities.by_parent_handle', ent2.descriptor)
        # 2. transaction getters: mutate inside the transaction, then abort
        kind = ('rt' if getattr(d, 'is_realtime_sample_array_metric_descriptor', False) else 'metric' if getattr(d, 'is_metric_descriptor', False)
                else 'alert' if getattr(d, 'is_alert_descriptor', False) else 'operational' if getattr(d, 'is_operational_descriptor', False)
                else 'component' if getattr(d, 'is_component_descriptor', False) else 'context' if d.is_context_descriptor else None)
        if kind and kind != 'context':
            try:
                with getattr(mdib, mdibops._TR[kind])() as mgr:
                    st = mgr.get_state(h)
                    mutate_all(f'{kind}_transaction.get_state', st)
                    raise mdibops.BodyAbort
            except mdibops.BodyAbort:
                pass
            # 3. committed transaction: the object the user still holds, the transaction result, the observables
            results_before = len(sink.results)
            with getattr(mdib, mdibops._TR[kind])() as mgr:
                st = mgr.get_state(h)
                mdibops.mutate_state(st, rng)
            if len(sink.results) > results_before:
                tr = sink.results[-1]
                for res_st in tr.all_states():
                    recorded.append((f'TransactionResult.{kind}_updates', res_st, canon(res_st)))
            mutate_all(f'{kind}_transaction.get_state.after_commit', st)
            if len(sink.results) > results_before:
                for res_st in list(sink.results[-1].all_states())[:1]:
                    recorded[:] = [r for r in recorded if r[1] is not res_st]
                    mutate_all(f'TransactionResult.{kind}_updates', res_st)
        if kind == 'context':
            existing = sorted(s.Handle for s in mdib.context_states.descriptor_handle.get(h, []))
            if existing:
                try:
                    with mdib.context_state_transaction() as mgr:
                        st = mgr.get_context_state(existing[0])
                        mutate_all('context_transaction.get_context_state', st)
                        raise mdibops.BodyAbort
                except mdibops.BodyAbort:
                    pass
                with mdib.context_state_transaction() as mgr:
                    st = mgr.get_context_state(existing[0])
                    mdibops.mutate_context_state(st, rng)
                mutate_all('context_transaction.get_context_state.after_commit', st)
        # 4. descriptor transaction
        if kind in ('metric', 'alert'):
            try:
                with mdib.descriptor_transaction() as mgr:
                    dd = mgr.get_descriptor(h)
                    mutate_all('descriptor_transaction.get_descriptor', dd)
                    raise mdibops.BodyAbort
            except mdibops.BodyAbort:
                pass
            results_before = len(sink.results)
            with mdib.descriptor_transaction() as mgr:
                dd = mgr.get_descriptor(h)
                mdibops.mutate_descriptor(dd, rng)
            if len(sink.results) > results_before:
                tr = sink.results[-1]
                for res_d in tr.descr_updated:
                    recorded.append(('TransactionResult.descr_updated', res_d, canon(res_d)))
            mutate_all('descriptor_transaction.get_descriptor.after_commit', dd)
        recorded[:] = recorded[-6:]
    # created descriptors: the user's object must not become the MDIB's object
    for k in range(3):
        chans = mdibops.catalog(mdib)['channel']
        if not chans:
            break
        handle = f'iso_new_{arg["i"]}_{k}'
        d = mdibops._new_numeric(mdib, handle, chans[0], rng)
        st = mdib.data_model.mk_state_container(d)
        mdibops.mutate_state(st, rng)
        with mdib.descriptor_transaction() as mgr:
            mgr.add_descriptor(d, state_container=st)
        mutate_all('descriptor_transaction.add_descriptor.after_commit', d)
        mutate_all('descriptor_transaction.add_descriptor.state.after_commit', st)
    world.stop()


def run(ctx: core.Ctx):
    ctx.rule = ('crash points: every body position of state transactions over 4 handles (both interfaces) and of a 7-step context / descriptor transaction '
                'body, random histories with aborts at start/middle/end, rejected API calls (propagating / handled in the body, also calls rejected half '
                'way), raising pre-commit handler, error flag, natural commit failures, failpoint at the n-th table update; isolation: every nested '
                'attribute path (by reflection) of every handed-out object mutated once (transaction getters of all kinds in the body and after the '
                'commit, all four entity getters, entities refreshed with update() after foreign commits, entities after write_entity, transaction '
                'results incl. descriptors, observables); published data = earlier results + the periodic-report store + the periodic report on the '
                'wire.  distinct = (hand-out kind, class, attribute path) resp. (crash kind, op, position)')
    q = ctx.quick
    jobs = []
    # the long jobs first (more jobs than cores: what starts last ends last)
    for k in range(4 if q else 16):
        jobs.append(['w_isolation', {'i': k, 'n': 12 if q else 400}])
    for k in range(4 if q else 16):
        jobs.append(['w_aborts', {'i': k, 'n': 120 if q else 1500}])
    for k in range(4 if q else 8):
        jobs.append(['w_entity_refresh', {'i': k, 'extra': 2 if q else 12}])
        jobs.append(['w_isolation_more', {'i': k}])
        jobs.append(['w_periodic', {'i': k, 'rounds': 2 if q else 12}])
    for k in range(4):
        jobs.append(['w_commit_failures', {'i': k, 'n': 6 if q else 60}])
        jobs.append(['w_crashpoints', {'i': k}])
        jobs.append(['w_rejected_caught', {'i': k}])
    core.fanout(ctx, MODULE, 'dispatch', jobs, timeout=3000)
    ctx.floor('isolation.mutations', 500)
    ctx.floor('rejected_caught.judged', 60)
    ctx.floor('crashpoint.metric', 8)
    ctx.floor('crashpoint.context', 16)
    ctx.floor('crashpoint.descriptor', 16)
    ctx.floor('abort.body.end', 5)
    ctx.floor('abort.error_flag', 3)
    ctx.floor('failpoint.fired', 4)
    # hand-outs of c03_handouts: each deciding monitor must have seen its objects
    ctx.floor('reach.entity_update.new_state', 100)          # states that MultiStateEntity.update() added to a kept entity
    ctx.floor('reach.entity_update.refreshed_state', 100)    # states that update() refreshed in place
    ctx.floor('reach.entity_update.descriptor', 40)
    ctx.floor('periodic.store_states_watched', 100)          # states retained for the next periodic report while the application edits its copies
    ctx.floor('periodic.mutations', 500)
    ctx.floor('periodic.wire_states_compared', 40)           # Periodic*Report state compared with the Episodic*Report state of the same version
    ctx.floor('reach.context_transaction.mk_context_state.after_commit', 50)
    ctx.floor('reach.context_transaction.add_state.after_commit', 50)
    ctx.floor('reach.TransactionResult.ctxt_updates', 50)
    ctx.floor('reach.TransactionResult.descr_created', 10)
    ctx.floor('reach.TransactionResult.descr_updated', 20)
    ctx.floor('reach.entities.by_node_type', 50)
    ctx.floor('reach.entities.items', 50)
    ctx.floor('reach.entity.after_write_commit', 50)
    ctx.assumptions += ['failpoints are instance-level wrappers of the table update methods of the MDIB under test (runtime hook from the harness)',
                        'periodic reports: the interval timer of the periodic loop is replaced by a gate (the workload decides when a period ends); loop '
                        'thread, store and send functions are the library\'s; the store is read through its private lists',
                        'the error flag is set through the private member _error of the transaction (the public property is read-only)',
                        'a failure of report delivery after the tables were updated is not a failed commit and is not judged here']


def dispatch(ctx: core.Ctx, job):
    fn = globals().get(job[0])
    if fn is None:
        from .. import c03_handouts
        fn = getattr(c03_handouts, job[0])
    fn(ctx, job[1])
