"""C04 - reports are complete, truthful, schema-valid and delivered in version order.

(1) truth: for every committed transaction of seeded histories the reports found on the wire (per subscriber, parsed with lxml; contained
    entities read back and canonicalised) are compared with diff(by_version[v-1], by_version[v]) of the provider history: version group,
    exactly the changed descriptors / states, content = content at that commit, states under the part of their source MDS.
(2) schema: every byte string that crossed the loop-back transport (requests, responses, notifications, faults, SubscriptionEnd) is
    validated by the independent XSD oracle (vf.xsdoracle: lxml XMLSchema compiled from the bundled xsd files with an own resolver).
(3) order: per subscriber non-decreasing MdibVersion of episodic / waveform / description reports under writer threads, and a
    lock-granularity exploration with the writer observed (foreign transactions at every point where it holds neither lock).
(4) periodic store: every (MdibVersion, states) entry retained for periodic reports equals the published content of that version, also
    after later transactions changed the same states AND after the application went on modifying the state objects it holds from the
    transaction (vf.c04_handout); periodic reports on the wire (flushed, and sent by the real fixed-interval loop under a stub timer) are
    checked the same way, incl. the SourceMds of their parts.
(5) order under faults of another peer: one subscriber fails in nine ways while the same report is slowly delivered to bystanders and
    further commits follow - the bystanders still see non-decreasing MdibVersions (sync + async managers).
"""
from __future__ import annotations

import os
import sys
import threading
import time

from lxml import etree

from .. import core, loopback, mdibops
from ..c04_handout import HandoutTap, scribble
from ..history import History, canon, canon_descriptor, first_difference, tolerant_equal, versions_of
from ..mdibharness import MDIB_FILES, World
from ..sched import Instrumented, LockProxy
from .c01 import MSG, PM, S12
from .c07 import LiveHistory

MODULE = 'vf.props.c04'
XSI_TYPE = '{http://www.w3.org/2001/XMLSchema-instance}type'
STATE_TAGS = ('MetricState', 'AlertState', 'ComponentState', 'OperationState', 'ContextState', 'State')
REPORT_KIND = {'EpisodicMetricReport': 'metric', 'EpisodicAlertReport': 'alert', 'EpisodicComponentReport': 'component',
               'EpisodicOperationalStateReport': 'operational', 'EpisodicContextReport': 'ctx', 'WaveformStream': 'rt',
               'DescriptionModificationReport': 'descr'}


def state_kind(st):
    if st.is_context_state:
        return 'ctx'
    if st.is_realtime_sample_array_metric_state:
        return 'rt'
    if st.is_metric_state:
        return 'metric'
    if st.is_alert_state:
        return 'alert'
    if st.is_operational_state:
        return 'operational'
    return 'component'


class ParsedReport:
    def __init__(self, body: bytes, reader):
        root = etree.fromstring(body)
        b = root.find(f'{{{S12}}}Body')
        self.rep = b[0] if b is not None and len(b) else None
        self.name = etree.QName(self.rep).localname if self.rep is not None else None
        self.version = None
        self.states = []  # (source_mds, container)
        self.descriptors = []  # (modification, source_mds, container)
        if self.rep is None or self.name not in REPORT_KIND and not self.name.startswith('Periodic'):
            return
        self.version = (int(self.rep.get('MdibVersion', '0')), self.rep.get('SequenceId'),
                        int(self.rep.get('InstanceId')) if self.rep.get('InstanceId') is not None else None)
        parts = self.rep.findall(f'{{{MSG}}}ReportPart')
        if self.name == 'WaveformStream':
            parts = [self.rep]
        for part in parts:
            src = part.find(f'{{{MSG}}}SourceMds')
            src = src.text if src is not None else None
            mod = part.get('ModificationType', 'Upt')
            for child in part:
                local = etree.QName(child).localname
                if local == 'Descriptor':
                    cls = reader.get_descriptor_container_class(_qname_of(child))
                    d = cls.from_node(child, part.get('ParentDescriptor'))
                    self.descriptors.append((mod, src, d))
                elif local in STATE_TAGS:
                    cls = reader.get_state_container_class(_qname_of(child))
                    self.states.append((src, cls.from_node(child), mod))


def _qname_of(node):
    t = node.get(XSI_TYPE)
    if t is None:  # msg:WaveformStream/msg:State has the fixed type pm:RealTimeSampleArrayMetricState
        return etree.QName(PM, 'RealTimeSampleArrayMetricState')
    prefix, local = t.split(':') if ':' in t else (None, t)
    return etree.QName(node.nsmap[prefix], local)


def diff_versions(before, after):
    """what a transaction changed: sets of handles per kind."""
    out = {'descr_created': set(), 'descr_deleted': set(), 'descr_updated': set(), 'states': set(), 'ctx': set()}
    for h in set(before['descr']) | set(after['descr']):
        if h not in before['descr']:
            out['descr_created'].add(h)
        elif h not in after['descr']:
            out['descr_deleted'].add(h)
        elif not tolerant_equal(before['descr'][h], after['descr'][h]):
            out['descr_updated'].add(h)
    for key in ('states', 'ctx'):
        for h in after[key]:
            if h not in before[key] or not tolerant_equal(before[key][h], after[key][h]):
                out[key].add(h)
    return out


def check_transaction(ctx, reports, before, after, detail, opk):
    """reports: ParsedReport list of ONE subscriber for ONE committed transaction."""
    v = after['version']
    changed = diff_versions(before, after)
    seen_states, seen_ctx, seen_descr = {}, {}, {'Crt': {}, 'Upt': {}, 'Del': {}}
    for r in reports:
        ctx.count(f'truth.report.{r.name}')
        if r.version != v:
            ctx.witness(f'truth.version_group.{r.name}', 'a report does not carry the MdibVersion / SequenceId / InstanceId of the commit',
                        {**detail, 'report': r.name, 'report_version': r.version, 'commit_version': v})
            continue
        for src, st, mod in r.states:
            is_ctx = st.is_context_state
            h = st.Handle if is_ctx else st.DescriptorHandle
            table = after['ctx'] if is_ctx else after['states']
            c = canon(st)
            if r.name != 'DescriptionModificationReport' and REPORT_KIND.get(r.name) != state_kind(st):
                ctx.witness(f'truth.wrong_report_kind.{r.name}', 'a state travels in a report of another kind', {**detail, 'handle': h})
            if mod == 'Del':
                continue
            want = table.get(h)
            if want is None:
                ctx.witness(f'truth.state_not_in_mdib.{r.name}.{opk}', 'a report contains a state that is not in the MDIB at that version',
                            {**detail, 'handle': h, 'report': r.name})
                continue
            if not tolerant_equal(c, want):
                ctx.witness(f'truth.state_content.{r.name}.{opk}', 'a reported state differs from the state the MDIB has at the reported MdibVersion',
                            {**detail, 'handle': h, 'report': r.name, 'diff': first_difference(want, c)})
            (seen_ctx if is_ctx else seen_states)[h] = c
            # source MDS grouping
            descr_handle = st.DescriptorHandle
            want_src = after['src'].get(descr_handle)
            if src is not None and want_src is not None and src != want_src:
                ctx.witness(f'truth.source_mds.{r.name}', 'a state is reported under the part of another MDS',
                            {**detail, 'handle': h, 'part_source_mds': src, 'descriptor_source_mds': want_src})
            ctx.count('truth.states_checked')
        for mod, src, d in r.descriptors:
            c = canon_descriptor(d)
            h = d.Handle
            want_src = (before if mod == 'Del' else after)['src'].get(h)
            ctx.count('truth.descriptor_source_mds_checked')
            if src is not None and want_src is not None and src != want_src:
                ctx.witness('truth.source_mds.descriptor', 'a descriptor is reported under the part of another MDS',
                            {**detail, 'handle': h, 'modification': mod, 'part_source_mds': src, 'descriptor_source_mds': want_src})
            if mod == 'Del':
                if h in after['descr']:
                    ctx.witness(f'truth.deleted_but_present.{opk}', 'a descriptor is reported as deleted but is in the MDIB at that version', {**detail, 'handle': h})
                seen_descr['Del'][h] = c
                continue
            want = after['descr'].get(h)
            if want is None:
                ctx.witness(f'truth.descriptor_not_in_mdib.{opk}', 'a report contains a descriptor that is not in the MDIB at that version', {**detail, 'handle': h})
                continue
            prev = seen_descr[mod].get(h)
            if prev is not None and not tolerant_equal(prev, c):
                ctx.witness(f'truth.descriptor_reported_twice.{opk}',
                            'one descriptor is reported twice with different content / version in the reports of one transaction',
                            {**detail, 'handle': h, 'diff': first_difference(prev, c)})
            elif not tolerant_equal(c, want):
                ctx.witness(f'truth.descriptor_content.{opk}', 'a reported descriptor differs from the descriptor the MDIB has at the reported MdibVersion',
                            {**detail, 'handle': h, 'modification': mod, 'diff': first_difference(want, c)})
            seen_descr[mod][h] = c
            ctx.count('truth.descriptors_checked')
    # a description modification part carries the changed states of its descriptor (all of them: a context descriptor has several)
    for r in reports:
        if r.name != 'DescriptionModificationReport' or r.version != v:
            continue
        by_descr = {}
        for src, st, mod in r.states:
            by_descr.setdefault(st.DescriptorHandle, set()).add(st.Handle if st.is_context_state else st.DescriptorHandle)
        for mod, src, d in r.descriptors:
            if mod == 'Del':
                continue
            want = {h for h in changed['states'] if h == d.Handle}
            want |= {h for h in changed['ctx'] if dict(after['ctx'][h][1]).get('DescriptorHandle') == d.Handle}
            got = by_descr.get(d.Handle, set())
            ctx.count('truth.description_parts_checked')
            if want - got:
                ctx.witness(f'truth.description_part_states_incomplete.{opk}',
                            'a DescriptionModificationReport part does not carry all changed states of its descriptor',
                            {**detail, 'descriptor': d.Handle, 'missing': sorted(want - got), 'in_part': sorted(got)})
    # completeness / exactness of the union
    for label, seen, want in (('states', set(seen_states), changed['states']), ('context_states', set(seen_ctx), changed['ctx']),
                              ('created', set(seen_descr['Crt']), changed['descr_created']),
                              ('deleted', set(seen_descr['Del']), changed['descr_deleted']),
                              ('updated', set(seen_descr['Upt']), changed['descr_updated'])):
        missing, extra = want - seen, seen - want
        if missing:
            ctx.witness(f'truth.missing.{label}.{opk}', f'the reports of a transaction do not contain all {label} it changed',
                        {**detail, 'missing': sorted(missing)[:5], 'reported': sorted(seen)[:8]})
        if extra:
            ctx.witness(f'truth.extra.{label}.{opk}', f'the reports of a transaction contain {label} the transaction did not change',
                        {**detail, 'extra': sorted(extra)[:5]})


def validate_wire(ctx, world, seen: set, label):
    from ..xsdoracle import oracle
    orc = oracle()
    for e in world.network.log:
        for which, data in (('request', e.body), ('response', e.response)):
            if not data or not data.lstrip().startswith(b'<'):
                continue
            hsh = core.h(data[:200] + data[-200:] + str(len(data)).encode())
            if hsh in seen:
                continue
            seen.add(hsh)
            try:
                root = etree.fromstring(data)
            except etree.XMLSyntaxError as ex:
                ctx.witness('schema.not_wellformed', 'a message on the wire is not well-formed XML', {**label, 'which': which, 'path': e.path, 'ex': str(ex)})
                continue
            if etree.QName(root).localname != 'Envelope':
                continue  # wsdl etc.
            errors = orc.validate(root, reparse=False)
            ctx.count('schema.messages_validated')
            body = root.find(f'{{{S12}}}Body')
            name = etree.QName(body[0]).localname if body is not None and len(body) else 'EmptyBody'
            ctx.count(f'schema.{name}')
            if b'IsReferenceParameter' in data:
                ctx.count('schema.messages_with_reference_parameters')
            if errors:
                ctx.witness(f'schema.invalid.{name}', 'a message on the wire does not validate against the bundled schemas',
                            {**label, 'which': which, 'path': e.path, 'errors': errors[:3], 'message_head': data[:600]})


def _scribble_all(ctx, tap, rng, nested):
    """the application modifies every state object it still holds from its last transaction(s); nothing of that is committed."""
    n = 0
    for st in tap.take():
        try:
            if scribble(st, rng, nested=nested):
                ctx.count('periodic.handout_scribbled')
                ctx.count(f'periodic.handout_scribbled.{state_kind(st)}')
                n += 1
        except Exception as ex:  # noqa: BLE001
            ctx.count(f'periodic.handout_scribble_error.{type(ex).__name__}')
    return n


STORE_LISTS = ('_periodic_metric_reports', '_periodic_alert_reports', '_periodic_component_state_reports',
               '_periodic_context_state_reports', '_periodic_operational_state_reports')


def _walk_store(ctx, handler, hist, detail, counter='periodic.store_states_checked'):
    """every (MdibVersion, states) entry retained for periodic reports must equal the content the MDIB had at that version."""
    for lst_name in STORE_LISTS:
        with handler._periodic_reports_lock:
            entries = list(getattr(handler, lst_name, []))
        for ps in entries:
            snap_v = hist.by_version.get(ps.mdib_version)
            for st in ps.states:
                ctx.count(counter)
                is_ctx = st.is_context_state
                h = st.Handle if is_ctx else st.DescriptorHandle
                want = (snap_v['ctx'] if is_ctx else snap_v['states']).get(h) if snap_v else None
                if want is None or not tolerant_equal(canon(st), want):
                    ctx.witness(f'periodic.store_changed.{lst_name.strip("_")}',
                                'a state copy retained for periodic reports no longer shows the values of the version it is labelled with',
                                {**detail, 'labelled_version': ps.mdib_version, 'handle': h,
                                 'diff': first_difference(want, canon(st)) if want else 'state not in MDIB at that version'})


def _refparam_managers(comps):
    """provider components: the subscription managers that identify a subscription by a reference parameter."""
    from sdc11073.provider.subscriptionmgr import ReferenceParamSubscriptionsManager
    from sdc11073.provider.subscriptionmgr_async import BICEPSSubscriptionsManagerBaseAsync, SubscriptionsManagerReferenceParamAsync
    is_async = any(issubclass(c, BICEPSSubscriptionsManagerBaseAsync) for c in comps.subscriptions_manager_class.values())
    cls = SubscriptionsManagerReferenceParamAsync if is_async else ReferenceParamSubscriptionsManager
    comps.subscriptions_manager_class = {k: cls for k in comps.subscriptions_manager_class}


def _add_refparam_consumer(world, not_subscribed_actions=None):
    """World.add_consumer with the consumer's reference-parameter subscription manager (the rest is the same)."""
    import uuid
    from sdc11073.consumer.consumerimpl import SdcConsumer
    from sdc11073.consumer.consumerimpl import default_components_factory
    from sdc11073.consumer.subscription import ClientSubscriptionManagerReferenceParams
    from sdc11073.definitions_sdc import SdcV1Definitions
    from ..mdibharness import _SyncDispatcher
    comps = default_components_factory()
    comps.soap_client_class = loopback.mk_soap_client_class(world.network)
    comps.action_dispatcher_class = _SyncDispatcher
    comps.subscription_manager_class = ClientSubscriptionManagerReferenceParams
    server = world.network.new_server()
    consumer = SdcConsumer(world.provider_address, SdcV1Definitions, ssl_context_container=None, validate=True, components=comps,
                           epr=uuid.UUID(int=0x5000 + len(world.consumers)))
    consumer.start_all(shared_http_server=server, not_subscribed_actions=not_subscribed_actions)
    consumer.vf_server = server
    world.consumers.append(consumer)
    return consumer


def _cross_mds_ops(mdib, rng):
    """directed transactions whose descriptors / states belong to different MDSs (empty for a single-MDS MDIB)."""
    cat = mdibops.catalog(mdib)

    def per_mds(handles):
        by = {}
        for h in handles:
            by.setdefault(mdib.descriptions.handle.get_one(h).source_mds, []).append(h)
        return [sorted(v)[0] for _, v in sorted(by.items(), key=lambda kv: str(kv[0]))][:3]
    chans = per_mds(cat['channel'])
    if len(chans) < 2:
        return []
    new = [f'xmds{i}' for i in range(len(chans))]
    ops = [{'op': 'descr_multi', 'sub': 'two_children', 'steps': [['create', n, c] for n, c in zip(new, chans)], 'iface': 'classic'},
           {'op': 'descr_update', 'handles': list(new), 'iface': 'classic'},
           {'op': 'descr_update', 'handles': list(reversed(chans)), 'iface': 'entity'},
           {'op': 'descr_multi', 'sub': 'delete_two_siblings', 'steps': [['delete', n] for n in reversed(new)], 'iface': 'classic'}]
    for kind in ('metric', 'alert', 'component'):
        handles = per_mds(cat[kind])
        if len(handles) >= 2:
            ops.append({'op': kind, 'handles': handles, 'iface': 'classic'})
            ops.append({'op': kind, 'handles': list(reversed(handles)), 'iface': 'entity'})
    for op in ops:
        op['seed'] = rng.randrange(1 << 30)
    return ops


def w_truth(ctx: core.Ctx, arg):
    rng = ctx.rng('truth', arg['i'])
    seen_msgs = set()
    for hno in range(arg['n']):
        mdib_file = MDIB_FILES[(arg['i'] + hno) % len(MDIB_FILES)]
        async_mgr = (arg['i'] + hno // 2) % 2 == 1
        # alternative classes of the anchored mechanism: subscriptions identified by reference parameters instead of a path element
        # (both roles: the notifications then carry the consumer's reference parameters in the SOAP header), other InstanceIds
        refparam = (arg['i'] + hno) % 3 == 2
        instance_id = (1, 7, None, 0)[(arg['i'] // 2 + hno) % 4]
        world = World(mdib_file, role_provider=False, async_mgr=async_mgr, periodic_reports_interval=3600, instance_id=instance_id,
                      components_hook=_refparam_managers if refparam else None)
        mdib = world.mdib
        hist = History(mdib)
        add = _add_refparam_consumer if refparam else (lambda w, **kw: w.add_consumer(with_mdib=False, **kw)[0])
        c1 = add(world)
        actions = mdib.sdc_definitions.Actions
        c2 = add(world, not_subscribed_actions=[actions.EpisodicAlertReport, actions.Waveform])
        ctx.count(f'truth.worlds.{"refparam" if refparam else "path"}.{"async" if async_mgr else "sync"}')
        subs = [('all', f'127.0.0.1:{c1.vf_server.server_port}', None),
                ('no_alert_no_waveform', f'127.0.0.1:{c2.vf_server.server_port}', {'EpisodicAlertReport', 'WaveformStream'})]
        reader = c1.msg_reader
        memo = {}
        weights = {k: v for k, v in mdibops.DEFAULT_WEIGHTS.items() if k not in ('reject',)}
        label = {'mdib_file': mdib_file, 'async_mgr': async_mgr, 'history': [arg['i'], hno], 'dispatch': 'refparam' if refparam else 'path',
                 'instance_id': instance_id}
        handler = world.provider._periodic_reports_handler
        tap = HandoutTap(mdib)
        srng = ctx.rng('truth-scribble', arg['i'], hno)  # own stream: the histories stay what they were
        shapes = []
        # directed tail (after the seeded part, which stays what it was): ONE transaction that touches several MDSs
        tail = _cross_mds_ops(mdib, ctx.rng('truth-cross-mds', arg['i'], hno))
        ctx.count('truth.cross_mds_ops', len(tail))
        for step in range(arg['len'] + len(tail)):
            op = mdibops.gen_op(rng, mdib, memo, weights) if step < arg['len'] else tail[step - arg['len']]
            before = hist.last
            n0 = len(world.network.log)
            ap = mdibops.apply_op(mdib, op, memo)
            after = hist.record()
            hist.problems.clear()
            shapes.append(mdibops.op_shape(ap))
            ctx.case(('tr', mdib_file, async_mgr) + mdibops.op_shape(ap), nontrivial=ap.outcome == 'ok')
            opk = op['op'] + ('.' + op['sub'] if op.get('sub') else '')
            detail = {**label, 'step': step, 'op': op, 'outcome': ap.outcome}
            entries = world.network.log[n0:]
            for sname, netloc, excluded in subs:
                reports = []
                for e in entries:
                    if e.netloc == netloc and e.body:
                        try:
                            pr = ParsedReport(e.body, reader)
                        except Exception as ex:  # noqa: BLE001
                            ctx.witness('truth.unparsable_report', 'a notification on the wire cannot be read back', {**detail, 'ex': repr(ex)[:300]})
                            continue
                        if pr.version is not None:
                            reports.append(pr)
                if after['version'] == before['version'] and not reports:
                    continue
                if after['version'][0] == before['version'][0] and reports:
                    ctx.witness(f'truth.report_without_commit.{opk}', 'reports were sent although MdibVersion did not change', detail)
                    continue
                ctx.count('truth.transactions')
                if excluded is None:
                    check_transaction(ctx, reports, before, after, {**detail, 'subscriber': sname}, opk)
                else:
                    bad = [r.name for r in reports if r.name in excluded]
                    if bad:
                        ctx.witness('truth.filter_ignored', 'a subscriber received a report kind it did not subscribe', {**detail, 'reports': bad})
            # the application re-uses the state objects it holds (handed out by / handed in to the transaction) as scratch data
            _scribble_all(ctx, tap, srng, nested=step % 2 == 0)
            # periodic store: every retained entry equals the published content of the version it is labelled with
            _walk_store(ctx, handler, hist, detail)
            if step % 10 == 9:
                _flush_periodic(ctx, world, hist, handler, subs[0][1], reader, label)
        validate_wire(ctx, world, seen_msgs, label)
        ctx.case(tuple(shapes) + (async_mgr,), nontrivial=any(s[5] == 'ok' for s in shapes))
        if hno == 0 and arg['i'] == 0:
            ctx.sample({**label, 'ops': [s[0] for s in shapes][:12], 'wire_messages': len(world.network.log)})
        # shutdown: SubscriptionEnd messages must validate as well
        n0 = len(world.network.log)
        for c in world.consumers:
            c._subscription_mgr.stop() if getattr(c, '_subscription_mgr', None) else None
        try:
            world.provider.stop_all(send_subscription_end=True)
        except Exception as ex:  # noqa: BLE001
            ctx.count('shutdown.exception')
        validate_wire(ctx, world, seen_msgs, {**label, 'phase': 'shutdown'})
        ctx.count('shutdown.messages', len(world.network.log) - n0)


def _poison_and_repair(ctx, world, hist, rng):
    """the application commits a value that cannot be serialised into schema-valid XML (xsd:decimal has no NaN): the library must not
    put the invalid report on the wire for ANY subscriber (validate_wire judges every message); the state is repaired right after."""
    from decimal import Decimal
    mdib = world.mdib
    numeric = [h for h in mdibops.catalog(mdib)['metric']
               if mdib.states.descriptor_handle.get_one(h, allow_none=True) is not None
               and type(mdib.states.descriptor_handle.get_one(h)).__name__ == 'NumericMetricStateContainer']
    if not numeric:
        return
    h = rng.choice(numeric)
    try:
        with mdib.metric_state_transaction() as mgr:
            st = mgr.get_state(h)
            if st.MetricValue is None:
                st.mk_metric_value()
            st.MetricValue.Value = Decimal('NaN')
        ctx.count('schema.poison.accepted_without_error')
    except Exception as ex:  # noqa: BLE001
        ctx.count(f'schema.poison.raised.{type(ex).__name__}')
    hist.record()
    hist.problems.clear()
    try:
        with mdib.metric_state_transaction() as mgr:
            st = mgr.get_state(h)
            st.MetricValue.Value = Decimal(rng.randrange(0, 100))
    except Exception as ex:  # noqa: BLE001
        ctx.count(f'schema.poison.repair_raised.{type(ex).__name__}')
    hist.record()
    hist.problems.clear()


def _flush_periodic(ctx, world, hist, handler, netloc, reader, label):
    """what the periodic send loop does when its timer fires, then check the periodic reports on the wire."""
    ses = world.provider.hosted_services.state_event_service
    cs = world.provider.hosted_services.context_service
    n0 = len(world.network.log)
    for lst_name, send in (('_periodic_metric_reports', ses.send_periodic_metric_report), ('_periodic_alert_reports', ses.send_periodic_alert_report),
                           ('_periodic_component_state_reports', ses.send_periodic_component_state_report),
                           ('_periodic_context_state_reports', cs.send_periodic_context_report),
                           ('_periodic_operational_state_reports', ses.send_periodic_operational_state_report)):
        lst = getattr(handler, lst_name)
        with handler._periodic_reports_lock:
            tmp = lst[:]
            del lst[:]
        if tmp:
            send(tmp, world.mdib.mdib_version_group)
    _check_periodic_wire(ctx, world.network.log[n0:], netloc, reader, hist, label)


def _src_while_published(hist, is_ctx, handle, state_version, descr_handle) -> set:
    out = set()
    for snap_v in hist.by_version.values():
        c = (snap_v['ctx'] if is_ctx else snap_v['states']).get(handle)
        if c is not None and versions_of(c)[1] == state_version:
            src = snap_v['src'].get(descr_handle)
            if src is not None:
                out.add(src)
    return out


def _check_periodic_wire(ctx, entries, netloc, reader, hist, label, counter='periodic.wire_states_checked'):
    """Periodic*Report messages delivered to one subscriber: every state equals what was published under its StateVersion and travels
    in the part of the MDS it belongs to."""
    for e in entries:
        if e.netloc != netloc or not e.body:
            continue
        root = etree.fromstring(e.body)
        b = root.find(f'{{{S12}}}Body')
        if b is None or not len(b):
            continue
        rep = b[0]
        name = etree.QName(rep).localname
        if not name.startswith('Periodic'):
            continue
        ctx.count(f'periodic.wire.{name}')
        for part in rep.findall(f'{{{MSG}}}ReportPart'):
            src = part.find(f'{{{MSG}}}SourceMds')
            src = src.text if src is not None else None
            for child in part:
                if etree.QName(child).localname in STATE_TAGS:
                    st = reader.get_state_container_class(_qname_of(child)).from_node(child)
                    is_ctx = st.is_context_state
                    h = st.Handle if is_ctx else st.DescriptorHandle
                    pub = hist.published.get(('ctx' if is_ctx else 'state', h, st.StateVersion))
                    ctx.count(counter)
                    if pub is None or not tolerant_equal(pub, canon(st)):
                        ctx.witness('periodic.wire_state_content',
                                    'a periodic report carries a state that differs from what was published under that StateVersion',
                                    {**label, 'handle': h, 'state_version': st.StateVersion,
                                     'diff': first_difference(pub, canon(st)) if pub else 'never published'})
                    # the MDS the descriptor belonged to while the MDIB held this StateVersion (a handle can be deleted and created
                    # again under another MDS: the retained copy then rightly travels under the MDS of ITS version)
                    want_src = _src_while_published(hist, is_ctx, h, st.StateVersion, st.DescriptorHandle)
                    ctx.count('periodic.wire_source_mds_checked')
                    if src is not None and want_src and src not in want_src:
                        ctx.witness(f'periodic.wire_source_mds.{name}', 'a periodic report carries a state in the part of another MDS',
                                    {**label, 'handle': h, 'state_version': st.StateVersion, 'part_source_mds': src,
                                     'descriptor_source_mds': sorted(want_src)})


# ------------------------------------------------------------------------------------------------
def _mix_async(ctx, i) -> bool:
    """sample MDIB = i mod 4; the manager flavour alternates per job, per block of four jobs and per seed so that every MDIB meets both."""
    return (i + i // len(MDIB_FILES) + ctx.seed) % 2 == 1


def _versions_per_subscriber(world, netlocs, start=0):
    seq = {n: [] for n in netlocs}
    for e in world.network.log[start:]:
        if e.netloc in seq and e.body:
            i = e.body.find(b'MdibVersion="')
            if i < 0:
                continue
            j = e.body.find(b'"', i + 13)
            name_ok = any(k in e.body[:3000] for k in (b'Episodic', b'WaveformStream', b'DescriptionModificationReport'))
            if name_ok:
                seq[e.netloc].append(int(e.body[i + 13:j]))
    return seq


def w_order_stress(ctx: core.Ctx, arg):
    mdib_file = MDIB_FILES[arg['i'] % len(MDIB_FILES)]
    world = World(mdib_file, role_provider=False, async_mgr=_mix_async(ctx, arg['i']))
    mdib = world.mdib
    consumers = [world.add_consumer(with_mdib=False)[0] for _ in range(2)]
    netlocs = [f'127.0.0.1:{c.vf_server.server_port}' for c in consumers]
    delay_rng = ctx.rng('order-delay', arg['i'])
    # async SOAP client: the transfer of a notification really suspends (slow link); a sender that does not wait for it is overtaken
    world.network.async_delay = lambda netloc, path, data: (delay_rng.choice([0, 0, 0.002, 0.004]) if netloc in netlocs else 0)
    old = sys.getswitchinterval()
    sys.setswitchinterval(1e-5)
    errors = []

    def writer(wi):
        r = ctx.rng('order-writer', arg['i'], wi)
        memo = {}
        weights = {k: v for k, v in mdibops.DEFAULT_WEIGHTS.items() if k in ('metric', 'alert', 'component', 'context', 'descr_update', 'operational', 'rt')}
        for n in range(arg['ops']):
            try:
                with mdib.mdib_lock:
                    op = mdibops.gen_op(r, mdib, memo, weights)
                if op['op'] == 'context':
                    op['new_handle'] = f'w{wi}_{op["new_handle"]}'
                mdibops.apply_op(mdib, op, memo)
            except Exception as ex:  # noqa: BLE001
                errors.append(repr(ex))
    threads = [threading.Thread(target=writer, args=(k,), daemon=True) for k in range(arg['writers'])]
    for t in threads:
        t.start()
    for t in threads:
        t.join(600)
    sys.setswitchinterval(old)
    if any(t.is_alive() for t in threads):
        ctx.not_decided('order stress: writer threads did not finish')
    for netloc, seq in _versions_per_subscriber(world, netlocs).items():
        ctx.count('order.notifications', len(seq))
        inversions = [(i, a, b) for i, (a, b) in enumerate(zip(seq, seq[1:])) if b < a]
        if inversions:
            ctx.witness('order.decreasing_mdib_version', 'a subscriber received reports with decreasing MdibVersion',
                        {'mdib_file': mdib_file, 'writers': arg['writers'], 'first': inversions[:3], 'around': seq[max(0, inversions[0][0] - 3):inversions[0][0] + 4]})
        ctx.count('order.distinct_versions', len(set(seq)))
    ctx.case(('order-stress', arg['i'], arg['writers']))
    ctx.count('order.writer_errors', len(errors))
    world.stop()


def w_order_realsocket(ctx: core.Ctx, arg):
    """writer threads against a provider with NOTHING replaced (real HTTP servers / clients on 127.0.0.1, default async or sync components,
    consumers with the default deferred dispatcher); the order of arrival is taken at the consumer's notification dispatcher entry
    (on_post, called by the consumer's HTTP server thread in the order the requests arrive), per consumer; at the end every consumer MDIB
    (fed by the dispatcher's worker thread) must be at the provider's version: a report the consumer refused would show as a gap."""
    from ..realworld import RealWorld
    mdib_file = MDIB_FILES[arg['i'] % len(MDIB_FILES)]
    async_mgr = arg['i'] % 2 == 0
    try:
        world = RealWorld(mdib_file, async_mgr=async_mgr, chunk_size=[0, 256][(arg['i'] // 2) % 2])
    except Exception as ex:  # noqa: BLE001
        ctx.not_decided(f'real-socket world could not be set up: {ex!r}')
        return
    arrivals = {}
    lock = threading.Lock()
    try:
        mdib = world.mdib
        consumers = []
        for ci in range(2):
            cons, cm = world.add_consumer(with_mdib=ci == 0)
            consumers.append((cons, cm))
            disp = cons._services_dispatcher  # noqa: SLF001
            orig = disp.on_post

            def on_post(request_data, _orig=orig, _ci=ci):
                try:
                    md = request_data.message_data
                    name = md.q_name.localname if md.q_name is not None else ''
                    if md.mdib_version_group is not None and (name.startswith('Episodic') or name in ('WaveformStream', 'DescriptionModificationReport')):
                        with lock:
                            arrivals.setdefault(_ci, []).append((md.mdib_version_group.mdib_version, name))
                except Exception:  # noqa: BLE001
                    pass
                return _orig(request_data)
            disp.on_post = on_post
        old = sys.getswitchinterval()
        sys.setswitchinterval(1e-5)
        errors = []

        def writer(wi):
            r = ctx.rng('order-real-writer', arg['i'], wi)
            memo = {}
            weights = {k: v for k, v in mdibops.DEFAULT_WEIGHTS.items() if k in ('metric', 'alert', 'component', 'context', 'descr_update', 'operational', 'rt')}
            for n in range(arg['ops']):
                try:
                    with mdib.mdib_lock:
                        op = mdibops.gen_op(r, mdib, memo, weights)
                    if op['op'] == 'context':
                        op['new_handle'] = f'w{wi}_{op["new_handle"]}'
                    mdibops.apply_op(mdib, op, memo)
                except Exception as ex:  # noqa: BLE001
                    errors.append(repr(ex))
        threads = [threading.Thread(target=writer, args=(k,), daemon=True) for k in range(arg['writers'])]
        for t in threads:
            t.start()
        for t in threads:
            t.join(900)
        sys.setswitchinterval(old)
        if any(t.is_alive() for t in threads):
            ctx.not_decided('real-socket order stress: writer threads did not finish')
            return
        for cons, cm in consumers:
            if not world.barrier(cons):
                ctx.not_decided('real-socket order stress: dispatcher barrier not reached')
                return
        for ci, seq in arrivals.items():
            versions = [v for v, _ in seq]
            ctx.count('order.real.notifications', len(versions))
            inv = [(i, a, b) for i, (a, b) in enumerate(zip(versions, versions[1:])) if b < a]
            if inv:
                ctx.witness('order.decreasing_mdib_version', 'a subscriber received reports with decreasing MdibVersion (real sockets)',
                            {'mdib_file': mdib_file, 'writers': arg['writers'], 'async_mgr': async_mgr, 'first': inv[:3],
                             'around': seq[max(0, inv[0][0] - 3):inv[0][0] + 4]})
        cm = consumers[0][1]
        ctx.count('order.real.final_mirror_checked')
        if cm.mdib_version != mdib.mdib_version:
            ctx.witness('order.real.consumer_not_at_provider_version', 'after all reports were delivered in order the consumer MDIB is not at the provider MdibVersion',
                        {'consumer': cm.mdib_version, 'provider': mdib.mdib_version, 'async_mgr': async_mgr, 'mdib_file': mdib_file})
        else:
            from ..history import snap, snap_equal
            diffs = snap_equal(snap(mdib), snap(cm))
            if diffs:
                ctx.witness('order.real.consumer_differs', 'after concurrent writers the consumer MDIB differs from the provider MDIB at the same version',
                            {'diff': diffs[:4], 'async_mgr': async_mgr, 'mdib_file': mdib_file})
        ctx.case(('order-real', arg['i'], arg['writers'], async_mgr))
        ctx.count('order.real.writer_errors', len(errors))
    finally:
        world.stop()


def w_order_explore(ctx: core.Ctx, arg):
    """the writer is observed: at every point where it holds neither the transaction lock nor the MDIB lock a foreign transaction runs."""
    rng = ctx.rng('order-explore', arg['i'])
    mdib_file = MDIB_FILES[arg['i'] % len(MDIB_FILES)]
    world = World(mdib_file, role_provider=False, async_mgr=_mix_async(ctx, arg['i']))
    mdib = world.mdib
    consumer, _ = world.add_consumer(with_mdib=False)
    netloc = f'127.0.0.1:{consumer.vf_server.server_port}'
    delay_rng = ctx.rng('explore-delay', arg['i'])
    world.network.async_delay = lambda nl, path, data: (delay_rng.choice([0, 0.002, 0.004]) if nl == netloc else 0)
    inst = Instrumented(mdib)
    tr_proxy = LockProxy(mdib._tr_lock, 'tr', inst)
    mdib._tr_lock = tr_proxy
    inst.locks['tr'] = tr_proxy
    memo = {}
    kinds = ['metric', 'alert', 'component', 'operational', 'context', 'rt', 'descr_update']
    for a in kinds:
        for b in kinds:
            opa = mdibops.gen_op(rng, mdib, memo, {a: 1})
            points = []
            inst.set_hook(lambda ev, name: points.append((ev, name)) if not tr_proxy.held() else None)
            mdibops.apply_op(mdib, opa, memo)
            inst.clear_hook()
            for pi in range(len(points)):
                opa = mdibops.gen_op(rng, mdib, memo, {a: 1})
                seen = {'i': -1}

                def hook(ev, name, _pi=pi, _seen=seen):
                    if tr_proxy.held():
                        return
                    _seen['i'] += 1
                    if _seen['i'] == _pi:
                        for _ in range(arg['k']):
                            opb = mdibops.gen_op(rng, mdib, memo, {b: 1})
                            if opb.get('new_handle'):
                                opb['new_handle'] = 'f_' + opb['new_handle']
                            mdibops.apply_op(mdib, opb, memo)
                n0 = len(world.network.log)
                inst.set_hook(hook)
                mdibops.apply_op(mdib, opa, memo)
                inst.clear_hook()
                ctx.count('order.explore_runs')
                ctx.case(('order-explore', a, b, pi, arg['k']))
                seq = []
                for e in world.network.log[n0:]:
                    if e.netloc == netloc and e.body and b'MdibVersion="' in e.body:
                        i = e.body.find(b'MdibVersion="')
                        seq.append(int(e.body[i + 13:e.body.find(b'"', i + 13)]))
                if any(y < x for x, y in zip(seq, seq[1:])):
                    ctx.witness('order.overtaken', 'a report of a later commit was delivered before a report of an earlier commit',
                                {'writer_op': a, 'foreign_op': b, 'point': list(points[pi]), 'versions_in_delivery_order': seq, 'mdib_file': mdib_file})
            ctx.count('order.explore_points', len(points))
    world.stop()


def w_poison(ctx: core.Ctx, arg):
    """values that cannot be written as schema-valid XML: nothing invalid may reach ANY subscriber (a notification failure may end the
    subscription - that is why this runs in worlds of its own)."""
    rng = ctx.rng('poison', arg['i'])
    seen = set()
    for rep in range(arg['n']):
        mdib_file = MDIB_FILES[(arg['i'] + rep) % len(MDIB_FILES)]
        async_mgr = rep % 2 == 0
        world = World(mdib_file, role_provider=False, async_mgr=async_mgr)
        hist = History(world.mdib)
        for _ in range(rng.randrange(2, 5)):
            world.add_consumer(with_mdib=False)
        memo = {}
        for _ in range(5):
            mdibops.apply_op(world.mdib, mdibops.gen_op(rng, world.mdib, memo, {'metric': 1, 'alert': 1}), memo)
        _poison_and_repair(ctx, world, hist, rng)
        for _ in range(3):
            mdibops.apply_op(world.mdib, mdibops.gen_op(rng, world.mdib, memo, {'metric': 1, 'alert': 1}), memo)
        validate_wire(ctx, world, seen, {'mdib_file': mdib_file, 'async_mgr': async_mgr, 'scenario': 'NaN metric value committed'})
        ctx.case(('poison', mdib_file, async_mgr, len(world.consumers)))
        ctx.count('schema.poison.worlds')
        world.stop()


def w_periodic_retrievability(ctx: core.Ctx, arg):
    """the retrievability-driven periodic loop, run synchronously with a stub timer; foreign transactions at every point where the
    loop thread holds neither lock; the PeriodicStates handed to the send functions must show the values of the version they are labelled with."""
    import collections
    import contextlib
    import io
    from sdc11073.provider import periodicreports
    rng = ctx.rng('periodic', arg['i'])
    mdib_file = MDIB_FILES[arg['i'] % len(MDIB_FILES)]
    world = World(mdib_file, role_provider=False)
    mdib = world.mdib
    consumer, _ = world.add_consumer(with_mdib=False)
    cat = mdibops.catalog(mdib)
    for h in cat['context'][:2]:
        mdibops.apply_op(mdib, {'op': 'context', 'sub': 'new_assoc', 'descr': h, 'new_handle': f'p_{h}', 'seed': 5, 'iface': 'classic'})
    handles = cat['metric'][:3] + cat['alert'][:2] + cat['component'][:2] + cat['operational'][:1] + cat['context'][:2]
    mdib.retrievability_periodic = collections.defaultdict(list, {1000: list(handles)})
    hist = LiveHistory(mdib)
    inst = Instrumented(mdib)
    handler = periodicreports.PeriodicReportsHandler(mdib, world.provider.hosted_services, None)
    captured = []
    ses = world.provider.hosted_services.state_event_service
    cs = world.provider.hosted_services.context_service
    originals = {}
    for obj, names in ((ses, ['send_periodic_metric_report', 'send_periodic_alert_report', 'send_periodic_component_state_report',
                              'send_periodic_operational_state_report']), (cs, ['send_periodic_context_report'])):
        for name in names:
            orig = getattr(obj, name)
            originals[(obj, name)] = orig

            def wrapper(periodic_states_list, mdib_version_group, _orig=orig, _name=name):
                for ps in periodic_states_list:
                    captured.append((_name, ps.mdib_version, [(st, canon(st)) for st in ps.states]))
                return _orig(periodic_states_list, mdib_version_group)
            setattr(obj, name, wrapper)
    rounds = {'n': 0}

    class StubTimer:
        def __init__(self, period_in_seconds):
            pass

        def remaining_time(self):
            return 0.0

        def wait_next_interval_begin(self):
            rounds['n'] += 1
            if rounds['n'] > arg['rounds']:
                handler._run_periodic_reports_thread = False
            return 0.0
    real_timer = periodicreports.intervaltimer.IntervalTimer
    periodicreports.intervaltimer.IntervalTimer = StubTimer
    memo = {}
    weights = {'metric': 3, 'alert': 2, 'component': 2, 'operational': 1, 'context': 3}
    points_seen = collections.Counter()

    def hook(ev, name):
        points_seen[(ev, name)] += 1
        if rng.random() < 0.7:
            for _ in range(rng.randrange(1, 3)):
                op = mdibops.gen_op(rng, mdib, memo, weights)
                # aim at the handles the loop reports
                if op.get('handles'):
                    pool = [h for h in handles if h in cat.get(op['op'], [])]
                    if pool:
                        op['handles'] = [rng.choice(pool)]
                mdibops.apply_op(mdib, op, memo)
                ctx.count('periodic.loop.injected_transactions')
    try:
        handler._run_periodic_reports_thread = True
        inst.set_hook(hook)
        with contextlib.redirect_stdout(io.StringIO()):
            handler._periodic_reports_send_loop()
    finally:
        inst.clear_hook()
        periodicreports.intervaltimer.IntervalTimer = real_timer
        for (obj, name), orig in originals.items():
            setattr(obj, name, orig)
    ctx.count('periodic.loop.rounds', rounds['n'])
    ctx.extra.setdefault('periodic_loop_points', sorted({f'{e}:{n}' for e, n in points_seen}))
    for name, label, states in captured:
        snap_v = hist.by_version.get(label)
        for st, c in states:
            ctx.count('periodic.loop.states_checked')
            is_ctx = st.is_context_state
            h = st.Handle if is_ctx else st.DescriptorHandle
            want = (snap_v['ctx'] if is_ctx else snap_v['states']).get(h) if snap_v else None
            if want is None or not tolerant_equal(c, want):
                ctx.witness('periodic.loop_label_mismatch', 'state copies collected by the periodic loop do not show the values of the MdibVersion they are labelled with',
                            {'mdib_file': mdib_file, 'send': name, 'labelled_version': label, 'handle': h,
                             'diff': first_difference(want, c) if want else 'not in MDIB at that version'})
                break
    ctx.case(('periodic-loop', mdib_file, arg['rounds']))
    ctx.case(('periodic-loop', arg['i'], len(captured) > 0))
    world.stop()


def w_periodic_simple(ctx: core.Ctx, arg):
    """the REAL fixed-interval loop (PeriodicReportsHandler._simple_periodic_reports_send_loop, what start_all(periodic_reports_interval=..)
    runs in a thread) executed synchronously with a stub timer.  While the loop 'waits for the next interval' the application commits
    states of every kind through both interfaces, then goes on using ITS state objects as scratch data (never committed), and commits
    the same states again.  After every step the store is walked; what the loop then puts on the wire is compared with the content that
    was published under the StateVersion each state carries."""
    import contextlib
    import io
    from sdc11073.provider import periodicreports
    rng = ctx.rng('periodic-simple', arg['i'])
    mdib_file = MDIB_FILES[arg['i'] % len(MDIB_FILES)]
    async_mgr = (arg['i'] + arg['i'] // len(MDIB_FILES)) % 2 == 1
    world = World(mdib_file, role_provider=False, async_mgr=async_mgr)
    mdib = world.mdib
    handler = periodicreports.PeriodicReportsHandler(mdib, world.provider.hosted_services, 1)
    world.provider._periodic_reports_handler = handler  # as start_all(periodic_reports_interval=1) does - without starting the thread
    consumer, _ = world.add_consumer(with_mdib=False)
    netloc = f'127.0.0.1:{consumer.vf_server.server_port}'
    reader = consumer.msg_reader
    hist = History(mdib)
    tap = HandoutTap(mdib)
    memo = {}
    label = {'mdib_file': mdib_file, 'async_mgr': async_mgr, 'workload': 'simple periodic loop'}
    kinds = ['metric', 'alert', 'component', 'operational', 'context', 'descr_with_state', 'descr_update']
    rounds = {'n': 0, 'log0': len(world.network.log)}

    def commit(op, detail):
        mdibops.apply_op(mdib, op, memo)
        hist.record()
        hist.problems.clear()
        ctx.count('periodic.simple.commits')
        _walk_store(ctx, handler, hist, detail, counter='periodic.simple.store_states_checked')

    def application_activity(rno):
        for k in range(arg['ops']):
            kind = kinds[(rno + k) % len(kinds)]
            op = mdibops.gen_op(rng, mdib, memo, {kind: 1})
            if kind in mdibops.STATE_OPS or kind == 'context':
                op['iface'] = ['classic', 'entity'][(rno // len(kinds) + k) % 2]
            detail = {**label, 'round': rno, 'op': op}
            commit(op, detail)
            n = _scribble_all(ctx, tap, rng, nested=(rno + k) % 2 == 0)
            ctx.case(('periodic-simple', kind, op.get('iface'), op.get('sub'), n > 0, async_mgr))
            _walk_store(ctx, handler, hist, {**detail, 'after': 'the application modified its own state objects'},
                        counter='periodic.simple.store_states_checked')
            if k % 2 == 1 and op['op'] in mdibops.STATE_OPS:
                # a later commit changes the same states again before the period elapses
                commit(dict(op, seed=op.get('seed', 0) + 1), {**detail, 'after': 'second commit on the same states'})
                _scribble_all(ctx, tap, rng, nested=True)

    class StubTimer:
        def __init__(self, period_in_seconds):
            pass

        def remaining_time(self):
            return 0.0

        def wait_next_interval_begin(self):
            # what the previous round put on the wire
            _check_periodic_wire(ctx, world.network.log[rounds['log0']:], netloc, reader, hist, label, counter='periodic.simple.wire_states_checked')
            rounds['log0'] = len(world.network.log)
            rounds['n'] += 1
            if rounds['n'] > arg['rounds']:
                handler._run_periodic_reports_thread = False
                return 0.0
            application_activity(rounds['n'])
            return 0.0
    real_timer = periodicreports.intervaltimer.IntervalTimer
    periodicreports.intervaltimer.IntervalTimer = StubTimer
    try:
        handler._run_periodic_reports_thread = True
        with contextlib.redirect_stdout(io.StringIO()):
            handler._simple_periodic_reports_send_loop()
    finally:
        periodicreports.intervaltimer.IntervalTimer = real_timer
    _check_periodic_wire(ctx, world.network.log[rounds['log0']:], netloc, reader, hist, label, counter='periodic.simple.wire_states_checked')
    ctx.count('periodic.simple.rounds', rounds['n'] - 1)
    validate_wire(ctx, world, set(), label)


# faults of ONE peer while it is served a notification.  'handled' = the subscription managers treat it as a problem of that connection.
PEER_FAULTS = {
    'garbage_answer': lambda: loopback.Respond(200, 'OK', b'OK', name='garbage_answer'),  # non-XML body: XMLSyntaxError in the SOAP client
    'html_answer': lambda: loopback.Respond(200, 'OK', b'<html><body>hello</body></html>', name='html_answer'),
    'http500_empty': lambda: loopback.Respond(500, 'Internal Server Error', b'', name='http500_empty'),
    'http404_text': lambda: loopback.Respond(404, 'Not Found', b'no such path', name='http404_text'),
    'refused': lambda: loopback.Raise(ConnectionRefusedError('injected'), name='refused'),
    'reset': lambda: loopback.Raise(ConnectionResetError('injected'), name='reset'),
    'timeout': lambda: loopback.Raise(TimeoutError('injected'), name='timeout'),
    'oserror': lambda: loopback.Raise(OSError('injected: no route to host'), name='oserror'),
    'runtime_error': lambda: loopback.Raise(RuntimeError('injected'), name='runtime_error'),
}


def w_order_faulty_peer(ctx: core.Ctx, arg):
    """one subscriber misbehaves while the same report is still on its way to other (slow) subscribers, and further commits follow
    (same thread, or a second writer that already waits at the transaction lock).  Whatever the fault of the OTHER peer is, the
    bystanders must see non-decreasing MdibVersions.  (Whether a commit raises, and whether a bystander that comes later in the list of
    the synchronous manager still gets that report, is not judged here - only counted.)"""
    rng = ctx.rng('order-fault', arg['i'])
    mdib_file = MDIB_FILES[arg['i'] % len(MDIB_FILES)]
    async_mgr = arg['async']
    faults = sorted(PEER_FAULTS)
    rng.shuffle(faults)
    faults = faults[:arg['cases']]
    world = World(mdib_file, role_provider=False, async_mgr=async_mgr)
    mdib = world.mdib
    # subscription order: early bystander, the peers that will fail (a failing subscription is ended: one peer per case), late bystander
    consumers = [world.add_consumer(with_mdib=False)[0] for _ in range(len(faults) + 2)]
    netlocs = [f'127.0.0.1:{c.vf_server.server_port}' for c in consumers]
    bystanders = {netlocs[0]: 'early', netlocs[-1]: 'late'}
    armed = {'fault': None, 'fault_netloc': None, 'slow': set(), 'delay': arg['delay']}

    def policy(entry):
        if armed['fault'] is not None and entry.netloc == armed['fault_netloc'] and entry.method == 'POST':
            fault, armed['fault'] = armed['fault'], None
            ctx.count(f'order.fault.injected.{fault}')
            return PEER_FAULTS[fault]()
        return None

    def delay(netloc, path, data):
        if netloc in armed['slow']:
            armed['slow'].discard(netloc)
            ctx.count('order.fault.slow_deliveries')
            return armed['delay']
        return 0
    world.network.policy = policy
    world.network.async_delay = delay
    memo = {}
    kinds = ['metric', 'alert', 'component', 'context', 'operational', 'rt', 'descr_update']
    # how slow 'slow' is: long enough for a few more commits on THIS machine under ITS present load (the verdict never depends on it: on
    # a correct tree the commit simply waits that long; it only keeps the detection power when the machine is busy)
    slowest = 0.0
    for kind in kinds[:4]:
        t0 = time.perf_counter()
        mdibops.apply_op(mdib, mdibops.gen_op(rng, mdib, memo, {kind: 1}), memo)
        slowest = max(slowest, time.perf_counter() - t0)
    slow_delay = min(3.0, max(arg['delay'], 12 * slowest))
    ctx.extra['order_fault_slow_delay_ms'] = [int(slow_delay * 1000)]
    armed['delay'] = slow_delay
    for cno, fault in enumerate(faults):
        kind = kinds[(cno + arg['i']) % len(kinds)]
        later_kinds = [kinds[(cno + arg['i'] + 1 + j) % len(kinds)] for j in range(2)]
        threaded = (cno + arg['i']) % 2 == 1
        n0 = len(world.network.log)
        v0 = mdib.mdib_version
        first_op = mdibops.gen_op(rng, mdib, memo, {kind: 1})
        outcomes = []
        second = None
        old_pre = mdib.pre_commit_handler
        if threaded:
            # the second writer is released while the first is inside its commit: it waits at the transaction lock
            go = threading.Event()

            def pre_commit(m, tr, _go=go, _old=old_pre):
                _go.set()
                if callable(_old):
                    _old(m, tr)

            def second_writer(_go=go, _cno=cno, _kind=later_kinds[0]):
                _go.wait(120)
                with mdib.mdib_lock:
                    op2 = mdibops.gen_op(ctx.rng('order-fault-2nd', arg['i'], _cno), mdib, {'n': 10 ** 6 + _cno, '_prelude': []}, {_kind: 1})
                outcomes.append(mdibops.apply_op(mdib, op2, None).outcome)
            mdib.pre_commit_handler = pre_commit
            second = threading.Thread(target=second_writer, daemon=True)
            second.start()
        armed.update(fault=fault, fault_netloc=netlocs[1 + cno], slow=set(bystanders) if async_mgr else set())
        outcomes.append(mdibops.apply_op(mdib, first_op, memo).outcome)
        if threaded:
            second.join(300)
            mdib.pre_commit_handler = old_pre
            if second.is_alive():
                ctx.not_decided('order fault case: second writer did not finish')
                break
        for j in range(1 if threaded else 0, 2):
            op = mdibops.gen_op(rng, mdib, memo, {later_kinds[j]: 1})
            outcomes.append(mdibops.apply_op(mdib, op, memo).outcome)
        fault_fired = armed['fault'] is None
        slow_used = async_mgr and not armed['slow']
        armed.update(fault=None, slow=set())
        committed = list(range(v0 + 1, mdib.mdib_version + 1))
        # a delivery that was still in flight when its commit ended arrives late: give it the chance to arrive before the order is read
        # (bounded polling, nothing to wait for on a correct tree; if it never arrives the order that was seen is judged)
        if slow_used and committed:
            for _ in range(1000):
                per = _versions_per_subscriber(world, list(bystanders), start=n0)
                if all(committed[0] in seq for seq in per.values()):
                    break
                time.sleep(0.01)
            else:
                ctx.count('order.fault.slow_delivery_not_seen')
        per = _versions_per_subscriber(world, list(bystanders), start=n0)
        ctx.count('order.fault.cases')
        if fault_fired:
            ctx.count('order.fault.cases_with_fault')
        ctx.count(f'order.fault.commit_outcome.{"raised" if any(o != "ok" for o in outcomes) else "ok"}')
        ctx.case(('order-fault', fault, kind, async_mgr, threaded))
        for netloc, seq in per.items():
            ctx.count('order.fault.bystander_notifications', len(seq))
            if any(y < x for x, y in zip(seq, seq[1:])):
                ctx.witness(f'order.fault_of_other_peer.{"async" if async_mgr else "sync"}',
                            'a subscriber received reports with decreasing MdibVersion: a report was still on its way to it when its commit ended (ANOTHER subscriber failed meanwhile) and the reports of later commits overtook it',
                            {'mdib_file': mdib_file, 'fault_of_other_peer': fault, 'first_commit': kind, 'second_writer_thread': threaded,
                             'bystander': bystanders[netloc], 'versions_in_arrival_order': seq, 'committed': committed, 'commit_outcomes': outcomes})
            lost = [v for v in committed if v not in seq]
            if lost and fault_fired:
                ctx.count(f'order.fault.bystander_lost_report.{"async" if async_mgr else "sync"}.{bystanders[netloc]}.{fault}')
    # no world.stop(): stopping a dozen consumers only waits for their housekeeping threads; the job's process ends here


def run(ctx: core.Ctx):
    ctx.rule = ('truth: seeded histories x {sync, async manager} x 4 sample MDIBs, 2 subscribers with different filters, every committed transaction '
                'compared with the snapshot diff; schema: every distinct message on the wire validated; order: writer-observed lock-granularity '
                'exploration {7 kinds}^2 x points x k foreign transactions + writer thread stress; periodic store walked after every commit. '
                'truth worlds also vary the dispatch flavour (path / reference parameter managers in both roles) and the InstanceId; after every '
                'commit the application scribbles on the state objects it holds (handed out by / handed in to the transaction) before the store '
                'is walked; the real fixed-interval periodic loop is run with a stub timer over directed commits of every kind x interface; '
                'order under peer faults: 9 fault kinds of ONE subscriber x 7 commit kinds x {same thread, second writer at the lock} while the '
                'same report is slowly delivered to two bystanders. '
                'distinct = op-shape sequence resp. (writer op, foreign op, point, k) resp. (fault, commit kind, manager, threaded)')
    q = ctx.quick
    jobs = [['w_truth', {'i': k, 'n': 2 if q else 24, 'len': 40 if q else 120}] for k in range(8 if q else 16)]
    jobs += [['w_order_stress', {'i': k, 'writers': 2 + k % 3 * 2, 'ops': 60 if q else 600}] for k in range(4 if q else 16)]
    jobs += [['w_order_explore', {'i': k, 'k': 1 + k % 2}] for k in range(2 if q else 8)]
    jobs += [['w_periodic_retrievability', {'i': k, 'rounds': 15 if q else 150}] for k in range(4 if q else 8)]
    jobs += [['w_poison', {'i': k, 'n': 4 if q else 40}] for k in range(2 if q else 8)]
    jobs += [['w_order_realsocket', {'i': k, 'writers': 2 + k % 3, 'ops': 40 if q else 400}] for k in range(4 if q else 8)]
    jobs += [['w_periodic_simple', {'i': k + 4 * (ctx.seed % 2), 'rounds': 4 if q else 40, 'ops': 7}] for k in range(4 if q else 8)]
    jobs += [['w_order_faulty_peer', {'i': k + ctx.seed, 'async': k % 4 != 3, 'cases': len(PEER_FAULTS), 'delay': 0.3}] for k in range(4 if q else 16)]
    t0 = time.time()
    core.fanout(ctx, MODULE, 'dispatch', jobs, timeout=3000)
    walls = sorted(ctx.extra.get('job_wall_s', []), key=lambda x: -x[2])
    ctx.extra['job_wall_sum_s'] = round(sum(w[2] for w in walls))  # CPU-ish cost of the tier (the wall of a run depends on the machine-wide slots)
    if os.environ.get('VERIF_DIAG') == '1':
        print(f'  [C04] diagnostic: {len(jobs)} jobs in {time.time() - t0:.0f}s, sum of job walls {sum(w[2] for w in walls):.0f}s, slowest {walls[:4]}')
    ctx.floor('order.real.notifications', 200)
    ctx.floor('order.real.final_mirror_checked', 4)
    ctx.floor('periodic.loop.states_checked', 100)
    ctx.floor('schema.poison.worlds', 8)
    ctx.floor('periodic.loop.injected_transactions', 20)
    ctx.floor('truth.transactions', 400)
    ctx.floor('truth.states_checked', 1000)
    ctx.floor('truth.descriptors_checked', 50)
    ctx.floor('schema.messages_validated', 500)
    ctx.floor('order.notifications', 300)
    ctx.floor('order.explore_runs', 49)
    ctx.floor('periodic.store_states_checked', 200)
    ctx.floor('periodic.wire_states_checked', 50)
    ctx.floor('periodic.handout_scribbled', 400)
    ctx.floor('periodic.simple.rounds', 8)
    ctx.floor('periodic.simple.store_states_checked', 500)
    ctx.floor('periodic.simple.wire_states_checked', 80)
    ctx.floor('order.fault.cases_with_fault', 24)
    ctx.floor('order.fault.slow_deliveries', 24)
    ctx.floor('order.fault.bystander_notifications', 120)
    ctx.floor('schema.messages_with_reference_parameters', 100)
    ctx.floor('truth.descriptor_source_mds_checked', 50)
    ctx.floor('truth.cross_mds_ops', 20)


def dispatch(ctx: core.Ctx, job):
    t0 = time.time()
    try:
        globals()[job[0]](ctx, job[1])
    finally:
        # diagnostic only (which job is the long pole on a loaded machine); no verdict uses it
        ctx.extra['job_wall_s'] = [[job[0], job[1].get('i'), round(time.time() - t0, 1)]]
