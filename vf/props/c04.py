"""C04 - reports are complete, truthful, schema-valid and delivered in version order.

(1) truth: for every committed transaction of seeded histories the reports found on the wire (per subscriber, parsed with lxml; contained
    entities read back and canonicalised) are compared with diff(by_version[v-1], by_version[v]) of the provider history: version group,
    exactly the changed descriptors / states, content = content at that commit, states under the part of their source MDS.
(2) schema: every byte string that crossed the loop-back transport (requests, responses, notifications, faults, SubscriptionEnd) is
    validated by the independent XSD oracle (vf.xsdoracle: lxml XMLSchema compiled from the bundled xsd files with an own resolver).
(3) order: per subscriber non-decreasing MdibVersion of episodic / waveform / description reports under writer threads, and a
    lock-granularity exploration with the writer observed (foreign transactions at every point where it holds neither lock).
(4) periodic store: every (MdibVersion, states) entry retained for periodic reports equals the published content of that version, also
    after later transactions changed the same states; periodic reports flushed onto the wire are checked the same way.
"""
from __future__ import annotations

import sys
import threading
import time

from lxml import etree

from .. import core, mdibops
from ..history import History, canon, canon_descriptor, first_difference, tolerant_equal, versions_of
from ..mdibharness import MDIB_FILES, World
from ..sched import Instrumented, LockProxy
from .c01 import MSG, PM, S12
from .c07 import LiveHistory

MODULE = 'vf.props.c04'
XSI_TYPE = '{http://www.w3.org/2001/XMLSchema-instance}type'
STATE_TAGS = ('MetricState', 'AlertState', 'ComponentState', 'OperationState', 'ContextState', 'State')
REPORT_KIND = {'EpisodicMetricReport': 'metric', 'EpisodicAlertReport': 'alert', 'EpisodicComponentReport': 'component',
               'EpisodicOperationalStateReport': 'operational', 'EpisodicContextReport': 'ctx', 'WaveformStream': 'rt',
               'DescriptionModificationReport': 'descr'}


def state_kind(st):
    if st.is_context_state:
        return 'ctx'
    if st.is_realtime_sample_array_metric_state:
        return 'rt'
    if st.is_metric_state:
        return 'metric'
    if st.is_alert_state:
        return 'alert'
    if st.is_operational_state:
        return 'operational'
    return 'component'


class ParsedReport:
    def __init__(self, body: bytes, reader):
        root = etree.fromstring(body)
        b = root.find(f'{{{S12}}}Body')
        self.rep = b[0] if b is not None and len(b) else None
        self.name = etree.QName(self.rep).localname if self.rep is not None else None
        self.version = None
        self.states = []  # (source_mds, container)
        self.descriptors = []  # (modification, source_mds, container)
        if self.rep is None or self.name not in REPORT_KIND and not self.name.startswith('Periodic'):
            return
        self.version = (int(self.rep.get('MdibVersion', '0')), self.rep.get('SequenceId'),
                        int(self.rep.get('InstanceId')) if self.rep.get('InstanceId') is not None else None)
        parts = self.rep.findall(f'{{{MSG}}}ReportPart')
        if self.name == 'WaveformStream':
            parts = [self.rep]
        for part in parts:
            src = part.find(f'{{{MSG}}}SourceMds')
            src = src.text if src is not None else None
            mod = part.get('ModificationType', 'Upt')
            for child in part:
                local = etree.QName(child).localname
                if local == 'Descriptor':
                    cls = reader.get_descriptor_container_class(_qname_of(child))
                    d = cls.from_node(child, part.get('ParentDescriptor'))
                    self.descriptors.append((mod, src, d))
                elif local in STATE_TAGS:
                    cls = reader.get_state_container_class(_qname_of(child))
                    self.states.append((src, cls.from_node(child), mod))


def _qname_of(node):
    t = node.get(XSI_TYPE)
    if t is None:  # msg:WaveformStream/msg:State has the fixed type pm:RealTimeSampleArrayMetricState
        return etree.QName(PM, 'RealTimeSampleArrayMetricState')
    prefix, local = t.split(':') if ':' in t else (None, t)
    return etree.QName(node.nsmap[prefix], local)


def diff_versions(before, after):
    """what a transaction changed: sets of handles per kind."""
    out = {'descr_created': set(), 'descr_deleted': set(), 'descr_updated': set(), 'states': set(), 'ctx': set()}
    for h in set(before['descr']) | set(after['descr']):
        if h not in before['descr']:
            out['descr_created'].add(h)
        elif h not in after['descr']:
            out['descr_deleted'].add(h)
        elif not tolerant_equal(before['descr'][h], after['descr'][h]):
            out['descr_updated'].add(h)
    for key in ('states', 'ctx'):
        for h in after[key]:
            if h not in before[key] or not tolerant_equal(before[key][h], after[key][h]):
                out[key].add(h)
    return out


def check_transaction(ctx, reports, before, after, detail, opk):
    """reports: ParsedReport list of ONE subscriber for ONE committed transaction."""
    v = after['version']
    changed = diff_versions(before, after)
    seen_states, seen_ctx, seen_descr = {}, {}, {'Crt': {}, 'Upt': {}, 'Del': {}}
    for r in reports:
        ctx.count(f'truth.report.{r.name}')
        if r.version != v:
            ctx.witness(f'truth.version_group.{r.name}', 'a report does not carry the MdibVersion / SequenceId / InstanceId of the commit',
                        {**detail, 'report': r.name, 'report_version': r.version, 'commit_version': v})
            continue
        for src, st, mod in r.states:
            is_ctx = st.is_context_state
            h = st.Handle if is_ctx else st.DescriptorHandle
            table = after['ctx'] if is_ctx else after['states']
            c = canon(st)
            if r.name != 'DescriptionModificationReport' and REPORT_KIND.get(r.name) != state_kind(st):
                ctx.witness(f'truth.wrong_report_kind.{r.name}', 'a state travels in a report of another kind', {**detail, 'handle': h})
            if mod == 'Del':
                continue
            want = table.get(h)
            if want is None:
                ctx.witness(f'truth.state_not_in_mdib.{r.name}.{opk}', 'a report contains a state that is not in the MDIB at that version',
                            {**detail, 'handle': h, 'report': r.name})
                continue
            if not tolerant_equal(c, want):
                ctx.witness(f'truth.state_content.{r.name}.{opk}', 'a reported state differs from the state the MDIB has at the reported MdibVersion',
                            {**detail, 'handle': h, 'report': r.name, 'diff': first_difference(want, c)})
            (seen_ctx if is_ctx else seen_states)[h] = c
            # source MDS grouping
            descr_handle = st.DescriptorHandle
            want_src = after['src'].get(descr_handle)
            if src is not None and want_src is not None and src != want_src:
                ctx.witness(f'truth.source_mds.{r.name}', 'a state is reported under the part of another MDS',
                            {**detail, 'handle': h, 'part_source_mds': src, 'descriptor_source_mds': want_src})
            ctx.count('truth.states_checked')
        for mod, src, d in r.descriptors:
            c = canon_descriptor(d)
            h = d.Handle
            if mod == 'Del':
                if h in after['descr']:
                    ctx.witness(f'truth.deleted_but_present.{opk}', 'a descriptor is reported as deleted but is in the MDIB at that version', {**detail, 'handle': h})
                seen_descr['Del'][h] = c
                continue
            want = after['descr'].get(h)
            if want is None:
                ctx.witness(f'truth.descriptor_not_in_mdib.{opk}', 'a report contains a descriptor that is not in the MDIB at that version', {**detail, 'handle': h})
                continue
            prev = seen_descr[mod].get(h)
            if prev is not None and not tolerant_equal(prev, c):
                ctx.witness(f'truth.descriptor_reported_twice.{opk}',
                            'one descriptor is reported twice with different content / version in the reports of one transaction',
                            {**detail, 'handle': h, 'diff': first_difference(prev, c)})
            elif not tolerant_equal(c, want):
                ctx.witness(f'truth.descriptor_content.{opk}', 'a reported descriptor differs from the descriptor the MDIB has at the reported MdibVersion',
                            {**detail, 'handle': h, 'modification': mod, 'diff': first_difference(want, c)})
            seen_descr[mod][h] = c
            ctx.count('truth.descriptors_checked')
    # a description modification part carries the changed states of its descriptor (all of them: a context descriptor has several)
    for r in reports:
        if r.name != 'DescriptionModificationReport' or r.version != v:
            continue
        by_descr = {}
        for src, st, mod in r.states:
            by_descr.setdefault(st.DescriptorHandle, set()).add(st.Handle if st.is_context_state else st.DescriptorHandle)
        for mod, src, d in r.descriptors:
            if mod == 'Del':
                continue
            want = {h for h in changed['states'] if h == d.Handle}
            want |= {h for h in changed['ctx'] if dict(after['ctx'][h][1]).get('DescriptorHandle') == d.Handle}
            got = by_descr.get(d.Handle, set())
            ctx.count('truth.description_parts_checked')
            if want - got:
                ctx.witness(f'truth.description_part_states_incomplete.{opk}',
                            'a DescriptionModificationReport part does not carry all changed states of its descriptor',
                            {**detail, 'descriptor': d.Handle, 'missing': sorted(want - got), 'in_part': sorted(got)})
    # completeness / exactness of the union
    for label, seen, want in (('states', set(seen_states), changed['states']), ('context_states', set(seen_ctx), changed['ctx']),
                              ('created', set(seen_descr['Crt']), changed['descr_created']),
                              ('deleted', set(seen_descr['Del']), changed['descr_deleted']),
                              ('updated', set(seen_descr['Upt']), changed['descr_updated'])):
        missing, extra = want - seen, seen - want
        if missing:
            ctx.witness(f'truth.missing.{label}.{opk}', f'the reports of a transaction do not contain all {label} it changed',
                        {**detail, 'missing': sorted(missing)[:5], 'reported': sorted(seen)[:8]})
        if extra:
            ctx.witness(f'truth.extra.{label}.{opk}', f'the reports of a transaction contain {label} the transaction did not change',
                        {**detail, 'extra': sorted(extra)[:5]})


def validate_wire(ctx, world, seen: set, label):
    from ..xsdoracle import oracle
    orc = oracle()
    for e in world.network.log:
        for which, data in (('request', e.body), ('response', e.response)):
            if not data or not data.lstrip().startswith(b'<'):
                continue
            hsh = core.h(data[:200] + data[-200:] + str(len(data)).encode())
            if hsh in seen:
                continue
            seen.add(hsh)
            try:
                root = etree.fromstring(data)
            except etree.XMLSyntaxError as ex:
                ctx.witness('schema.not_wellformed', 'a message on the wire is not well-formed XML', {**label, 'which': which, 'path': e.path, 'ex': str(ex)})
                continue
            if etree.QName(root).localname != 'Envelope':
                continue  # wsdl etc.
            errors = orc.validate(root, reparse=False)
            ctx.count('schema.messages_validated')
            body = root.find(f'{{{S12}}}Body')
            name = etree.QName(body[0]).localname if body is not None and len(body) else 'EmptyBody'
            ctx.count(f'schema.{name}')
            if errors:
                ctx.witness(f'schema.invalid.{name}', 'a message on the wire does not validate against the bundled schemas',
                            {**label, 'which': which, 'path': e.path, 'errors': errors[:3], 'message_head': data[:600]})


def w_truth(ctx: core.Ctx, arg):
    rng = ctx.rng('truth', arg['i'])
    seen_msgs = set()
    for hno in range(arg['n']):
        mdib_file = MDIB_FILES[(arg['i'] + hno) % len(MDIB_FILES)]
        async_mgr = (arg['i'] + hno // 2) % 2 == 1
        world = World(mdib_file, role_provider=False, async_mgr=async_mgr, periodic_reports_interval=3600)
        mdib = world.mdib
        hist = History(mdib)
        c1, _ = world.add_consumer(with_mdib=False)
        actions = mdib.sdc_definitions.Actions
        c2, _ = world.add_consumer(with_mdib=False, not_subscribed_actions=[actions.EpisodicAlertReport, actions.Waveform])
        subs = [('all', f'127.0.0.1:{c1.vf_server.server_port}', None),
                ('no_alert_no_waveform', f'127.0.0.1:{c2.vf_server.server_port}', {'EpisodicAlertReport', 'WaveformStream'})]
        reader = c1.msg_reader
        memo = {}
        weights = {k: v for k, v in mdibops.DEFAULT_WEIGHTS.items() if k not in ('reject',)}
        label = {'mdib_file': mdib_file, 'async_mgr': async_mgr, 'history': [arg['i'], hno]}
        handler = world.provider._periodic_reports_handler
        shapes = []
        for step in range(arg['len']):
            op = mdibops.gen_op(rng, mdib, memo, weights)
            before = hist.last
            n0 = len(world.network.log)
            ap = mdibops.apply_op(mdib, op, memo)
            after = hist.record()
            hist.problems.clear()
            shapes.append(mdibops.op_shape(ap))
            ctx.case(('tr', mdib_file, async_mgr) + mdibops.op_shape(ap), nontrivial=ap.outcome == 'ok')
            opk = op['op'] + ('.' + op['sub'] if op.get('sub') else '')
            detail = {**label, 'step': step, 'op': op, 'outcome': ap.outcome}
            entries = world.network.log[n0:]
            for sname, netloc, excluded in subs:
                reports = []
                for e in entries:
                    if e.netloc == netloc and e.body:
                        try:
                            pr = ParsedReport(e.body, reader)
                        except Exception as ex:  # noqa: BLE001
                            ctx.witness('truth.unparsable_report', 'a notification on the wire cannot be read back', {**detail, 'ex': repr(ex)[:300]})
                            continue
                        if pr.version is not None:
                            reports.append(pr)
                if after['version'] == before['version'] and not reports:
                    continue
                if after['version'][0] == before['version'][0] and reports:
                    ctx.witness(f'truth.report_without_commit.{opk}', 'reports were sent although MdibVersion did not change', detail)
                    continue
                ctx.count('truth.transactions')
                if excluded is None:
                    check_transaction(ctx, reports, before, after, {**detail, 'subscriber': sname}, opk)
                else:
                    bad = [r.name for r in reports if r.name in excluded]
                    if bad:
                        ctx.witness('truth.filter_ignored', 'a subscriber received a report kind it did not subscribe', {**detail, 'reports': bad})
            # periodic store: every retained entry equals the published content of the version it is labelled with
            for lst_name in ('_periodic_metric_reports', '_periodic_alert_reports', '_periodic_component_state_reports',
                             '_periodic_context_state_reports', '_periodic_operational_state_reports'):
                for ps in getattr(handler, lst_name, []):
                    snap_v = hist.by_version.get(ps.mdib_version)
                    for st in ps.states:
                        ctx.count('periodic.store_states_checked')
                        is_ctx = st.is_context_state
                        h = st.Handle if is_ctx else st.DescriptorHandle
                        want = (snap_v['ctx'] if is_ctx else snap_v['states']).get(h) if snap_v else None
                        if want is None or not tolerant_equal(canon(st), want):
                            ctx.witness(f'periodic.store_changed.{lst_name.strip("_")}',
                                        'a state copy retained for periodic reports no longer shows the values of the version it is labelled with',
                                        {**detail, 'labelled_version': ps.mdib_version, 'handle': h,
                                         'diff': first_difference(want, canon(st)) if want else 'state not in MDIB at that version'})
            if step % 10 == 9:
                _flush_periodic(ctx, world, hist, handler, subs[0][1], reader, label)
        validate_wire(ctx, world, seen_msgs, label)
        ctx.case(tuple(shapes) + (async_mgr,), nontrivial=any(s[5] == 'ok' for s in shapes))
        if hno == 0 and arg['i'] == 0:
            ctx.sample({**label, 'ops': [s[0] for s in shapes][:12], 'wire_messages': len(world.network.log)})
        # shutdown: SubscriptionEnd messages must validate as well
        n0 = len(world.network.log)
        for c in world.consumers:
            c._subscription_mgr.stop() if getattr(c, '_subscription_mgr', None) else None
        try:
            world.provider.stop_all(send_subscription_end=True)
        except Exception as ex:  # noqa: BLE001
            ctx.count('shutdown.exception')
        validate_wire(ctx, world, seen_msgs, {**label, 'phase': 'shutdown'})
        ctx.count('shutdown.messages', len(world.network.log) - n0)


def _poison_and_repair(ctx, world, hist, rng):
    """the application commits a value that cannot be serialised into schema-valid XML (xsd:decimal has no NaN): the library must not
    put the invalid report on the wire for ANY subscriber (validate_wire judges every message); the state is repaired right after."""
    from decimal import Decimal
    mdib = world.mdib
    numeric = [h for h in mdibops.catalog(mdib)['metric']
               if mdib.states.descriptor_handle.get_one(h, allow_none=True) is not None
               and type(mdib.states.descriptor_handle.get_one(h)).__name__ == 'NumericMetricStateContainer']
    if not numeric:
        return
    h = rng.choice(numeric)
    try:
        with mdib.metric_state_transaction() as mgr:
            st = mgr.get_state(h)
            if st.MetricValue is None:
                st.mk_metric_value()
            st.MetricValue.Value = Decimal('NaN')
        ctx.count('schema.poison.accepted_without_error')
    except Exception as ex:  # noqa: BLE001
        ctx.count(f'schema.poison.raised.{type(ex).__name__}')
    hist.record()
    hist.problems.clear()
    try:
        with mdib.metric_state_transaction() as mgr:
            st = mgr.get_state(h)
            st.MetricValue.Value = Decimal(rng.randrange(0, 100))
    except Exception as ex:  # noqa: BLE001
        ctx.count(f'schema.poison.repair_raised.{type(ex).__name__}')
    hist.record()
    hist.problems.clear()


def _flush_periodic(ctx, world, hist, handler, netloc, reader, label):
    """what the periodic send loop does when its timer fires, then check the periodic reports on the wire."""
    ses = world.provider.hosted_services.state_event_service
    cs = world.provider.hosted_services.context_service
    n0 = len(world.network.log)
    for lst_name, send in (('_periodic_metric_reports', ses.send_periodic_metric_report), ('_periodic_alert_reports', ses.send_periodic_alert_report),
                           ('_periodic_component_state_reports', ses.send_periodic_component_state_report),
                           ('_periodic_context_state_reports', cs.send_periodic_context_report),
                           ('_periodic_operational_state_reports', ses.send_periodic_operational_state_report)):
        lst = getattr(handler, lst_name)
        with handler._periodic_reports_lock:
            tmp = lst[:]
            del lst[:]
        if tmp:
            send(tmp, world.mdib.mdib_version_group)
    for e in world.network.log[n0:]:
        if e.netloc != netloc or not e.body:
            continue
        root = etree.fromstring(e.body)
        b = root.find(f'{{{S12}}}Body')
        rep = b[0]
        ctx.count(f'periodic.wire.{etree.QName(rep).localname}')
        for part in rep.findall(f'{{{MSG}}}ReportPart'):
            for child in part:
                if etree.QName(child).localname in STATE_TAGS:
                    st = reader.get_state_container_class(_qname_of(child)).from_node(child)
                    is_ctx = st.is_context_state
                    h = st.Handle if is_ctx else st.DescriptorHandle
                    pub = hist.published.get(('ctx' if is_ctx else 'state', h, st.StateVersion))
                    ctx.count('periodic.wire_states_checked')
                    if pub is None or not tolerant_equal(pub, canon(st)):
                        ctx.witness('periodic.wire_state_content', 'a periodic report carries a state that differs from what was published under that StateVersion',
                                    {**label, 'handle': h, 'state_version': st.StateVersion,
                                     'diff': first_difference(pub, canon(st)) if pub else 'never published'})


# ------------------------------------------------------------------------------------------------
def _versions_per_subscriber(world, netlocs):
    seq = {n: [] for n in netlocs}
    for e in world.network.log:
        if e.netloc in seq and e.body:
            i = e.body.find(b'MdibVersion="')
            if i < 0:
                continue
            j = e.body.find(b'"', i + 13)
            name_ok = any(k in e.body[:3000] for k in (b'Episodic', b'WaveformStream', b'DescriptionModificationReport'))
            if name_ok:
                seq[e.netloc].append(int(e.body[i + 13:j]))
    return seq


def w_order_stress(ctx: core.Ctx, arg):
    mdib_file = MDIB_FILES[arg['i'] % len(MDIB_FILES)]
    world = World(mdib_file, role_provider=False, async_mgr=arg['i'] % 2 == 1)
    mdib = world.mdib
    consumers = [world.add_consumer(with_mdib=False)[0] for _ in range(2)]
    netlocs = [f'127.0.0.1:{c.vf_server.server_port}' for c in consumers]
    delay_rng = ctx.rng('order-delay', arg['i'])
    # async SOAP client: the transfer of a notification really suspends (slow link); a sender that does not wait for it is overtaken
    world.network.async_delay = lambda netloc, path, data: (delay_rng.choice([0, 0, 0.002, 0.004]) if netloc in netlocs else 0)
    old = sys.getswitchinterval()
    sys.setswitchinterval(1e-5)
    errors = []

    def writer(wi):
        r = ctx.rng('order-writer', arg['i'], wi)
        memo = {}
        weights = {k: v for k, v in mdibops.DEFAULT_WEIGHTS.items() if k in ('metric', 'alert', 'component', 'context', 'descr_update', 'operational', 'rt')}
        for n in range(arg['ops']):
            try:
                with mdib.mdib_lock:
                    op = mdibops.gen_op(r, mdib, memo, weights)
                if op['op'] == 'context':
                    op['new_handle'] = f'w{wi}_{op["new_handle"]}'
                mdibops.apply_op(mdib, op, memo)
            except Exception as ex:  # noqa: BLE001
                errors.append(repr(ex))
    threads = [threading.Thread(target=writer, args=(k,), daemon=True) for k in range(arg['writers'])]
    for t in threads:
        t.start()
    for t in threads:
        t.join(600)
    sys.setswitchinterval(old)
    if any(t.is_alive() for t in threads):
        ctx.not_decided('order stress: writer threads did not finish')
    for netloc, seq in _versions_per_subscriber(world, netlocs).items():
        ctx.count('order.notifications', len(seq))
        inversions = [(i, a, b) for i, (a, b) in enumerate(zip(seq, seq[1:])) if b < a]
        if inversions:
            ctx.witness('order.decreasing_mdib_version', 'a subscriber received reports with decreasing MdibVersion',
                        {'mdib_file': mdib_file, 'writers': arg['writers'], 'first': inversions[:3], 'around': seq[max(0, inversions[0][0] - 3):inversions[0][0] + 4]})
        ctx.count('order.distinct_versions', len(set(seq)))
    ctx.case(('order-stress', arg['i'], arg['writers']))
    ctx.count('order.writer_errors', len(errors))
    world.stop()


def w_order_realsocket(ctx: core.Ctx, arg):
    """writer threads against a provider with NOTHING replaced (real HTTP servers / clients on 127.0.0.1, default async or sync components,
    consumers with the default deferred dispatcher); the order of arrival is taken at the consumer's notification dispatcher entry
    (on_post, called by the consumer's HTTP server thread in the order the requests arrive), per consumer; at the end every consumer MDIB
    (fed by the dispatcher's worker thread) must be at the provider's version: a report the consumer refused would show as a gap."""
    from ..realworld import RealWorld
    mdib_file = MDIB_FILES[arg['i'] % len(MDIB_FILES)]
    async_mgr = arg['i'] % 2 == 0
    try:
        world = RealWorld(mdib_file, async_mgr=async_mgr, chunk_size=[0, 256][(arg['i'] // 2) % 2])
    except Exception as ex:  # noqa: BLE001
        ctx.not_decided(f'real-socket world could not be set up: {ex!r}')
        return
    arrivals = {}
    lock = threading.Lock()
    try:
        mdib = world.mdib
        consumers = []
        for ci in range(2):
            cons, cm = world.add_consumer(with_mdib=ci == 0)
            consumers.append((cons, cm))
            disp = cons._services_dispatcher  # noqa: SLF001
            orig = disp.on_post

            def on_post(request_data, _orig=orig, _ci=ci):
                try:
                    md = request_data.message_data
                    name = md.q_name.localname if md.q_name is not None else ''
                    if md.mdib_version_group is not None and (name.startswith('Episodic') or name in ('WaveformStream', 'DescriptionModificationReport')):
                        with lock:
                            arrivals.setdefault(_ci, []).append((md.mdib_version_group.mdib_version, name))
                except Exception:  # noqa: BLE001
                    pass
                return _orig(request_data)
            disp.on_post = on_post
        old = sys.getswitchinterval()
        sys.setswitchinterval(1e-5)
        errors = []

        def writer(wi):
            r = ctx.rng('order-real-writer', arg['i'], wi)
            memo = {}
            weights = {k: v for k, v in mdibops.DEFAULT_WEIGHTS.items() if k in ('metric', 'alert', 'component', 'context', 'descr_update', 'operational', 'rt')}
            for n in range(arg['ops']):
                try:
                    with mdib.mdib_lock:
                        op = mdibops.gen_op(r, mdib, memo, weights)
                    if op['op'] == 'context':
                        op['new_handle'] = f'w{wi}_{op["new_handle"]}'
                    mdibops.apply_op(mdib, op, memo)
                except Exception as ex:  # noqa: BLE001
                    errors.append(repr(ex))
        threads = [threading.Thread(target=writer, args=(k,), daemon=True) for k in range(arg['writers'])]
        for t in threads:
            t.start()
        for t in threads:
            t.join(900)
        sys.setswitchinterval(old)
        if any(t.is_alive() for t in threads):
            ctx.not_decided('real-socket order stress: writer threads did not finish')
            return
        for cons, cm in consumers:
            if not world.barrier(cons):
                ctx.not_decided('real-socket order stress: dispatcher barrier not reached')
                return
        for ci, seq in arrivals.items():
            versions = [v for v, _ in seq]
            ctx.count('order.real.notifications', len(versions))
            inv = [(i, a, b) for i, (a, b) in enumerate(zip(versions, versions[1:])) if b < a]
            if inv:
                ctx.witness('order.decreasing_mdib_version', 'a subscriber received reports with decreasing MdibVersion (real sockets)',
                            {'mdib_file': mdib_file, 'writers': arg['writers'], 'async_mgr': async_mgr, 'first': inv[:3],
                             'around': seq[max(0, inv[0][0] - 3):inv[0][0] + 4]})
        cm = consumers[0][1]
        ctx.count('order.real.final_mirror_checked')
        if cm.mdib_version != mdib.mdib_version:
            ctx.witness('order.real.consumer_not_at_provider_version', 'after all reports were delivered in order the consumer MDIB is not at the provider MdibVersion',
                        {'consumer': cm.mdib_version, 'provider': mdib.mdib_version, 'async_mgr': async_mgr, 'mdib_file': mdib_file})
        else:
            from ..history import snap, snap_equal
            diffs = snap_equal(snap(mdib), snap(cm))
            if diffs:
                ctx.witness('order.real.consumer_differs', 'after concurrent writers the consumer MDIB differs from the provider MDIB at the same version',
                            {'diff': diffs[:4], 'async_mgr': async_mgr, 'mdib_file': mdib_file})
        ctx.case(('order-real', arg['i'], arg['writers'], async_mgr))
        ctx.count('order.real.writer_errors', len(errors))
    finally:
        world.stop()


def w_order_explore(ctx: core.Ctx, arg):
    """the writer is observed: at every point where it holds neither the transaction lock nor the MDIB lock a foreign transaction runs."""
    rng = ctx.rng('order-explore', arg['i'])
    mdib_file = MDIB_FILES[arg['i'] % len(MDIB_FILES)]
    world = World(mdib_file, role_provider=False, async_mgr=arg['i'] % 2 == 1)
    mdib = world.mdib
    consumer, _ = world.add_consumer(with_mdib=False)
    netloc = f'127.0.0.1:{consumer.vf_server.server_port}'
    delay_rng = ctx.rng('explore-delay', arg['i'])
    world.network.async_delay = lambda nl, path, data: (delay_rng.choice([0, 0.002, 0.004]) if nl == netloc else 0)
    inst = Instrumented(mdib)
    tr_proxy = LockProxy(mdib._tr_lock, 'tr', inst)
    mdib._tr_lock = tr_proxy
    inst.locks['tr'] = tr_proxy
    memo = {}
    kinds = ['metric', 'alert', 'component', 'operational', 'context', 'rt', 'descr_update']
    for a in kinds:
        for b in kinds:
            opa = mdibops.gen_op(rng, mdib, memo, {a: 1})
            points = []
            inst.set_hook(lambda ev, name: points.append((ev, name)) if not tr_proxy.held() else None)
            mdibops.apply_op(mdib, opa, memo)
            inst.clear_hook()
            for pi in range(len(points)):
                opa = mdibops.gen_op(rng, mdib, memo, {a: 1})
                seen = {'i': -1}

                def hook(ev, name, _pi=pi, _seen=seen):
                    if tr_proxy.held():
                        return
                    _seen['i'] += 1
                    if _seen['i'] == _pi:
                        for _ in range(arg['k']):
                            opb = mdibops.gen_op(rng, mdib, memo, {b: 1})
                            if opb.get('new_handle'):
                                opb['new_handle'] = 'f_' + opb['new_handle']
                            mdibops.apply_op(mdib, opb, memo)
                n0 = len(world.network.log)
                inst.set_hook(hook)
                mdibops.apply_op(mdib, opa, memo)
                inst.clear_hook()
                ctx.count('order.explore_runs')
                ctx.case(('order-explore', a, b, pi, arg['k']))
                seq = []
                for e in world.network.log[n0:]:
                    if e.netloc == netloc and e.body and b'MdibVersion="' in e.body:
                        i = e.body.find(b'MdibVersion="')
                        seq.append(int(e.body[i + 13:e.body.find(b'"', i + 13)]))
                if any(y < x for x, y in zip(seq, seq[1:])):
                    ctx.witness('order.overtaken', 'a report of a later commit was delivered before a report of an earlier commit',
                                {'writer_op': a, 'foreign_op': b, 'point': list(points[pi]), 'versions_in_delivery_order': seq, 'mdib_file': mdib_file})
            ctx.count('order.explore_points', len(points))
    world.stop()


def w_poison(ctx: core.Ctx, arg):
    """values that cannot be written as schema-valid XML: nothing invalid may reach ANY subscriber (a notification failure may end the
    subscription - that is why this runs in worlds of its own)."""
    rng = ctx.rng('poison', arg['i'])
    seen = set()
    for rep in range(arg['n']):
        mdib_file = MDIB_FILES[(arg['i'] + rep) % len(MDIB_FILES)]
        async_mgr = rep % 2 == 0
        world = World(mdib_file, role_provider=False, async_mgr=async_mgr)
        hist = History(world.mdib)
        for _ in range(rng.randrange(2, 5)):
            world.add_consumer(with_mdib=False)
        memo = {}
        for _ in range(5):
            mdibops.apply_op(world.mdib, mdibops.gen_op(rng, world.mdib, memo, {'metric': 1, 'alert': 1}), memo)
        _poison_and_repair(ctx, world, hist, rng)
        for _ in range(3):
            mdibops.apply_op(world.mdib, mdibops.gen_op(rng, world.mdib, memo, {'metric': 1, 'alert': 1}), memo)
        validate_wire(ctx, world, seen, {'mdib_file': mdib_file, 'async_mgr': async_mgr, 'scenario': 'NaN metric value committed'})
        ctx.case(('poison', mdib_file, async_mgr, len(world.consumers)))
        ctx.count('schema.poison.worlds')
        world.stop()


def w_periodic_retrievability(ctx: core.Ctx, arg):
    """the retrievability-driven periodic loop, run synchronously with a stub timer; foreign transactions at every point where the
    loop thread holds neither lock; the PeriodicStates handed to the send functions must show the values of the version they are labelled with."""
    import collections
    import contextlib
    import io
    from sdc11073.provider import periodicreports
    rng = ctx.rng('periodic', arg['i'])
    mdib_file = MDIB_FILES[arg['i'] % len(MDIB_FILES)]
    world = World(mdib_file, role_provider=False)
    mdib = world.mdib
    consumer, _ = world.add_consumer(with_mdib=False)
    cat = mdibops.catalog(mdib)
    for h in cat['context'][:2]:
        mdibops.apply_op(mdib, {'op': 'context', 'sub': 'new_assoc', 'descr': h, 'new_handle': f'p_{h}', 'seed': 5, 'iface': 'classic'})
    handles = cat['metric'][:3] + cat['alert'][:2] + cat['component'][:2] + cat['operational'][:1] + cat['context'][:2]
    mdib.retrievability_periodic = collections.defaultdict(list, {1000: list(handles)})
    hist = LiveHistory(mdib)
    inst = Instrumented(mdib)
    handler = periodicreports.PeriodicReportsHandler(mdib, world.provider.hosted_services, None)
    captured = []
    ses = world.provider.hosted_services.state_event_service
    cs = world.provider.hosted_services.context_service
    originals = {}
    for obj, names in ((ses, ['send_periodic_metric_report', 'send_periodic_alert_report', 'send_periodic_component_state_report',
                              'send_periodic_operational_state_report']), (cs, ['send_periodic_context_report'])):
        for name in names:
            orig = getattr(obj, name)
            originals[(obj, name)] = orig

            def wrapper(periodic_states_list, mdib_version_group, _orig=orig, _name=name):
                for ps in periodic_states_list:
                    captured.append((_name, ps.mdib_version, [(st, canon(st)) for st in ps.states]))
                return _orig(periodic_states_list, mdib_version_group)
            setattr(obj, name, wrapper)
    rounds = {'n': 0}

    class StubTimer:
        def __init__(self, period_in_seconds):
            pass

        def remaining_time(self):
            return 0.0

        def wait_next_interval_begin(self):
            rounds['n'] += 1
            if rounds['n'] > arg['rounds']:
                handler._run_periodic_reports_thread = False
            return 0.0
    real_timer = periodicreports.intervaltimer.IntervalTimer
    periodicreports.intervaltimer.IntervalTimer = StubTimer
    memo = {}
    weights = {'metric': 3, 'alert': 2, 'component': 2, 'operational': 1, 'context': 3}
    points_seen = collections.Counter()

    def hook(ev, name):
        points_seen[(ev, name)] += 1
        if rng.random() < 0.7:
            for _ in range(rng.randrange(1, 3)):
                op = mdibops.gen_op(rng, mdib, memo, weights)
                # aim at the handles the loop reports
                if op.get('handles'):
                    pool = [h for h in handles if h in cat.get(op['op'], [])]
                    if pool:
                        op['handles'] = [rng.choice(pool)]
                mdibops.apply_op(mdib, op, memo)
                ctx.count('periodic.loop.injected_transactions')
    try:
        handler._run_periodic_reports_thread = True
        inst.set_hook(hook)
        with contextlib.redirect_stdout(io.StringIO()):
            handler._periodic_reports_send_loop()
    finally:
        inst.clear_hook()
        periodicreports.intervaltimer.IntervalTimer = real_timer
        for (obj, name), orig in originals.items():
            setattr(obj, name, orig)
    ctx.count('periodic.loop.rounds', rounds['n'])
    ctx.extra.setdefault('periodic_loop_points', sorted({f'{e}:{n}' for e, n in points_seen}))
    for name, label, states in captured:
        snap_v = hist.by_version.get(label)
        for st, c in states:
            ctx.count('periodic.loop.states_checked')
            is_ctx = st.is_context_state
            h = st.Handle if is_ctx else st.DescriptorHandle
            want = (snap_v['ctx'] if is_ctx else snap_v['states']).get(h) if snap_v else None
            if want is None or not tolerant_equal(c, want):
                ctx.witness('periodic.loop_label_mismatch', 'state copies collected by the periodic loop do not show the values of the MdibVersion they are labelled with',
                            {'mdib_file': mdib_file, 'send': name, 'labelled_version': label, 'handle': h,
                             'diff': first_difference(want, c) if want else 'not in MDIB at that version'})
                break
    ctx.case(('periodic-loop', mdib_file, arg['rounds']))
    ctx.case(('periodic-loop', arg['i'], len(captured) > 0))
    world.stop()


def run(ctx: core.Ctx):
    ctx.rule = ('truth: seeded histories x {sync, async manager} x 4 sample MDIBs, 2 subscribers with different filters, every committed transaction '
                'compared with the snapshot diff; schema: every distinct message on the wire validated; order: writer-observed lock-granularity '
                'exploration {7 kinds}^2 x points x k foreign transactions + writer thread stress; periodic store walked after every commit. '
                'distinct = op-shape sequence resp. (writer op, foreign op, point, k)')
    q = ctx.quick
    jobs = [['w_truth', {'i': k, 'n': 2 if q else 24, 'len': 40 if q else 120}] for k in range(8 if q else 16)]
    jobs += [['w_order_stress', {'i': k, 'writers': 2 + k % 3 * 2, 'ops': 60 if q else 600}] for k in range(4 if q else 16)]
    jobs += [['w_order_explore', {'i': k, 'k': 1 + k % 2}] for k in range(2 if q else 8)]
    jobs += [['w_periodic_retrievability', {'i': k, 'rounds': 15 if q else 150}] for k in range(4 if q else 8)]
    jobs += [['w_poison', {'i': k, 'n': 4 if q else 40}] for k in range(2 if q else 8)]
    jobs += [['w_order_realsocket', {'i': k, 'writers': 2 + k % 3, 'ops': 40 if q else 400}] for k in range(4 if q else 8)]
    core.fanout(ctx, MODULE, 'dispatch', jobs, timeout=3000)
    ctx.floor('order.real.notifications', 200)
    ctx.floor('order.real.final_mirror_checked', 4)
    ctx.floor('periodic.loop.states_checked', 100)
    ctx.floor('schema.poison.worlds', 8)
    ctx.floor('periodic.loop.injected_transactions', 20)
    ctx.floor('truth.transactions', 400)
    ctx.floor('truth.states_checked', 1000)
    ctx.floor('truth.descriptors_checked', 50)
    ctx.floor('schema.messages_validated', 500)
    ctx.floor('order.notifications', 300)
    ctx.floor('order.explore_runs', 49)
    ctx.floor('periodic.store_states_checked', 200)
    ctx.floor('periodic.wire_states_checked', 50)


def dispatch(ctx: core.Ctx, job):
    globals()[job[0]](ctx, job[1])
