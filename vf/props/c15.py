"""C15 - discovery datagrams are retransmitted within the SOAP-over-UDP time envelope.

The real NetworkingThread (fake sockets, virtual clock, enumerating random source) is driven and the entries it puts on
its real priority queue / the datagrams its real send loop transmits are checked against the formulas of the statement.
"""
from __future__ import annotations

import itertools
import threading

from lxml import etree

from .. import core
from ..wsdharness import EnumRandom, VClock, mk_networking_thread

MODULE = 'vf.props.c15'
EPS = 2e-6  # float resolution of epoch seconds (~2.4e-7 at 1.79e9)


class WsdStub:
    def __init__(self):
        self.handled = []
        self.sentinel = threading.Event()

    def handle_received_message(self, received_message, addr):
        mid = received_message.p_msg.header_info_block.MessageID
        self.handled.append(mid)
        if mid == 'urn:uuid:sentinel':
            self.sentinel.set()


class DomainRandom(EnumRandom):
    """records the domains the code asks for; returns the dictated value if inside the domain, else the lower bound."""

    def __init__(self):
        super().__init__()
        self.outside = 0

    def randint(self, a, b):
        self.calls.append(('randint', a, b))
        v = self.randint_value
        if a <= v <= b:
            return v
        self.outside += 1
        return a

    def randrange(self, a, b=None):
        if b is None:
            a, b = 0, a
        self.calls.append(('randrange', a, b))
        v = self.randrange_value
        if a <= v < b:
            return v
        self.outside += 1
        return a


def _mk_msg(i=0):
    from sdc11073.wsdiscovery.wsdimpl import _mk_wsd_soap_message, ADDRESS_ALL
    from sdc11073.xml_types import wsd_types
    from sdc11073.xml_types.addressing_types import HeaderInformationBlock
    payload = wsd_types.ResolveType()
    payload.EndpointReference.Address = f'urn:uuid:epr-{i}'
    inf = HeaderInformationBlock(action=payload.action, addr_to=ADDRESS_ALL)
    return _mk_wsd_soap_message(inf, payload)


def _check_schedule(ctx, params, pname, now, entries, draws):
    """entries: list of (send_time, repeat_index) in queue order.  Returns a shape key."""
    n = len(entries)
    if n != 1 + params.repeat:
        ctx.witness(f'enqueue.count.{pname}', f'{n} transmissions scheduled instead of 1 + repeat = {1 + params.repeat}',
                    {'params': repr(params), 'draws': draws, 'entries': entries})
        return None
    idx = [e[1] for e in entries]
    if idx != list(range(1, n + 1)):
        ctx.witness(f'enqueue.repeat_index.{pname}', 'repetition indices are not 1..n in send order', {'draws': draws, 'entries': entries})
    times = [e[0] for e in entries]
    first = times[0] - now
    if not (-EPS <= first <= params.max_initial_delay_ms / 1000.0 + EPS):
        ctx.witness(f'enqueue.initial_delay.{pname}', 'first transmission delayed outside [0, max_initial_delay]',
                    {'draws': draws, 'delay_s': first, 'max_ms': params.max_initial_delay_ms})
    gaps = [times[i + 1] - times[i] for i in range(n - 1)]
    if gaps:
        if not (params.min_delay_ms / 1000.0 - EPS <= gaps[0] <= params.max_delay_ms / 1000.0 + EPS):
            ctx.witness(f'enqueue.first_gap.{pname}', 'first gap outside the configured [min_delay, max_delay] window',
                        {'draws': draws, 'gap_s': gaps[0], 'window_ms': [params.min_delay_ms, params.max_delay_ms]})
        upper = params.upper_delay_ms / 1000.0
        for i in range(len(gaps) - 1):
            want = min(2 * gaps[i], upper)
            if abs(gaps[i + 1] - want) > 3 * EPS:
                kind = 'upper_delay_exceeded' if gaps[i + 1] > upper + 3 * EPS else 'not_doubled'
                ctx.witness(f'enqueue.gap_{kind}.{pname}',
                            f'gap {i + 2} is {gaps[i + 1]:.4f}s, expected min(2*{gaps[i]:.4f}, upper_delay={upper}) = {want:.4f}s',
                            {'draws': draws, 'gaps_s': gaps, 'upper_delay_ms': params.upper_delay_ms})
                break
    return tuple(round(g, 4) for g in gaps)


def w_enumerate(ctx: core.Ctx, arg):
    """exhaustive over both random draws for one parameter set and a slice of the initial-delay domain."""
    from sdc11073.wsdiscovery import networkingthread as nt
    pname = arg['params']
    params = getattr(nt, pname)
    clock = VClock()
    rnd = DomainRandom()
    thread = mk_networking_thread(WsdStub(), clock, rnd)
    msg = nt.OutgoingMessage(_mk_msg(), '239.255.255.250', 3702)
    # dry run: learn which domains the code draws from
    rnd.calls.clear()
    thread._repeated_enqueue_msg(msg, params)
    while not thread._send_queue.empty():
        thread._send_queue.get()
    calls = list(rnd.calls)
    rnd.outside = 0
    ctx.extra[f'draw_domains_{pname}'] = [list(c) for c in calls]
    if len(calls) != 2:
        ctx.witness(f'enqueue.draws.{pname}', f'expected two random draws (initial delay, first gap), saw {calls}', {'calls': calls})
        return
    doms = []
    for kind, a, b in calls:
        doms.append(range(a, b + 1) if kind == 'randint' else range(a, b))
    if len(doms[0]) * len(doms[1]) > 4_000_000:
        ctx.not_decided(f'draw domains too large to enumerate: {calls}')
        return
    lo, hi = arg['slice']
    d0 = [v for i, v in enumerate(doms[0]) if lo <= i * 16 // max(len(doms[0]), 1) < hi] if arg.get('split') else list(doms[0])
    first = True
    for v0 in d0:
        for v1 in doms[1]:
            # which call is randint / randrange decides which field carries the value
            for (kind, a, b), v in zip(calls, (v0, v1)):
                if kind == 'randint':
                    rnd.randint_value = v
                else:
                    rnd.randrange_value = v
            if calls[0][0] == calls[1][0]:
                ctx.not_decided('both draws use the same random function; harness cannot dictate them independently')
                return
            now = clock.time()
            thread._repeated_enqueue_msg(msg, params)
            entries = []
            while not thread._send_queue.empty():
                e = thread._send_queue.get()
                entries.append((e.send_time, e.repeat))
            ctx.count(f'enqueue.cases.{pname}')
            shape = _check_schedule(ctx, params, pname, now, entries, {'initial': v0, 'first_gap': v1})
            ctx.case((pname, v0, v1), n=1)
            if first and shape is not None:
                ctx.sample({'params': pname, 'draws': {'initial_delay_ms': v0, 'first_gap_ms': v1}, 'now': now,
                            'scheduled_offsets_s': [round(t - now, 4) for t, _ in entries]})
                first = False
    if rnd.outside:
        ctx.not_decided(f'random stub was asked outside the learned domain {rnd.outside} times (non-deterministic draw pattern)')


def w_sendloop(ctx: core.Ctx, arg):
    """real _run_send on virtual time: every message is transmitted exactly 1+repeat times, at its scheduled times, in order."""
    from sdc11073.wsdiscovery import networkingthread as nt
    rng = ctx.rng('send', arg['i'])
    for case in range(arg['n']):
        clock = VClock(1_790_000_000.0 + rng.random() * 1000)
        rnd = DomainRandom()
        thread = mk_networking_thread(WsdStub(), clock, rnd)
        k = rng.randrange(1, 6)
        scheduled = {}
        for j in range(k):
            params = rng.choice([nt.UNICAST_REPEAT_PARAMS, nt.MULTICAST_REPEAT_PARAMS])
            rnd.randint_value = rng.randrange(0, params.max_initial_delay_ms + 1)
            rnd.randrange_value = rng.randrange(params.min_delay_ms, params.max_delay_ms)
            cm = _mk_msg(j)
            mid = cm.p_msg.header_info_block.MessageID
            thread.add_outbound_message(cm, f'10.0.0.{j}', 3702 + j, params)
            new = [e for e in thread._send_queue.queue if e.msg.created_message is cm]
            scheduled[mid] = {'params': params, 'times': sorted(e.send_time for e in new), 'addr': (f'10.0.0.{j}', 3702 + j)}
            clock.sleep(rng.choice([0, 0, 0.003, 0.2, 1.5]))
        thread._quit_send_event.set()  # loop drains the queue and returns
        steps0 = clock.sleeps
        loop_start = clock.time()
        thread._run_send()
        ctx.count('sendloop.runs')
        sock = thread.multi_out_uni_in_out
        got = {}
        for t, data, addr in sock.sent:
            mid = etree.fromstring(data).find('.//{http://www.w3.org/2005/08/addressing}MessageID').text
            got.setdefault(mid, []).append((t, addr))
        for mid, info in scheduled.items():
            params = info['params']
            sent = got.get(mid, [])
            ctx.count('sendloop.messages')
            if len(sent) != 1 + params.repeat:
                ctx.witness('sendloop.count', f'message transmitted {len(sent)} times instead of 1 + repeat = {1 + params.repeat}',
                            {'scheduled': info['times'], 'sent': sent})
                continue
            for (t, addr), want in zip(sent, info['times']):
                if addr != info['addr']:
                    ctx.witness('sendloop.addr', 'datagram sent to the wrong address', {'addr': addr, 'want': info['addr']})
                if not (want - EPS <= t <= max(want, loop_start) + nt.SEND_LOOP_BUSY_SLEEP + nt.SEND_LOOP_IDLE_SLEEP + EPS):
                    ctx.witness('sendloop.time', 'datagram transmitted before its scheduled time or later than one loop raster after it',
                                {'sent_at': t, 'scheduled': want})
        if set(got) - set(scheduled):
            ctx.witness('sendloop.foreign', 'send loop transmitted something that was never queued', {'ids': sorted(set(got) - set(scheduled))})
        ctx.case(('send', k, tuple(sorted(len(v['times']) for v in scheduled.values())), clock.sleeps - steps0 > 50))
        if case == 0:
            ctx.sample({'kind': 'send loop', 'messages': k, 'transmissions': {m: [round(t - clock.now, 3) for t, _ in v] for m, v in got.items()}})


def w_loopback(ctx: core.Ctx, arg):
    """Own datagrams looped back by multicast are ignored by the real _run_q_read; foreign ones are handled once."""
    from sdc11073.wsdiscovery import networkingthread as nt
    from sdc11073.wsdiscovery.wsdimpl import WSDiscovery
    from sdc11073.xml_types import wsd_types
    from sdc11073.namespaces import default_ns_helper as nsh
    rng = ctx.rng('loop', arg['i'])
    for case in range(arg['n']):
        clock = VClock()
        rnd = DomainRandom()
        stub = WsdStub()
        thread = mk_networking_thread(stub, clock, rnd)
        wsd = WSDiscovery('127.0.0.1')
        wsd._networking_thread = thread
        wsd._server_started = True
        own_kinds = []
        # hook at the moment a transmission is put on the send queue: from now on the send thread may transmit it and multicast may loop
        # it back - the id of the message must already be among the ids the node ignores
        enqueued_unknown = []
        real_put = thread._send_queue.put

        def watched_put(item, *a, _real=real_put, **k):
            mid = item.msg.created_message.p_msg.header_info_block.MessageID
            ctx.count('loopback.enqueue_hook')
            if item.repeat == 1 and mid not in thread._known_message_ids:
                enqueued_unknown.append(mid)
            return _real(item, *a, **k)
        thread._send_queue.put = watched_put
        # history of the node: it has already seen `prefill` distinct foreign messages (the memory of known ids holds 200)
        prefill = rng.choice([0, 0, 150, 198, 199, 200, 201, 260])
        if prefill:
            pre_sentinel = _mk_msg(7777)
            pre_sentinel.p_msg.header_info_block.MessageID = 'urn:uuid:sentinel'
            for j in range(prefill):
                thread._read_queue.put((('10.0.0.2', 3702), _mk_msg(50000 + j).serialize()))
            thread._read_queue.put((('10.0.0.2', 3702), pre_sentinel.serialize()))
            th0 = threading.Thread(target=thread._run_q_read, daemon=True)
            th0.start()
            ok0 = stub.sentinel.wait(60)
            thread._quit_recv_event.set()
            th0.join(5)
            thread._quit_recv_event.clear()
            stub.sentinel.clear()
            try:
                thread._known_message_ids.remove('urn:uuid:sentinel')  # the end marker is reused below
            except ValueError:
                pass
            stub.handled.clear()
            if not ok0:
                ctx.not_decided('q-read loop did not reach the prefill sentinel')
                continue
            ctx.count('loopback.prefilled_runs')
        for j in range(rng.randrange(1, 8)):
            rnd.randint_value = rng.randrange(0, 501)
            rnd.randrange_value = rng.randrange(50, 250)
            kind = rng.choice(['hello', 'probe', 'resolve', 'bye', 'probematch', 'resolvematch'])
            own_kinds.append(kind)
            epr = f'urn:uuid:own-{case}-{j}'
            scopes = wsd_types.ScopesType(f'sdc.ctxt.loc:/sdc.ctxt.loc.detail/x?fac=f{j}')
            if kind in ('hello', 'bye', 'probematch', 'resolvematch'):
                wsd.publish_service(epr, [nsh.DPWS.tag('Device')], scopes, ['http://127.0.0.1:1234/x'])
                svc = wsd._local_services[epr]
                if kind == 'bye':
                    wsd.clear_service(epr)
                elif kind == 'probematch':
                    wsd._send_probe_match([svc], 'urn:uuid:rel', ('10.0.0.9', 3702))
                elif kind == 'resolvematch':
                    wsd._send_resolve_match(svc, 'urn:uuid:rel', ('10.0.0.9', 3702))
            elif kind == 'probe':
                wsd._send_probe([nsh.DPWS.tag('Device')], scopes)
            else:
                wsd._send_resolve(epr)
        # transient send errors: some transmissions fail (ENETUNREACH), the repetitions that do leave the node are looped back
        sock0 = thread.multi_out_uni_in_out
        fail_every = rng.choice([0, 0, 2, 3])
        if fail_every:
            orig_sendto = sock0.sendto
            state = {'n': 0}

            def flaky_sendto(data, addr, _orig=orig_sendto, _state=state):
                _state['n'] += 1
                if _state['n'] % fail_every == 1:
                    ctx.count('loopback.send_errors_injected')
                    raise OSError(101, 'Network is unreachable')
                return _orig(data, addr)
            sock0.sendto = flaky_sendto
        thread._quit_send_event.set()
        thread._run_send()
        own = thread.multi_out_uni_in_out.sent
        own_ids = set()
        feed = []
        per_msg = {}
        for t, data, addr in own:
            root = etree.fromstring(data)
            mid = root.find('.//{http://www.w3.org/2005/08/addressing}MessageID').text
            own_ids.add(mid)
            feed.append(data)
            rec = per_msg.setdefault(mid, {'n': 0, 'addr': addr, 'action': root.find('.//{http://www.w3.org/2005/08/addressing}Action').text.rsplit('/', 1)[-1]})
            rec['n'] += 1
        if enqueued_unknown:
            ctx.witness('loopback.own_message_handled.enqueue_window', 'a message was put on the send queue before its id was registered as known: '
                        'transmitted at once and looped back by multicast it is handled as a foreign message', {'kinds': own_kinds, 'ids': enqueued_unknown[:3]})
        if not fail_every:
            # every message type: 1 + repeat transmissions, repeat = the value configured for its kind of destination (multicast group / unicast peer)
            for mid, rec in per_msg.items():
                multicast = rec['addr'][0] == '239.255.255.250'
                want = 1 + (nt.MULTICAST_REPEAT_PARAMS if multicast else nt.UNICAST_REPEAT_PARAMS).repeat
                ctx.count(f'wsd.transmissions_checked.{rec["action"]}.{"multicast" if multicast else "unicast"}')
                if rec['n'] != want:
                    ctx.witness(f'wsd.count.{rec["action"]}', f'{rec["action"]} to a {"multicast" if multicast else "unicast"} destination was transmitted '
                                f'{rec["n"]} times, configured: 1 + {want - 1}', {'kinds': own_kinds, 'destination': list(rec['addr'])})
        ctx.count('loopback.own_datagrams', len(feed))
        # foreign messages: fresh ids, some duplicated
        foreign_ids = []
        nforeign = rng.randrange(1, 6)
        for j in range(nforeign):
            cm = _mk_msg(1000 + j)
            data = cm.serialize()
            mid = cm.p_msg.header_info_block.MessageID
            foreign_ids.append(mid)
            feed.extend([data] * rng.randrange(1, 4))
        rng.shuffle(feed)
        sentinel = _mk_msg(9999)
        sentinel.p_msg.header_info_block.MessageID = 'urn:uuid:sentinel'
        feed.append(sentinel.serialize())
        for data in feed:
            thread._read_queue.put((('10.0.0.1', 3702), data))
        th = threading.Thread(target=thread._run_q_read, daemon=True)
        th.start()
        ok = stub.sentinel.wait(30)
        thread._quit_recv_event.set()
        th.join(5)
        if not ok:
            ctx.not_decided('q-read loop did not reach the sentinel within the watchdog')
            continue
        handled = [m for m in stub.handled if m != 'urn:uuid:sentinel']
        ctx.count('loopback.runs')
        back = [m for m in handled if m in own_ids]
        if back:
            ctx.witness('loopback.own_message_handled', 'a datagram the node sent itself was handled when looped back',
                        {'kinds': own_kinds, 'ids': back[:3]})
        for mid in foreign_ids:
            c = handled.count(mid)
            ctx.count('loopback.foreign_ids')
            if c != 1:
                ctx.witness('loopback.foreign_dup' if c > 1 else 'loopback.foreign_lost',
                            f'foreign message id handled {c} times (expected once; fewer than 200 ids in the window)', {'id': mid})
        ctx.case(('loop', tuple(sorted(own_kinds)), nforeign, prefill))
        if case == 0:
            ctx.sample({'kind': 'loop-back', 'own_kinds': own_kinds, 'own_datagrams': len(own), 'foreign': nforeign, 'handled': len(handled)})


def run(ctx: core.Ctx):
    ctx.rule = ('(1) exhaustive: every pair (initial-delay draw, first-gap draw) of the domains the code itself asks its random source for, for '
                'UNICAST_REPEAT_PARAMS and MULTICAST_REPEAT_PARAMS; distinct = the pair; (2) real send loop on a virtual clock, seeded '
                'message sets; (3) loop-back of own datagrams through the real q-read loop; non-trivial = at least one entry scheduled')
    jobs = []
    for pname in ('UNICAST_REPEAT_PARAMS', 'MULTICAST_REPEAT_PARAMS'):
        for k in range(8):
            jobs.append(['w_enumerate', {'params': pname, 'slice': [2 * k, 2 * k + 2], 'split': True}])
    for k in range(4 if ctx.quick else 16):
        jobs.append(['w_sendloop', {'i': k, 'n': 50 if ctx.quick else 1250}])
    for k in range(4 if ctx.quick else 16):
        jobs.append(['w_loopback', {'i': k, 'n': 12 if ctx.quick else 100}])
    core.fanout(ctx, MODULE, 'dispatch', jobs)
    ctx.exhaustive = True
    ctx.extra['exhaustive_part'] = 'both random draws of _repeated_enqueue_msg (sub-check 1); send loop and loop-back are sampled'
    # the domains must be the ones the statement configures
    from sdc11073.wsdiscovery import networkingthread as nt
    for pname in ('UNICAST_REPEAT_PARAMS', 'MULTICAST_REPEAT_PARAMS'):
        p = getattr(nt, pname)
        doms = ctx.extra.get(f'draw_domains_{pname}')
        if doms and len(doms) == 2:
            size = (doms[0][2] - doms[0][1] + (1 if doms[0][0] == 'randint' else 0)) * (doms[1][2] - doms[1][1] + (1 if doms[1][0] == 'randint' else 0))
            ctx.floor(f'enqueue.cases.{pname}', size)
    ctx.floor('sendloop.messages', 100)
    ctx.floor('loopback.own_datagrams', 50)
    ctx.floor('loopback.foreign_ids', 20)
    ctx.floor('loopback.prefilled_runs', 8)
    ctx.floor('loopback.send_errors_injected', 10)
    ctx.assumptions += ['time and random are looked up as module globals of networkingthread (replaced by a virtual clock / enumerating stub)',
                        'sockets and selectors are fakes; the kernel UDP path is not exercised']


def dispatch(ctx: core.Ctx, job):
    globals()[job[0]](ctx, job[1])
