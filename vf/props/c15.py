"""C15 - discovery datagrams are retransmitted within the SOAP-over-UDP time envelope.

The real NetworkingThread (fake sockets, virtual clock, enumerating random source) is driven and the entries it puts on
its real priority queue / the datagrams its real send loop transmits are checked against the formulas of the statement.
"""
from __future__ import annotations

import collections
import os
import threading

from lxml import etree

from .. import core
from .. import c15_sim
from ..c15_sim import MC, ID_WINDOW, Sim, SimClock, SimRandom, id_known, mk_node
from ..wsdharness import EnumRandom, VClock, mk_networking_thread

MODULE = 'vf.props.c15'
EPS = 2e-6  # float resolution of epoch seconds (~2.4e-7 at 1.79e9)


class WsdStub:
    def __init__(self):
        self.handled = []
        self.sentinel = threading.Event()

    def handle_received_message(self, received_message, addr):
        mid = received_message.p_msg.header_info_block.MessageID
        self.handled.append(mid)
        if mid == 'urn:uuid:sentinel':
            self.sentinel.set()


class DomainRandom(EnumRandom):
    """records the domains the code asks for; returns the dictated value if inside the domain, else the lower bound."""

    def __init__(self):
        super().__init__()
        self.outside = 0

    def randint(self, a, b):
        self.calls.append(('randint', a, b))
        v = self.randint_value
        if a <= v <= b:
            return v
        self.outside += 1
        return a

    def randrange(self, a, b=None):
        if b is None:
            a, b = 0, a
        self.calls.append(('randrange', a, b))
        v = self.randrange_value
        if a <= v < b:
            return v
        self.outside += 1
        return a


def _mk_msg(i=0):
    from sdc11073.wsdiscovery.wsdimpl import _mk_wsd_soap_message, ADDRESS_ALL
    from sdc11073.xml_types import wsd_types
    from sdc11073.xml_types.addressing_types import HeaderInformationBlock
    payload = wsd_types.ResolveType()
    payload.EndpointReference.Address = f'urn:uuid:epr-{i}'
    inf = HeaderInformationBlock(action=payload.action, addr_to=ADDRESS_ALL)
    return _mk_wsd_soap_message(inf, payload)


def _check_schedule(ctx, params, pname, now, entries, draws):
    """entries: list of (send_time, repeat_index) in queue order.  Returns a shape key."""
    n = len(entries)
    if n != 1 + params.repeat:
        ctx.witness(f'enqueue.count.{pname}', f'{n} transmissions scheduled instead of 1 + repeat = {1 + params.repeat}',
                    {'params': repr(params), 'draws': draws, 'entries': entries})
        return None
    idx = [e[1] for e in entries]
    if idx != list(range(1, n + 1)):
        ctx.witness(f'enqueue.repeat_index.{pname}', 'repetition indices are not 1..n in send order', {'draws': draws, 'entries': entries})
    times = [e[0] for e in entries]
    first = times[0] - now
    if not (-EPS <= first <= params.max_initial_delay_ms / 1000.0 + EPS):
        ctx.witness(f'enqueue.initial_delay.{pname}', 'first transmission delayed outside [0, max_initial_delay]',
                    {'draws': draws, 'delay_s': first, 'max_ms': params.max_initial_delay_ms})
    gaps = [times[i + 1] - times[i] for i in range(n - 1)]
    if gaps:
        if not (params.min_delay_ms / 1000.0 - EPS <= gaps[0] <= params.max_delay_ms / 1000.0 + EPS):
            ctx.witness(f'enqueue.first_gap.{pname}', 'first gap outside the configured [min_delay, max_delay] window',
                        {'draws': draws, 'gap_s': gaps[0], 'window_ms': [params.min_delay_ms, params.max_delay_ms]})
        upper = params.upper_delay_ms / 1000.0
        for i in range(len(gaps) - 1):
            want = min(2 * gaps[i], upper)
            if abs(gaps[i + 1] - want) > 3 * EPS:
                kind = 'upper_delay_exceeded' if gaps[i + 1] > upper + 3 * EPS else 'not_doubled'
                ctx.witness(f'enqueue.gap_{kind}.{pname}',
                            f'gap {i + 2} is {gaps[i + 1]:.4f}s, expected min(2*{gaps[i]:.4f}, upper_delay={upper}) = {want:.4f}s',
                            {'draws': draws, 'gaps_s': gaps, 'upper_delay_ms': params.upper_delay_ms})
                break
    return tuple(round(g, 4) for g in gaps)


def w_enumerate(ctx: core.Ctx, arg):
    """exhaustive over both random draws for one parameter set and a slice of the initial-delay domain."""
    from sdc11073.wsdiscovery import networkingthread as nt
    pname = arg['params']
    params = getattr(nt, pname)
    clock = VClock()
    rnd = DomainRandom()
    thread = mk_networking_thread(WsdStub(), clock, rnd)
    msg = nt.OutgoingMessage(_mk_msg(), '239.255.255.250', 3702)
    # dry run: learn which domains the code draws from
    rnd.calls.clear()
    thread._repeated_enqueue_msg(msg, params)
    while not thread._send_queue.empty():
        thread._send_queue.get()
    calls = list(rnd.calls)
    rnd.outside = 0
    ctx.extra[f'draw_domains_{pname}'] = [list(c) for c in calls]
    if len(calls) != 2:
        ctx.witness(f'enqueue.draws.{pname}', f'expected two random draws (initial delay, first gap), saw {calls}', {'calls': calls})
        return
    doms = []
    for kind, a, b in calls:
        doms.append(range(a, b + 1) if kind == 'randint' else range(a, b))
    if len(doms[0]) * len(doms[1]) > 4_000_000:
        ctx.not_decided(f'draw domains too large to enumerate: {calls}')
        return
    lo, hi = arg['slice']
    d0 = [v for i, v in enumerate(doms[0]) if lo <= i * 16 // max(len(doms[0]), 1) < hi] if arg.get('split') else list(doms[0])
    first = True
    for v0 in d0:
        for v1 in doms[1]:
            # which call is randint / randrange decides which field carries the value
            for (kind, a, b), v in zip(calls, (v0, v1)):
                if kind == 'randint':
                    rnd.randint_value = v
                else:
                    rnd.randrange_value = v
            if calls[0][0] == calls[1][0]:
                ctx.not_decided('both draws use the same random function; harness cannot dictate them independently')
                return
            now = clock.time()
            thread._repeated_enqueue_msg(msg, params)
            entries = []
            while not thread._send_queue.empty():
                e = thread._send_queue.get()
                entries.append((e.send_time, e.repeat))
            ctx.count(f'enqueue.cases.{pname}')
            shape = _check_schedule(ctx, params, pname, now, entries, {'initial': v0, 'first_gap': v1})
            ctx.case((pname, v0, v1), n=1)
            if first and shape is not None:
                ctx.sample({'params': pname, 'draws': {'initial_delay_ms': v0, 'first_gap_ms': v1}, 'now': now,
                            'scheduled_offsets_s': [round(t - now, 4) for t, _ in entries]})
                first = False
    if rnd.outside:
        ctx.not_decided(f'random stub was asked outside the learned domain {rnd.outside} times (non-deterministic draw pattern)')


def w_sendloop(ctx: core.Ctx, arg):
    """real _run_send on virtual time: every message is transmitted exactly 1+repeat times, at its scheduled times, in order."""
    from sdc11073.wsdiscovery import networkingthread as nt
    rng = ctx.rng('send', arg['i'])
    for case in range(arg['n']):
        clock = VClock(1_790_000_000.0 + rng.random() * 1000)
        rnd = DomainRandom()
        thread = mk_networking_thread(WsdStub(), clock, rnd)
        k = rng.randrange(1, 6)
        scheduled = {}
        for j in range(k):
            params = rng.choice([nt.UNICAST_REPEAT_PARAMS, nt.MULTICAST_REPEAT_PARAMS])
            rnd.randint_value = rng.randrange(0, params.max_initial_delay_ms + 1)
            rnd.randrange_value = rng.randrange(params.min_delay_ms, params.max_delay_ms)
            cm = _mk_msg(j)
            mid = cm.p_msg.header_info_block.MessageID
            thread.add_outbound_message(cm, f'10.0.0.{j}', 3702 + j, params)
            new = [e for e in thread._send_queue.queue if e.msg.created_message is cm]
            scheduled[mid] = {'params': params, 'times': sorted(e.send_time for e in new), 'addr': (f'10.0.0.{j}', 3702 + j)}
            clock.sleep(rng.choice([0, 0, 0.003, 0.2, 1.5]))
        thread._quit_send_event.set()  # loop drains the queue and returns
        steps0 = clock.sleeps
        loop_start = clock.time()
        thread._run_send()
        ctx.count('sendloop.runs')
        sock = thread.multi_out_uni_in_out
        got = {}
        for t, data, addr in sock.sent:
            mid = etree.fromstring(data).find('.//{http://www.w3.org/2005/08/addressing}MessageID').text
            got.setdefault(mid, []).append((t, addr))
        for mid, info in scheduled.items():
            params = info['params']
            sent = got.get(mid, [])
            ctx.count('sendloop.messages')
            if len(sent) != 1 + params.repeat:
                ctx.witness('sendloop.count', f'message transmitted {len(sent)} times instead of 1 + repeat = {1 + params.repeat}',
                            {'scheduled': info['times'], 'sent': sent})
                continue
            for (t, addr), want in zip(sent, info['times']):
                if addr != info['addr']:
                    ctx.witness('sendloop.addr', 'datagram sent to the wrong address', {'addr': addr, 'want': info['addr']})
                if not (want - EPS <= t <= max(want, loop_start) + nt.SEND_LOOP_BUSY_SLEEP + nt.SEND_LOOP_IDLE_SLEEP + EPS):
                    ctx.witness('sendloop.time', 'datagram transmitted before its scheduled time or later than one loop raster after it',
                                {'sent_at': t, 'scheduled': want})
        if set(got) - set(scheduled):
            ctx.witness('sendloop.foreign', 'send loop transmitted something that was never queued', {'ids': sorted(set(got) - set(scheduled))})
        ctx.case(('send', k, tuple(sorted(len(v['times']) for v in scheduled.values())), clock.sleeps - steps0 > 50))
        if case == 0:
            ctx.sample({'kind': 'send loop', 'messages': k, 'transmissions': {m: [round(t - clock.now, 3) for t, _ in v] for m, v in got.items()}})


def w_loopback(ctx: core.Ctx, arg):
    """Own datagrams looped back by multicast are ignored by the real _run_q_read; foreign ones are handled once."""
    from sdc11073.wsdiscovery import networkingthread as nt
    from sdc11073.wsdiscovery.wsdimpl import WSDiscovery
    from sdc11073.xml_types import wsd_types
    from sdc11073.namespaces import default_ns_helper as nsh
    rng = ctx.rng('loop', arg['i'])
    for case in range(arg['n']):
        clock = VClock()
        rnd = DomainRandom()
        stub = WsdStub()
        thread = mk_networking_thread(stub, clock, rnd)
        wsd = WSDiscovery('127.0.0.1')
        wsd._networking_thread = thread
        wsd._server_started = True
        own_kinds = []
        # hook at the moment a transmission is put on the send queue: from now on the send thread may transmit it and multicast may loop
        # it back - the id of the message must already be among the ids the node ignores
        enqueued_unknown = []
        real_put = thread._send_queue.put

        def watched_put(item, *a, _real=real_put, **k):
            mid = item.msg.created_message.p_msg.header_info_block.MessageID
            ctx.count('loopback.enqueue_hook')
            if item.repeat == 1 and not id_known(thread, mid):
                enqueued_unknown.append(mid)
            return _real(item, *a, **k)
        thread._send_queue.put = watched_put
        # history of the node: it has already seen `prefill` distinct foreign messages (the memory of known ids holds 200)
        prefill = rng.choice([0, 0, 150, 198, 199, 200, 201, 260])
        if prefill:
            pre_sentinel = _mk_msg(7777)
            pre_sentinel.p_msg.header_info_block.MessageID = 'urn:uuid:sentinel'
            for j in range(prefill):
                thread._read_queue.put((('10.0.0.2', 3702), _mk_msg(50000 + j).serialize()))
            thread._read_queue.put((('10.0.0.2', 3702), pre_sentinel.serialize()))
            th0 = threading.Thread(target=thread._run_q_read, daemon=True)
            th0.start()
            ok0 = stub.sentinel.wait(60)
            thread._quit_recv_event.set()
            th0.join(5)
            thread._quit_recv_event.clear()
            stub.sentinel.clear()
            try:
                thread._known_message_ids.remove('urn:uuid:sentinel')  # the end marker is reused below
            except ValueError:
                pass
            stub.handled.clear()
            if not ok0:
                ctx.not_decided('q-read loop did not reach the prefill sentinel')
                continue
            ctx.count('loopback.prefilled_runs')
        for j in range(rng.randrange(1, 8)):
            rnd.randint_value = rng.randrange(0, 501)
            rnd.randrange_value = rng.randrange(50, 250)
            kind = rng.choice(['hello', 'probe', 'resolve', 'bye', 'probematch', 'resolvematch'])
            own_kinds.append(kind)
            epr = f'urn:uuid:own-{case}-{j}'
            scopes = wsd_types.ScopesType(f'sdc.ctxt.loc:/sdc.ctxt.loc.detail/x?fac=f{j}')
            if kind in ('hello', 'bye', 'probematch', 'resolvematch'):
                wsd.publish_service(epr, [nsh.DPWS.tag('Device')], scopes, ['http://127.0.0.1:1234/x'])
                svc = wsd._local_services[epr]
                if kind == 'bye':
                    wsd.clear_service(epr)
                elif kind == 'probematch':
                    wsd._send_probe_match([svc], 'urn:uuid:rel', ('10.0.0.9', 3702))
                elif kind == 'resolvematch':
                    wsd._send_resolve_match(svc, 'urn:uuid:rel', ('10.0.0.9', 3702))
            elif kind == 'probe':
                wsd._send_probe([nsh.DPWS.tag('Device')], scopes)
            else:
                wsd._send_resolve(epr)
        # the application keeps using the node between the enqueue and the loop-back (own rng: the cases above stay what they were)
        arng = ctx.rng('loopapi', arg['i'], case)
        for api in arng.sample(['clear_remote', 'callbacks', 'found', 'clear_local', None, None], arng.randrange(0, 3)):
            if api == 'clear_remote':
                wsd.clear_remote_services()
            elif api == 'callbacks':
                wsd.set_remote_service_hello_callback(None)
                wsd.set_remote_service_bye_callback(None)
            elif api == 'found':
                wsd.get_found_remote_services()
            elif api == 'clear_local':
                wsd.clear_local_services()
            if api:
                ctx.count('loopback.api_between_enqueue_and_loopback')
        # transient send errors: some transmissions fail (ENETUNREACH), the repetitions that do leave the node are looped back
        sock0 = thread.multi_out_uni_in_out
        fail_every = rng.choice([0, 0, 2, 3])
        if fail_every:
            orig_sendto = sock0.sendto
            state = {'n': 0}

            def flaky_sendto(data, addr, _orig=orig_sendto, _state=state):
                _state['n'] += 1
                if _state['n'] % fail_every == 1:
                    ctx.count('loopback.send_errors_injected')
                    raise OSError(101, 'Network is unreachable')
                return _orig(data, addr)
            sock0.sendto = flaky_sendto
        thread._quit_send_event.set()
        thread._run_send()
        own = thread.multi_out_uni_in_out.sent
        own_ids = set()
        feed = []
        per_msg = {}
        for t, data, addr in own:
            root = etree.fromstring(data)
            mid = root.find('.//{http://www.w3.org/2005/08/addressing}MessageID').text
            own_ids.add(mid)
            feed.append(data)
            rec = per_msg.setdefault(mid, {'n': 0, 'addr': addr, 'action': root.find('.//{http://www.w3.org/2005/08/addressing}Action').text.rsplit('/', 1)[-1]})
            rec['n'] += 1
        if enqueued_unknown:
            ctx.witness('loopback.own_message_handled.enqueue_window', 'a message was put on the send queue before its id was registered as known: '
                        'transmitted at once and looped back by multicast it is handled as a foreign message', {'kinds': own_kinds, 'ids': enqueued_unknown[:3]})
        if not fail_every:
            # every message type: 1 + repeat transmissions, repeat = the value configured for its kind of destination (multicast group / unicast peer)
            for mid, rec in per_msg.items():
                multicast = rec['addr'][0] == '239.255.255.250'
                want = 1 + (nt.MULTICAST_REPEAT_PARAMS if multicast else nt.UNICAST_REPEAT_PARAMS).repeat
                ctx.count(f'wsd.transmissions_checked.{rec["action"]}.{"multicast" if multicast else "unicast"}')
                if rec['n'] != want:
                    ctx.witness(f'wsd.count.{rec["action"]}', f'{rec["action"]} to a {"multicast" if multicast else "unicast"} destination was transmitted '
                                f'{rec["n"]} times, configured: 1 + {want - 1}', {'kinds': own_kinds, 'destination': list(rec['addr'])})
        ctx.count('loopback.own_datagrams', len(feed))
        # foreign messages: fresh ids, some duplicated
        foreign_ids = []
        nforeign = rng.randrange(1, 6)
        for j in range(nforeign):
            cm = _mk_msg(1000 + j)
            data = cm.serialize()
            mid = cm.p_msg.header_info_block.MessageID
            foreign_ids.append(mid)
            feed.extend([data] * rng.randrange(1, 4))
        rng.shuffle(feed)
        sentinel = _mk_msg(9999)
        sentinel.p_msg.header_info_block.MessageID = 'urn:uuid:sentinel'
        feed.append(sentinel.serialize())
        for data in feed:
            thread._read_queue.put((('10.0.0.1', 3702), data))
        th = threading.Thread(target=thread._run_q_read, daemon=True)
        th.start()
        ok = stub.sentinel.wait(30)
        thread._quit_recv_event.set()
        th.join(5)
        if not ok:
            ctx.not_decided('q-read loop did not reach the sentinel within the watchdog')
            continue
        handled = [m for m in stub.handled if m != 'urn:uuid:sentinel']
        ctx.count('loopback.runs')
        back = [m for m in handled if m in own_ids]
        if back:
            ctx.witness('loopback.own_message_handled', 'a datagram the node sent itself was handled when looped back',
                        {'kinds': own_kinds, 'ids': back[:3]})
        for mid in foreign_ids:
            c = handled.count(mid)
            ctx.count('loopback.foreign_ids')
            if c != 1:
                ctx.witness('loopback.foreign_dup' if c > 1 else 'loopback.foreign_lost',
                            f'foreign message id handled {c} times (expected once; fewer than 200 ids in the window)', {'id': mid})
        ctx.case(('loop', tuple(sorted(own_kinds)), nforeign, prefill))
        if case == 0:
            ctx.sample({'kind': 'loop-back', 'own_kinds': own_kinds, 'own_datagrams': len(own), 'foreign': nforeign, 'handled': len(handled)})


# ---------------------------------------------------------------------------------------------------------------------------------------
# round 4: the envelope in every STATE of the node, and the whole node as a discrete-event run (vf/c15_sim.py)
# ---------------------------------------------------------------------------------------------------------------------------------------
def _params_for(nt, addr):
    """the parameter set configured for the kind of destination, read from the module at the time of the judgement."""
    if addr == MC:
        return 'MULTICAST_REPEAT_PARAMS', nt.MULTICAST_REPEAT_PARAMS
    return 'UNICAST_REPEAT_PARAMS', nt.UNICAST_REPEAT_PARAMS


def _rand_params(nt, rng):
    """a configured parameter set other than the two defaults (min < max <= upper, as in the defaults)."""
    mn = rng.choice([1, 10, 50, 200])
    mx = mn + rng.choice([1, 2, 50, 200, 1000])
    return nt._UdpRepeatParams(rng.choice([0, 1, 50, 500, 1000, 3000]), rng.choice([0, 1, 2, 3, 4, 6]), mn, mx,
                               rng.choice([mx, 2 * mx, mx + 500, 4000]))


def _judge_wire(ctx, nt, params, pname, t_call, entries, txs, detail, count_key='sendloop.count'):
    """txs: times of all transmission attempts of ONE message; entries: what the put-hook saw; t_call: time of the call that created it."""
    raster = nt.SEND_LOOP_BUSY_SLEEP + nt.SEND_LOOP_IDLE_SLEEP
    want = 1 + params.repeat
    if len(txs) != want:
        ctx.witness(count_key, f'message transmitted {len(txs)} times instead of 1 + repeat = {want}',
                    dict(detail, sent_offsets=[round(t - t_call, 4) for t in txs], params=repr(params)))
        return
    sched = sorted(t for t, _ in entries)
    if len(sched) == want:
        for t, s in zip(txs, sched):
            if not (s - EPS <= t <= max(s, t_call) + raster + EPS):
                ctx.witness('sendloop.time', 'datagram transmitted before its scheduled time or later than one loop raster after it',
                            dict(detail, sent_at=t - t_call, scheduled=s - t_call))
                break
    ctx.count('wire.messages')
    first = txs[0] - t_call
    if not (-EPS <= first <= params.max_initial_delay_ms / 1000.0 + raster + EPS):
        ctx.witness(f'wire.initial_delay.{pname}', 'first datagram left the node later than the configured initial delay (+ one loop raster) '
                    'after the call that created the message', dict(detail, delay_s=first, max_ms=params.max_initial_delay_ms))
    gaps = [txs[i + 1] - txs[i] for i in range(len(txs) - 1)]
    if gaps:
        if not (params.min_delay_ms / 1000.0 - raster - EPS <= gaps[0] <= params.max_delay_ms / 1000.0 + raster + EPS):
            ctx.witness(f'wire.first_gap.{pname}', 'first gap on the wire outside the configured window (+- one loop raster)',
                        dict(detail, gap_s=gaps[0], window_ms=[params.min_delay_ms, params.max_delay_ms]))
        upper = params.upper_delay_ms / 1000.0
        for i in range(len(gaps) - 1):
            if abs(gaps[i + 1] - min(2 * gaps[i], upper)) > 3 * raster + EPS:
                ctx.witness(f'wire.gap.{pname}', 'gap on the wire is not min(2 * previous, upper delay) within the loop raster',
                            dict(detail, gaps_s=gaps, upper_delay_ms=params.upper_delay_ms))
                break


STATE_BACKLOGS = [0, 1, 5, 20, 25, 26, 27, 51, 52, 100, 128, 256, 600]


def w_state(ctx: core.Ctx, arg):
    """the schedule of a new message must not depend on the state of the node: backlog of the send queue (entries waiting / already due,
    up to the bound of the queue), memory of known ids, clock epoch, destination, parameter set (the two defaults and other configured
    sets).  Draws: lower bound / upper bound / middle of WHATEVER domain the code asks its random source for in that state."""
    from sdc11073.wsdiscovery import networkingthread as nt
    rng = ctx.rng('state', arg['i'])
    plan = []
    for bi, backlog in enumerate(STATE_BACKLOGS + ([1900] if arg['i'] == 0 else []) + ([1200, 1850] if not ctx.quick else [])):
        for age in ('future', 'due'):
            if (bi + (age == 'due')) % arg['of'] == arg['i'] % arg['of']:
                plan.append((backlog, age))
    serial = 0
    for backlog, age in plan:
        clock = SimClock(rng.choice([1_790_000_000.0, 1_790_000_000.0, 12.5, 4_100_000_000.0]) + rng.random() * 100)
        rnd = SimRandom(rng, 'rand')
        wsd, thread = mk_node(clock, rnd)
        idmem = rng.random() < 0.3
        if idmem:  # the node has a history: its memory of known ids is full (real receive path)
            foreign = c15_sim.Foreign(clock, rnd)
            for j in range(ID_WINDOW + 5):
                thread.multi_in.inbox.append((foreign.make('hello', j)[0], ('10.0.0.7', 3702)))
            while thread.multi_in.inbox:
                thread._recv_messages()
            thread._quit_recv_event.clear()
            thread._run_q_read()
            thread._quit_recv_event.clear()
            ctx.count('state.idmem_full_nodes')
        filler = _mk_msg(999_999)
        for _ in range(backlog):
            thread.add_outbound_message(filler, MC, 3702, nt.MULTICAST_REPEAT_PARAMS)
        if age == 'due':
            clock.now += 5.0
        probes = []
        psets = [('UNICAST_REPEAT_PARAMS', nt.UNICAST_REPEAT_PARAMS), ('MULTICAST_REPEAT_PARAMS', nt.MULTICAST_REPEAT_PARAMS)]
        psets += [('custom', _rand_params(nt, rng)) for _ in range(3)]
        for pname, params in psets:
            for f0 in (0.0, 1.0, 0.5):
                for f1 in (0.0, 1.0, 0.5):
                    rnd.force = (f0, f1)
                    serial += 1
                    cm = _mk_msg(serial)
                    addr = (MC, 3702) if rng.random() < 0.5 else (f'10.0.0.{serial % 250}', 3702 + serial % 7)
                    now = clock.now
                    qsize = thread._send_queue.qsize()
                    if qsize + 64 > thread._send_queue.maxsize > 0:
                        ctx.count('state.skipped_queue_bound')  # put() would block for ever without a running send thread
                        continue
                    rnd.calls.clear()
                    thread.add_outbound_message(cm, addr[0], addr[1], params)
                    entries = sorted((e.send_time, e.repeat) for e in thread._send_queue.queue if e.msg.created_message is cm)
                    ctx.count('state.cases')
                    if qsize >= 128:
                        ctx.count('state.cases_backlog_ge128')
                    if pname == 'custom':
                        ctx.count('state.cases_custom_params')
                    draws = {'initial': f'{f0} of {rnd.calls[0][1:] if rnd.calls else None}', 'first_gap': f'{f1} of {rnd.calls[1][1:] if len(rnd.calls) > 1 else None}',
                             'waiting_entries': qsize, 'backlog_age': age, 'id_memory_full': idmem, 'params': repr(params)}
                    _check_schedule(ctx, params, pname, now, entries, draws)
                    ctx.case(('state', pname if pname != 'custom' else repr(params), backlog, age, f0, f1))
                    probes.append((cm.p_msg.header_info_block.MessageID, pname, params, now, entries, addr, draws))
                    if not id_known(thread, cm.p_msg.header_info_block.MessageID):
                        ctx.witness('loopback.own_message_handled.enqueue_window', 'own id not in the id memory after add_outbound_message',
                                    {'waiting_entries': qsize})
        rnd.force = None
        if backlog <= (600 if ctx.quick else 2000):
            # the real loop gets everything out: exactly 1 + repeat datagrams per message, each at its time
            thread._quit_send_event.set()
            try:
                thread._run_send()
            except c15_sim.SimAbort:
                ctx.witness('sendloop.hang', 'send loop did not drain the queue within the logical step bound', {'waiting_entries': backlog * 5})
                continue
            ctx.count('state.drains')
            by_mid = collections.defaultdict(list)
            for t, data, dest, ok in thread.multi_out_uni_in_out.sent:
                if len(data) < 20000:
                    by_mid[c15_sim.mid_of(data)].append((t, dest))
            for mid, pname, params, now, entries, addr, draws in probes:
                got = by_mid.get(mid, [])
                if any(dest != addr for _, dest in got):
                    ctx.witness('sendloop.addr', 'datagram sent to the wrong address', {'want': addr, 'got': [d for _, d in got][:3]})
                _judge_wire(ctx, nt, params, pname, now, entries, [t for t, _ in got], draws)
        if serial and serial % 45 == 0 and len(ctx.samples) < 2:
            ctx.sample({'kind': 'state', 'waiting_entries_before': backlog * 5, 'age': age, 'id_memory_full': idmem, 'cases': 45})


def _directed_scripts(thorough):
    """(name, draw mode, script, options).  Offsets in seconds after the start of the send loop."""
    out = []
    for mode in ('hi', 'lo', 'mid', 'rand'):
        out.append(('burst60', mode, [(0, ('burst', 60))], {}))
    out.append(('burst_spread', 'mid', [(0, ('burst', 30)), (0.2, ('mode', 'hi')), (0.2, ('burst', 30)), (0.5, ('burst', 12))], {}))
    out.append(('burst130', 'hi', [(0, ('burst', 130))], {}))
    if thorough:
        out.append(('burst400', 'hi', [(0, ('burst', 400))], {}))
        out.append(('burst1900', 'mixed', [(0, ('burst', 1900)), (0.1, ('mode', 'hi')), (0.1, ('burst', 20))], {'max_ticks': 20000}))
    # the application uses the API while transmissions of an own multicast message are pending
    for api in (('clear_remote',), ('clear_local',), ('callbacks',), ('found',), ('republish', 0), ('clear_service', 0), ('probe',), ('resolve', 3)):
        for mode in ('lo', 'hi', 'mid'):
            out.append((f'api.{api[0]}', mode, [(0, ('publish', 0)), (0, ('publish', 1)), (0, ('probe',))] + [(t, api) for t in (0.05, 0.3, 0.8, 1.6)] + [(2.0, ('found',))],
                        {'loop_delay': 0.0 if mode != 'mid' else 0.12}))
    # foreign traffic inside the retransmission window, fewer ids than the id memory holds
    for n in (50, 150, 190, ID_WINDOW - 1):
        out.append((f'flood{n}', 'lo', [(0, ('publish', 0)), (0.2, ('flood', n)), (1.0, ('found',))], {'flood_lt_window': n}))
    out.append(('flood_matches150', 'mid', [(0, ('publish', 0)), (0, ('probe',)), (0.4, ('flood', 150, 'probematch')), (1.5, ('found',))], {'flood_lt_window': 150}))
    # ... and at least as many: the id-window overflow class
    for n in (ID_WINDOW, ID_WINDOW + 60):
        out.append((f'overflow{n}', 'lo', [(0, ('publish', 0)), (0.2, ('flood', n)), (1.0, ('found',))], {'overflow': True}))
    out.append(('overflow_matches', 'mid', [(0, ('publish', 0)), (0, ('probe',)), (0.4, ('flood', ID_WINDOW + 30, 'probematch')), (1.5, ('found',))], {'overflow': True}))
    # messages the node creates as a reaction (real receive handlers), foreign retransmissions, incomplete matches
    resp = [(0, ('publish', 0)), (0, ('publish', 1)), (0, ('publish', 2)), (0.1, ('recv', 'probe', 1, 3, 0.1)), (0.2, ('recv', 'resolve_own', 2, 2, 0.05)),
            (0.3, ('recv', 'hello_noxaddr', 3, 3, 0.2)), (0.4, ('recv', 'probematch_bare', 4, 1, 0)), (0.5, ('recv', 'bye', 5, 2, 0.1)),
            (0.6, ('recv', 'resolvematch', 6, 1, 0)), (0.7, ('recv', 'probe_nomatch', 7, 1, 0)), (0.8, ('recv', 'resolve_other', 8, 1, 0)),
            (0.9, ('recv', 'probematch', 9, 2, 0.3)), (0.95, ('recv', 'hello', 10, 5, 0.25)), (1.0, ('found',))]
    for mode in ('lo', 'hi', 'rand', 'mixed'):
        out.append(('responses', mode, list(resp), {}))
    out.append(('responses_late_loopback', 'rand', list(resp), {'loop_delay': 0.7}))
    out.append(('responses_epoch', 'mixed', list(resp), {'start': 17.25}))
    out.append(('responses_epoch_far', 'mixed', list(resp), {'start': 4_100_000_000.0}))
    # stop() while transmissions are pending: Hellos keep their times, Byes are created by stop() itself
    for mode in ('hi', 'lo', 'rand'):
        for how in ('graceful', 'abrupt'):
            out.append((f'stop.{how}', mode, [(0, ('publish', 0)), (0, ('publish', 1)), (0.05, ('probe',)), (0.1, ('recv', 'probe', 1, 1, 0)), (0.3, ('stop', how))], {}))
    # the loop is idle (empty queue) and has just fallen asleep when a message that is due at once is created
    for phase in (0.0, 0.5, 1.0):
        out.append(('idle_wakeup', 'lo', [(0.3, ('publish', 0)), (3.2, ('probe',)), (6.0, ('recv', 'probe', 1, 1, 0)), (9.0, ('publish', 1))], {'phase': phase}))
    # transient send errors
    for mode in ('lo', 'rand'):
        for every in (2, 3):
            out.append(('senderr', mode, [(0, ('senderr', every)), (0, ('publish', 0)), (0.1, ('probe',)), (0.2, ('recv', 'probe', 1, 1, 0)),
                                          (1.0, ('senderr', 0)), (1.0, ('publish', 1)), (1.2, ('clear_remote',))], {}))
    # other configured parameter sets (the module constants are the configuration)
    for k in range(6 if not thorough else 30):
        out.append(('custom_params', ('lo', 'hi', 'rand')[k % 3], [(0, ('publish', 0)), (0.05, ('probe',)), (0.1, ('recv', 'probe', 1, 2, 0.1)),
                                                                 (0.15, ('recv', 'resolve_own', 2, 1, 0)), (0.3, ('clear_remote',)), (0.6, ('clear_service', 0))], {'custom': k}))
    return out


def _random_script(rng):
    script, t, published = [], 0.0, 0
    for _ in range(rng.randrange(4, 24)):
        t += rng.choice([0, 0, 0.01, 0.05, 0.13, 0.3, 0.6])
        r = rng.random()
        if r < 0.22 or not published:
            script.append((t, ('publish', rng.randrange(0, 4))))
            published += 1
        elif r < 0.30:
            script.append((t, ('clear_service', rng.randrange(0, 4))))
        elif r < 0.40:
            script.append((t, rng.choice([('probe',), ('resolve', rng.randrange(0, 9))])))
        elif r < 0.58:
            script.append((t, rng.choice([('clear_remote',), ('clear_remote',), ('clear_local',), ('callbacks',), ('found',)])))
        elif r < 0.86:
            kind = rng.choice(['probe', 'probe', 'resolve_own', 'hello', 'hello_noxaddr', 'bye', 'probematch', 'probematch_bare', 'resolvematch',
                               'probe_nomatch', 'resolve_other'])
            script.append((t, ('recv', kind, rng.randrange(0, 9), rng.randrange(1, 4), rng.choice([0, 0.05, 0.3]))))
        elif r < 0.91:
            script.append((t, ('flood', rng.choice([5, 30, 80]))))
        elif r < 0.95:
            script.append((t, ('burst', rng.choice([3, 30, 45]))))
        elif r < 0.98:
            script.append((t, ('mode', rng.choice(['lo', 'hi', 'mid', 'rand', 'mixed']))))
        else:
            script.append((t, ('senderr', rng.choice([0, 2, 3]))))
    if rng.random() < 0.3:
        script.append((t + rng.choice([0.0, 0.2, 1.0]), ('stop', rng.choice(['graceful', 'abrupt']))))
    return script


def _judge_sim(ctx, nt, sim, name, opts):
    detail0 = {'scenario': name, 'draw_mode': sim.rnd.mode}
    ctx.count('sim.runs')
    if sim.aborted:
        ctx.witness('sendloop.hang', 'send loop still running after more logical steps than any legal schedule needs', detail0)
        return
    by_mid = collections.defaultdict(list)
    for t, mid, dest, ok in sim.sent:
        by_mid[mid].append((t, dest))
    custom = 'custom' in opts
    n_handler = 0
    for rec in sim.own.values():
        if rec['dropped']:
            ctx.count('sim.dropped_after_stop')
            continue
        pname, params = _params_for(nt, rec['addr'])
        if custom:
            pname = 'custom'
        ctx.count('sim.own_messages')
        ctx.count(f'sim.msg.{rec["action"]}.{"reaction" if rec["origin"] == "handler" else "api"}')
        n_handler += rec['origin'] == 'handler'
        detail = dict(detail0, action=rec['action'], created_by=rec['origin'], waiting_entries=rec['qsize'], draw_mode_at_call=rec['mode'])
        _check_schedule(ctx, params, pname, rec['t_call'], sorted(rec['entries']), detail)
        got = by_mid.get(rec['mid'], [])
        if any(dest != (rec['addr'], rec['port']) for _, dest in got):
            ctx.witness('sendloop.addr', 'datagram sent to the wrong address', dict(detail, want=[rec['addr'], rec['port']]))
        count_key = f'wsd.count.{rec["action"]}' if rec['params'].repeat != params.repeat else 'sendloop.count'
        _judge_wire(ctx, nt, params, pname, rec['t_call'], rec['entries'], sorted(t for t, _ in got), detail, count_key)
    ctx.count('sim.reaction_messages', n_handler)
    foreign_sent = set(by_mid) - set(sim.own)
    if foreign_sent:
        ctx.witness('sendloop.foreign', 'node transmitted something that was never handed to add_outbound_message', dict(detail0, ids=sorted(map(str, foreign_sent))[:3]))
    if sim.enqueue_unknown:
        ctx.witness('loopback.own_message_handled.enqueue_window', 'a message was put on the send queue before its id was registered as known',
                    dict(detail0, ids=sim.enqueue_unknown[:3]))
    # ---- own messages looped back ----
    for key in ('own_loopbacks', 'api_in_window', 'enqueue_with_backlog_ge128', 'pending_at_stop', 'foreign_datagrams'):
        ctx.count(f'sim.{key}', sim.stats.get(key, 0))
    for key, n in sim.stats.items():
        if key.startswith('api_in_window.'):
            ctx.count(f'sim.{key}', n)
    plain = [x for x in sim.own_handled if x[1] < ID_WINDOW]
    over = [x for x in sim.own_handled if x[1] >= ID_WINDOW]
    own_effects = sorted({f'{kind}:{epr}' for kind, epr in sim.callbacks if epr in sim.own_eprs} | {f'remote:{e}' for e in sim.remote_seen & sim.own_eprs})
    if plain:
        ctx.witness('loopback.own_message_handled.sequence', 'a datagram the node sent itself was handled when multicast looped it back '
                    f'(fewer than {ID_WINDOW} other ids registered in between)',
                    dict(detail0, handled=[{'action': a, 'ids_registered_since': n} for _, n, a in plain[:4]], effects=own_effects[:4]))
    elif own_effects and not over:
        ctx.witness('loopback.own_message_handled.sequence', 'own endpoint shows up among the REMOTE services / in the remote-service callbacks of the node',
                    dict(detail0, effects=own_effects[:4]))
    if over:
        ctx.count('loopback.id_window_overflow.own_handled', len(over))
        what = (f'own message handled as a foreign one: {ID_WINDOW} or more other message ids were registered between its registration and the '
                'loop-back of one of its transmissions (one bounded id memory for own and received ids)')
        if c15_sim.IDWINDOW_DEFAULT or os.environ.get('VERIF_C15_IDWINDOW') == '1':
            ctx.witness('loopback.own_message_handled.id_window_overflow', what,
                        dict(detail0, handled=[{'action': a, 'ids_registered_since': n} for _, n, a in over[:4]], effects=own_effects[:4]))
        else:
            ctx.extra['id_window_overflow'] = 'observed, reported only with VERIF_C15_IDWINDOW=1: ' + what
    if opts.get('overflow'):
        ctx.count('loopback.id_window_overflow.runs')
        first_own = min((r['reg'] for r in sim.own.values()), default=0)
        if sim.reg - first_own - 1 - len(sim.own_handled) >= ID_WINDOW and sim.stats.get('own_loopbacks', 0) >= 3:
            ctx.count('loopback.id_window_overflow.decided')  # own transmissions were looped back after >= 200 other ids
    if opts.get('flood_lt_window') and not sim.own_handled and sim.stats.get('own_loopbacks', 0) >= 3:
        ctx.count('sim.flood_lt_window_ignored')
    ctx.case(('sim', name.split('#')[0], sim.rnd.mode, len(sim.own), n_handler, bool(sim.stopped == 'graceful'), custom))


def w_sim(ctx: core.Ctx, arg):
    """one real WSDiscovery node as a discrete-event run: directed scripts (slice arg['i'] of arg['of']) + seeded random scripts."""
    from sdc11073.wsdiscovery import networkingthread as nt
    rng = ctx.rng('sim', arg['i'])
    todo = [d for k, d in enumerate(_directed_scripts(not ctx.quick)) if k % arg['of'] == arg['i'] % arg['of']] if arg['i'] < arg['of'] else []
    for k in range(arg['n_random']):
        todo.append((f'random#{k}', rng.choice(['lo', 'hi', 'mid', 'rand', 'rand', 'mixed']), None, {'loop_delay': rng.choice([0.0, 0.0, 0.05, 0.4])}))
    defaults = (nt.UNICAST_REPEAT_PARAMS, nt.MULTICAST_REPEAT_PARAMS)
    for name, mode, script, opts in todo:
        srng = ctx.rng('simcase', arg['i'], name, mode, opts.get('custom', ''))
        if script is None:
            script = _random_script(srng)
        try:
            if 'custom' in opts:
                nt.UNICAST_REPEAT_PARAMS, nt.MULTICAST_REPEAT_PARAMS = _rand_params(nt, srng), _rand_params(nt, srng)
            sim = Sim(srng, mode=mode, start=opts.get('start', 1_790_000_000.0 + srng.random() * 1000), loop_delay=opts.get('loop_delay', 0.0),
                      max_ticks=opts.get('max_ticks', 6000), phase=opts.get('phase', 'rand'))
            sim.run(script)
            _judge_sim(ctx, nt, sim, name, opts)
        finally:
            nt.UNICAST_REPEAT_PARAMS, nt.MULTICAST_REPEAT_PARAMS = defaults
        if len(ctx.samples) < 2:
            ctx.sample({'kind': 'node run', 'scenario': name, 'draw_mode': mode, 'own_messages': len(sim.own), 'datagrams': len(sim.sent),
                        'looped_back': sim.stats.get('own_loopbacks', 0), 'foreign_datagrams': sim.stats.get('foreign_datagrams', 0),
                        'logical_steps': sim.clock.sleeps})


def run(ctx: core.Ctx):
    ctx.rule = ('(1) exhaustive: every pair (initial-delay draw, first-gap draw) of the domains the code itself asks its random source for, for '
                'UNICAST_REPEAT_PARAMS and MULTICAST_REPEAT_PARAMS; distinct = the pair; (2) real send loop on a virtual clock, seeded '
                'message sets; (3) loop-back of own datagrams through the real q-read loop; (4) node states: backlog x age x id memory x '
                'parameter set (defaults + random configured sets) x draws at lo/hi/mid of the domain asked for; (5) one real WSDiscovery node as '
                'a discrete-event run: directed scripts (bursts, API calls / foreign traffic / stop inside the retransmission window, reactions '
                'of the receive handlers, send errors, other parameter sets) + seeded random scripts; non-trivial = at least one entry scheduled')
    jobs = []
    for pname in ('UNICAST_REPEAT_PARAMS', 'MULTICAST_REPEAT_PARAMS'):
        for k in range(8):
            jobs.append(['w_enumerate', {'params': pname, 'slice': [2 * k, 2 * k + 2], 'split': True}])
    for k in range(4 if ctx.quick else 16):
        jobs.append(['w_sendloop', {'i': k, 'n': 50 if ctx.quick else 1250}])
    for k in range(4 if ctx.quick else 16):
        jobs.append(['w_loopback', {'i': k, 'n': 12 if ctx.quick else 100}])
    n_state, n_sim = (2, 4) if ctx.quick else (4, 16)
    for k in range(n_state):
        jobs.append(['w_state', {'i': k, 'of': n_state}])
    for k in range(n_sim):
        jobs.append(['w_sim', {'i': k, 'of': n_sim, 'n_random': 50 if ctx.quick else 1200}])
    jobs.sort(key=lambda j: {'w_sim': 0, 'w_state': 1}.get(j[0], 2))  # the long ones first
    core.fanout(ctx, MODULE, 'dispatch', jobs)
    ctx.exhaustive = True
    ctx.extra['exhaustive_part'] = 'both random draws of _repeated_enqueue_msg (sub-check 1); send loop and loop-back are sampled'
    # the domains must be the ones the statement configures
    from sdc11073.wsdiscovery import networkingthread as nt
    for pname in ('UNICAST_REPEAT_PARAMS', 'MULTICAST_REPEAT_PARAMS'):
        p = getattr(nt, pname)
        doms = ctx.extra.get(f'draw_domains_{pname}')
        if doms and len(doms) == 2:
            size = (doms[0][2] - doms[0][1] + (1 if doms[0][0] == 'randint' else 0)) * (doms[1][2] - doms[1][1] + (1 if doms[1][0] == 'randint' else 0))
            ctx.floor(f'enqueue.cases.{pname}', size)
    ctx.floor('sendloop.messages', 100)
    ctx.floor('loopback.own_datagrams', 50)
    ctx.floor('loopback.foreign_ids', 20)
    ctx.floor('loopback.prefilled_runs', 8)
    ctx.floor('loopback.send_errors_injected', 10)
    ctx.floor('loopback.api_between_enqueue_and_loopback', 10)
    ctx.floor('state.cases', 1000)
    ctx.floor('state.cases_backlog_ge128', 300)
    ctx.floor('state.cases_custom_params', 300)
    ctx.floor('state.drains', 20)
    ctx.floor('wire.messages', 1000)
    ctx.floor('sim.runs', 80)
    ctx.floor('sim.own_messages', 600)
    ctx.floor('sim.own_loopbacks', 2000)
    ctx.floor('sim.reaction_messages', 100)
    ctx.floor('sim.api_in_window', 100)
    ctx.floor('sim.api_in_window.clear_remote', 10)
    ctx.floor('sim.enqueue_with_backlog_ge128', 200)
    ctx.floor('sim.pending_at_stop', 30)
    ctx.floor('sim.flood_lt_window_ignored', 5)
    ctx.floor('loopback.id_window_overflow.runs', 3)
    ctx.floor('loopback.id_window_overflow.decided', 3)
    ctx.assumptions += ['time and random are looked up as module globals of networkingthread (replaced by a virtual clock / enumerating stub)',
                        'sockets and selectors are fakes; the kernel UDP path is not exercised',
                        'node runs (5) are single-threaded: harness actions happen inside the sleeps of the real send loop, the receive side is '
                        'run to completion after every delivery; real thread interleavings are only covered by the enqueue-window invariant',
                        'wire-level bounds allow one loop raster (SEND_LOOP_IDLE_SLEEP + SEND_LOOP_BUSY_SLEEP) per transmission',
                        'the parameter set owed to a message is the module constant for its kind of destination (multicast group / unicast peer) '
                        'at the time of the call']


def dispatch(ctx: core.Ctx, job):
    globals()[job[0]](ctx, job[1])
