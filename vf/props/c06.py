"""C06 - the consumer MDIB never regresses under lost, duplicated or reordered reports.

Live provider and consumer over the loop-back; the transport acts as the network: towards the provider every notification is
acknowledged (the subscription stays alive), towards the consumer it is delivered according to a seeded fault schedule (drop,
duplicate now / later, hold back and release later, swap, replay a window, provider restart with new SequenceId / InstanceId,
application reload with notifications arriving while GetMdib is in flight).  After every delivered or withheld message the
monitors check: MdibVersion and every per-handle version non-decreasing, stale / duplicated deliveries change nothing, lookups
agree with a scan, every state the consumer holds equals what the provider published for (handle, version), no update while the
sequence / instance id differs, and exact mirror after reload + in-order delivery.
"""
from __future__ import annotations

import re
import threading

from .. import core, mdibops
from ..history import History, canon, first_difference, snap, snap_equal, tolerant_equal, versions_of
from ..loopback import Respond
from ..mdibharness import MDIB_FILES, World

MODULE = 'vf.props.c06'
RX_VERSION = re.compile(rb'MdibVersion="(\d+)"')
RX_SEQ = re.compile(rb'SequenceId="([^"]*)"')
RX_INST = re.compile(rb'InstanceId="(\d+)"')
RX_REPORT = re.compile(rb'<(?:\w+:)?(Episodic\w+Report|DescriptionModificationReport|WaveformStream|OperationInvokedReport)[ >]')


class Note:
    __slots__ = ('path', 'headers', 'raw', 'version', 'seq_id', 'inst', 'kind', 'n', 'delivered')

    def __init__(self, entry, body, n):
        self.path, self.headers, self.raw = entry.path, dict(entry.headers), entry.raw_body
        m = RX_VERSION.search(body)
        self.version = int(m.group(1)) if m else None
        m = RX_SEQ.search(body)
        self.seq_id = m.group(1).decode() if m else None
        m = RX_INST.search(body)
        self.inst = int(m.group(1)) if m else None
        m = RX_REPORT.search(body)
        self.kind = m.group(1).decode() if m else '?'
        self.n = n
        self.delivered = 0


class Net:
    """captures the notifications addressed to the consumer; delivers them on request."""

    def __init__(self, world, consumer):
        self.world = world
        self.netloc = f'127.0.0.1:{consumer.vf_server.server_port}'
        self.pending: list[Note] = []
        self.all: list[Note] = []
        self.capture = True
        world.network.policy = self._policy

    def _policy(self, entry):
        if entry.netloc != self.netloc or entry.method != 'POST' or not self.capture:
            return None
        body = entry.raw_body
        enc = entry.headers.get('Content-Encoding')
        if enc:
            from sdc11073.httpserver.compression import CompressionHandler
            body = CompressionHandler.decompress_payload(enc, body)
        note = Note(entry, body, len(self.all))
        if note.version is None:
            return None  # not a versioned report (e.g. SubscriptionEnd)
        self.all.append(note)
        self.pending.append(note)
        return Respond(200, 'OK', b'', name='captured')

    def deliver(self, note: Note):
        note.delivered += 1
        try:
            e = self.world.network.transmit(self.netloc, 'POST', note.path, note.headers, note.raw, bypass_policy=True, extra={'note': note.n})
            return e.status
        except Exception as ex:  # noqa: BLE001
            return repr(ex)


class Monitor:
    def __init__(self, ctx, cm, hist: History, label):
        self.ctx, self.cm, self.hist, self.label = ctx, cm, hist, label
        self.high = {}
        self.prev = snap(cm)
        self.frozen = False  # True between an id change and the next reload: nothing may change
        self.steps = []

    def _detail(self, **kw):
        return {**self.label, 'recent_steps': self.steps[-8:], **kw}

    def rebase(self):
        """after reload_all: versions may legitimately restart (new sequence)"""
        self.high = {}
        self.prev = snap(self.cm)
        self.frozen = False

    def after(self, action: str, note: Note | None, expect_unchanged: str | None):
        ctx, cm = self.ctx, self.cm
        self.steps.append([action, note.kind if note else None, note.version if note else None])
        ctx.case(('delivery', action, note.kind if note else None, expect_unchanged, self.frozen,
                  tuple(s[0] for s in self.steps[-3:])))
        cur = snap(cm)
        ctx.count('monitor.evaluations')
        changed = snap_equal(self.prev, cur)
        if expect_unchanged and changed:
            ctx.witness(f'{expect_unchanged}', f'a {expect_unchanged.split(".")[0]} notification changed the consumer MDIB',
                        self._detail(diff=changed[:3], report=note.kind if note else None))
        if self.frozen and changed:
            ctx.witness('idchange.update_applied_before_reload', 'an update was applied although SequenceId / InstanceId differ and no reload happened',
                        self._detail(diff=changed[:3]))
        # monotonic
        pv, cv = self.prev['version'][0], cur['version'][0]
        if pv is not None and cv is not None and cv < pv:
            ctx.witness('regress.mdib_version', 'consumer MdibVersion decreased', self._detail(was=pv, now=cv))
        for kind, key, vidx in (('descr', 'descr', 0), ('state', 'states', 1), ('ctx', 'ctx', 1)):
            for h, c in cur[key].items():
                ver = versions_of(c)[vidx]
                hw = self.high.get((kind, h))
                if hw is not None and ver is not None and ver < hw:
                    ctx.witness(f'regress.{kind}_version', f'a {kind} version in the consumer MDIB decreased', self._detail(handle=h, was=hw, now=ver))
                if ver is not None and (hw is None or ver > hw):
                    self.high[(kind, h)] = ver
                # every state held is one the provider published
                if kind != 'descr':
                    pub = self.hist.published.get((kind, h, ver))
                    if pub is None:
                        ctx.witness(f'unpublished.{kind}', f'the consumer holds a {kind} version the provider never published',
                                    self._detail(handle=h, version=ver))
                    elif not tolerant_equal(pub, c):
                        ctx.witness(f'unpublished_content.{kind}', f'the consumer holds a {kind} whose content differs from what the provider published '
                                    f'under that version', self._detail(handle=h, version=ver, diff=first_difference(pub, c)))
        if cur.get('index_problems'):
            ctx.witness('index.inconsistent', 'consumer lookups disagree with a scan', self._detail(problems=cur['index_problems'][:3]))
        self.prev = cur
        return bool(changed)


def w_schedules(ctx: core.Ctx, arg):
    rng = ctx.rng('sched', arg['i'])
    for hno in range(arg['n']):
        mdib_file = MDIB_FILES[(arg['i'] + hno) % len(MDIB_FILES)]
        world = World(mdib_file, role_provider=False, async_mgr=(hno % 3 == 1), contextstates_in_getmdib=((arg['i'] + hno) % 4 != 3))
        mdib = world.mdib
        hist = History(mdib)
        consumer, cm = world.add_consumer(with_mdib=True)
        net = Net(world, consumer)
        label = {'mdib_file': mdib_file, 'history': [arg['i'], hno]}
        mon = Monitor(ctx, cm, hist, label)
        memo = {}
        weights = {k: v for k, v in mdibops.DEFAULT_WEIGHTS.items() if k not in ('abort', 'reject', 'empty', 'unget')}
        held: list[tuple[int, Note]] = []
        delivered_log: list[Note] = []
        id_changed = False
        burst_done = False
        ops_kinds = []

        # directed script (odd jobs, first history): a descriptor is created (all reports of that transaction lost), its state is updated, it is
        # deleted and created again; the report of the second creation arrives twice
        script = []
        if hno == 0 and arg['i'] % 2 == 1 and mdibops.catalog(mdib)['channel']:
            chan = mdibops.catalog(mdib)['channel'][0]
            script = [({'op': 'descr_create', 'parent': chan, 'handle': 'c06x', 'with_state': True, 'iface': 'classic'}, 'drop_all'),
                      ({'op': 'metric', 'handles': ['c06x'], 'iface': 'classic'}, 'in_order'),
                      ({'op': 'descr_delete', 'handle': 'c06x', 'iface': 'classic'}, 'in_order'),
                      ({'op': 'descr_create', 'parent': chan, 'handle': 'c06x', 'with_state': True, 'recreate': True, 'iface': 'entity'}, 'dup_all'),
                      ({'op': 'metric', 'handles': ['c06x'], 'iface': 'entity'}, 'dup_all')]
        forced_ops = []

        def commit_some(k):
            for _ in range(k):
                if forced_ops:
                    op = dict(forced_ops.pop(0), seed=rng.randrange(1 << 30))
                    mdibops.apply_op(mdib, op, memo)
                    hist.record()
                    hist.problems.clear()
                    ops_kinds.append(op['op'])
                    ctx.count('provider.transactions')
                    ctx.count('provider.scripted_transactions')
                    return
                op = mdibops.gen_op(rng, mdib, memo, weights)
                mdibops.apply_op(mdib, op, memo)
                hist.record()
                hist.problems.clear()
                ops_kinds.append(op['op'])
                ctx.count('provider.transactions')

        def deliver(note, action):
            stale = (cm.mdib_version is not None and note.version < cm.mdib_version and note.seq_id == cm.sequence_id)
            dup = note.delivered > 0
            expect = None
            if mon.frozen or (note.seq_id != cm.sequence_id or note.inst != cm.instance_id):
                expect = None  # judged by the frozen rule
            elif stale:
                expect = f'stale.{note.kind}'
            elif dup and note.version <= (cm.mdib_version or -1):
                expect = f'duplicate.{note.kind}'
            status = net.deliver(note)
            delivered_log.append(note)
            ctx.count(f'deliver.{action}')
            if expect:
                ctx.count('deliver.stale' if expect.startswith('stale') else 'deliver.duplicate')
            changed = mon.after(action, note, expect)
            if not changed and not expect and not mon.frozen:
                ctx.count('deliver.accepted_without_change')
            return status

        for step in range(arg['len']):
            scripted = None
            if step >= 6 and script:      # after the prelude of the generator
                forced, scripted = script.pop(0)
                forced_ops.append(forced)
            commit_some(rng.choice([1, 1, 1, 2, 3]))
            # release held-back notifications whose time has come
            for item in list(held):
                if item[0] <= step:
                    held.remove(item)
                    deliver(item[1], 'release_held')
            action = rng.choices(['in_order', 'drop', 'dup_now', 'dup_later', 'hold', 'swap', 'replay', 'restart', 'reload', 'reload_inflight'],
                                 [10, 3, 3, 2, 3, 3, 2, 1 if not id_changed else 0, 1, 2])[0]
            if id_changed and rng.random() < 0.3:
                action = 'reload_inflight'   # the application reacts to the id change while late reports of the old sequence are still under way
            directed = hno == 0 and arg['i'] % 2 == 0   # every run: restart (new ids, LOWER version) at step 3, reload with late old reports at 4
            if directed and step == 3 and not id_changed:
                action = 'restart'
            if directed and step == 4 and id_changed:
                action = 'reload_inflight'
            batch, net.pending = net.pending, []
            if scripted == 'drop_all':
                for n in batch:
                    ctx.count('deliver.dropped')
                    mon.after('drop', n, None)
                continue
            if scripted == 'dup_all':
                for n in batch:
                    deliver(n, 'in_order')
                    deliver(n, 'dup_now')
                continue
            if scripted == 'in_order':
                action = 'in_order'
            if action == 'in_order' or not batch:
                for n in batch:
                    deliver(n, 'in_order')
            elif action == 'drop':
                victim = rng.randrange(len(batch))
                for k, n in enumerate(batch):
                    if k == victim:
                        ctx.count('deliver.dropped')
                        mon.after('drop', n, None)
                    else:
                        deliver(n, 'in_order')
            elif action == 'dup_now':
                for n in batch:
                    deliver(n, 'in_order')
                    if rng.random() < 0.5:
                        deliver(n, 'dup_now')
            elif action == 'dup_later':
                for n in batch:
                    deliver(n, 'in_order')
                held.append((step + rng.randrange(1, 4), rng.choice(batch)))
            elif action == 'hold':
                victim = rng.randrange(len(batch))
                for k, n in enumerate(batch):
                    if k == victim:
                        held.append((step + rng.randrange(1, 5), n))
                    else:
                        deliver(n, 'in_order')
            elif action == 'swap':
                order = list(batch)
                if len(order) >= 2:
                    a = rng.randrange(len(order) - 1)
                    order[a], order[a + 1] = order[a + 1], order[a]
                for n in order:
                    deliver(n, 'swap')
            elif action == 'replay':
                for n in batch:
                    deliver(n, 'in_order')
                window = delivered_log[-rng.randrange(1, 8):]
                for n in window:
                    deliver(n, 'replay')
            elif action == 'restart':
                for n in batch:
                    deliver(n, 'in_order')
                which = rng.choice(['sequence', 'instance', 'both'])
                if directed and step == 3:
                    which = ['sequence', 'both', 'instance'][(arg['i'] // 2) % 3]
                if which in ('sequence', 'both'):
                    mdib.sequence_id = f'urn:uuid:restart-{arg["i"]}-{hno}-{step}'
                if which in ('instance', 'both'):
                    mdib.instance_id = (mdib.instance_id or 0) + 1
                vmode = rng.choice(['continue', 'lower', 'higher'])
                if directed and step == 3:
                    vmode = 'lower'
                if vmode == 'lower':
                    mdib.mdib_version = max(0, mdib.mdib_version - rng.randrange(1, 5))
                elif vmode == 'higher':
                    mdib.mdib_version += rng.randrange(1, 50)
                hist.record()
                hist.problems.clear()
                hist.high_water.clear()
                id_changed = True
                mon.frozen = True
                ctx.count(f'restart.{which}.{vmode}')
            elif action in ('reload', 'reload_inflight'):
                for n in batch:
                    if rng.random() < 0.7:
                        deliver(n, 'in_order')
                inflight = action == 'reload_inflight'
                burst = inflight and not burst_done and (arg['i'] % 4 == 1 or rng.random() < 0.1)
                burst_done = burst_done or burst
                _reload(ctx, world, net, cm, mon, hist, rng, commit_some, held, inflight, label,
                        late_old=[n for n in delivered_log[-8:] if n.seq_id != mdib.sequence_id or n.inst != mdib.instance_id], burst=burst,
                        force_late=directed and step == 4)
                id_changed = False
        # final: reload, deliver the rest in order -> exact mirror
        _reload(ctx, world, net, cm, mon, hist, rng, commit_some, held, False, label)
        commit_some(2)
        batch, net.pending = net.pending, []
        for n in batch:
            deliver(n, 'final_in_order')
        diffs = snap_equal(hist.last, snap(cm))
        ctx.count('mirror.final_comparisons')
        if diffs:
            ctx.witness('mirror.after_reload', 'after reload + in-order delivery the consumer is not a mirror of the provider',
                        {**label, 'diff': diffs[:4], 'recent_steps': mon.steps[-8:]})
        ctx.case(tuple(s[0] for s in mon.steps[:60]) + (mdib_file,))
        if hno == 0 and arg['i'] == 0:
            ctx.sample({**label, 'schedule': mon.steps[:25], 'provider_ops': ops_kinds[:25]})
        world.stop()


def _reload(ctx, world, net, cm, mon, hist, rng, commit_some, held, inflight, label, late_old=(), burst=False, force_late=False):
    """application reload; optionally notifications arrive while the GetMdib response is in flight."""
    injected = {'GetMdib': False, 'GetContextStates': False}

    def observer(entry):
        if entry.netloc == net.netloc or entry.body is None:
            return
        head = entry.body[:4000]
        which = ('GetMdib' if (b':GetMdib' in head or b'<GetMdib' in head) and b'GetMdibResponse' not in head else
                 'GetContextStates' if b'GetContextStates' in head and b'GetContextStatesResponse' not in head and b'Action>' in head else None)
        if which is None or injected[which]:
            return
        injected[which] = True
        ctx.count(f'reload.inflight_point.{which}')
        # the provider has produced the GetMdib response (entry.response); before the consumer sees it the provider commits further
        # transactions whose notifications (and some held-back older ones) reach the consumer from another thread
        if burst and which == 'GetMdib':
            commit_some(rng.randrange(110, 150))   # a busy provider: far more notifications than usual arrive during the load
            ctx.count('reload.inflight_bursts')
        else:
            commit_some(rng.randrange(0, 6))
        batch, net.pending = net.pending, []
        k = len(batch) if burst else rng.randrange(0, len(batch) + 1)  # a prefix arrives while the response is in flight, the rest afterwards
        to_send, left = batch[:k], batch[k:]
        net.pending = left + net.pending
        older = [item[1] for item in list(held) if rng.random() < 0.5]
        if late_old and (force_late or rng.random() < 0.8):
            # delayed reports of the sequence / instance the provider had BEFORE its restart (possibly with higher MdibVersion than the new one)
            older += list(late_old)
            ctx.count('reload.inflight_late_reports_of_old_sequence', len(late_old))

        def run():
            for n in older + to_send:
                net.deliver(n)
        th = threading.Thread(target=run, daemon=True)
        th.start()
        th.join(60)
        if th.is_alive():
            ctx.not_decided('in-flight delivery thread blocked')
        ctx.count('reload.inflight_notifications', len(older) + len(to_send))
    if inflight:
        world.network.observers.append(observer)
    # second injection point: the moment reload_all releases the lock of its notification buffer (end of the replay of buffered
    # notifications) - a notification arriving exactly then must be processed normally, not put into the drained buffer
    late_threads = []
    reload_thread = threading.current_thread()
    real_lock = cm._buffered_notifications_lock

    class BufferLockProxy:
        def acquire(self, *a, **k):
            return real_lock.acquire(*a, **k)

        def release(self):
            real_lock.release()
            if inflight and threading.current_thread() is reload_thread and not late_threads:
                commit_some(1)
                batch, net.pending = net.pending, []

                def run():
                    for n in batch:
                        net.deliver(n)
                th = threading.Thread(target=run, daemon=True)
                late_threads.append(th)
                th.start()
                th.join(0.3)  # correct code: the thread now waits for the MDIB lock held by reload_all; it is joined afterwards
                ctx.count('reload.buffer_lock_release_injections')

        def __enter__(self):
            self.acquire()
            return self

        def __exit__(self, *a):
            self.release()
    cm._buffered_notifications_lock = BufferLockProxy()
    try:
        cm.reload_all()
    finally:
        cm._buffered_notifications_lock = real_lock
        for th in late_threads:
            th.join(60)
            if th.is_alive():
                ctx.not_decided('late delivery thread blocked')
        if inflight:
            world.network.observers.remove(observer)
    ctx.count('reload.inflight' if inflight else 'reload.plain')
    mon.rebase()
    mon.steps.append(['reload_inflight' if inflight else 'reload', None, cm.mdib_version])
    # what the consumer holds now must be published content
    mon.after('after_reload', None, None)
    # deliver what is still pending in order: the consumer must be a mirror again
    batch, net.pending = net.pending, []
    for n in batch:
        net.deliver(n)
        mon.after('post_reload_in_order', n, None)
    diffs = snap_equal(hist.last, snap(cm))
    ctx.count('mirror.reload_comparisons')
    if diffs:
        ctx.witness('mirror.after_reload_inflight' if inflight else 'mirror.after_reload',
                    'after reload (+ notifications that arrived meanwhile) and in-order delivery the consumer is not a mirror of the provider',
                    {**label, 'diff': diffs[:4], 'recent_steps': mon.steps[-8:]})


def run(ctx: core.Ctx):
    ctx.rule = ('seeded provider histories x seeded delivery schedules (in order / drop / duplicate now+later / hold back and release / swap / '
                'replay window / provider restart with new SequenceId and-or InstanceId and continued-lower-higher MdibVersion / reload / reload with '
                'notifications in flight); distinct = sequence of delivery actions; every delivered or withheld message is one monitor evaluation')
    n_hist, length = (32, 30) if ctx.quick else (480, 120)
    jobs = [['w_schedules', {'i': k, 'n': n_hist // 16, 'len': length}] for k in range(16)]
    core.fanout(ctx, MODULE, 'dispatch', jobs, timeout=3000)
    ctx.floor('monitor.evaluations', 1500)
    ctx.floor('reload.inflight_late_reports_of_old_sequence', 8)
    ctx.floor('reload.inflight_bursts', 1)
    ctx.floor('provider.scripted_transactions', 10)
    for name, n in (('deliver.stale', 20), ('deliver.duplicate', 20), ('deliver.dropped', 10), ('deliver.swap', 20), ('reload.inflight', 5),
                    ('reload.inflight_notifications', 10), ('mirror.final_comparisons', 16),
                    ('reload.buffer_lock_release_injections', 5)):
        ctx.floor(name, n)


def dispatch(ctx: core.Ctx, job):
    globals()[job[0]](ctx, job[1])
