"""C06 - the consumer MDIB never regresses under lost, duplicated or reordered reports.

Live provider and consumer over the loop-back; the transport acts as the network: towards the provider every notification is
acknowledged (the subscription stays alive), towards the consumer it is delivered according to a seeded fault schedule (drop,
duplicate now / later, hold back and release later, swap, replay a window, provider restart with new SequenceId / InstanceId,
application reload with notifications arriving while GetMdib is in flight).  After every delivered or withheld message the
monitors check: MdibVersion and every per-handle version non-decreasing, stale / duplicated deliveries change nothing, lookups
agree with a scan, every state the consumer holds equals what the provider published for (handle, version), no update while the
sequence / instance id differs, and exact mirror after reload + in-order delivery.

Round 4: (a) the INITIAL load (init_mdib) of every history happens under traffic (reports older than the snapshot and newer ones arrive
while GetMdib is in flight); (b) a report that carries another SequenceId / InstanceId than the consumer MDIB currently has - in
particular a late report of the provider's PREVIOUS sequence that arrives after the application has reloaded - is an id change: it must
change nothing and nothing may change until the next reload; (c) two reports are delivered by two threads (one http server thread per
subscription connection of the synchronous dispatcher) with the second one scheduled at a chosen point inside the first one
(vf/c06_race.py): a reader of the public MdibVersion must never see it decrease; (d) some histories use the library's default deferred
dispatcher (queue + worker thread) instead of the synchronous one; (e) the delayed last report of the old sequence passes the pre-check,
the application reloads before the report's thread gets the MDIB lock, then the thread continues: the report must change nothing;
(f) a handle comes back with a descriptor of another type while the description modification reports are lost.
"""
from __future__ import annotations

import re
import threading

from .. import core, mdibops
from ..history import History, canon, first_difference, snap, snap_equal, tolerant_equal, versions_of
from ..c06_race import RaceCtl
from ..loopback import Respond
from ..mdibharness import MDIB_FILES, World

from sdc11073.mdib.consumermdib import ConsumerMdib  # noqa: E402  (after vf.core has put the tree under test on sys.path)

MODULE = 'vf.props.c06'


def _loopback_compat():
    """/repo HEAD's asynchronous SOAP client (968f31b) reads a response with ``await resp.read()`` and ``resp.headers.getall(...)``; the
    shared loop-back fake of the aiohttp response (vf/loopback.py, not a module of this property) only offers ``text()`` and keeps the
    REQUEST headers in ``headers``: every notification of an async subscription manager then counts as a delivery failure and the provider
    drops the subscription.  Until vf/loopback.py follows, the two members are added here (skipped as soon as the fake has ``read``)."""
    from .. import loopback
    cls = getattr(loopback, '_FakeAioResponse', None)
    if cls is None or hasattr(cls, 'read'):
        return

    class _ResponseHeaders(dict):
        def getall(self, name, default=None):
            return [self[name]] if name in self else ([] if default is None else default)

    orig_enter = cls.__aenter__

    async def read(self):
        return self._body

    async def aenter(self):
        await orig_enter(self)
        self.headers = _ResponseHeaders()   # the loop-back servers answer without Content-Encoding
        return self
    cls.read = read
    cls.__aenter__ = aenter


_loopback_compat()
RX_VERSION = re.compile(rb'MdibVersion="(\d+)"')
RX_SEQ = re.compile(rb'SequenceId="([^"]*)"')
RX_INST = re.compile(rb'InstanceId="(\d+)"')
RX_REPORT = re.compile(rb'<(?:\w+:)?(Episodic\w+Report|DescriptionModificationReport|WaveformStream|OperationInvokedReport)[ >]')


class Note:
    __slots__ = ('path', 'headers', 'raw', 'version', 'seq_id', 'inst', 'kind', 'n', 'delivered')

    def __init__(self, entry, body, n):
        self.path, self.headers, self.raw = entry.path, dict(entry.headers), entry.raw_body
        m = RX_VERSION.search(body)
        self.version = int(m.group(1)) if m else None
        m = RX_SEQ.search(body)
        self.seq_id = m.group(1).decode() if m else None
        m = RX_INST.search(body)
        self.inst = int(m.group(1)) if m else None
        m = RX_REPORT.search(body)
        self.kind = m.group(1).decode() if m else '?'
        self.n = n
        self.delivered = 0


class Net:
    """captures the notifications addressed to the consumer; delivers them on request."""

    def __init__(self, world, consumer, ctx=None):
        self.world = world
        self.ctx = ctx
        self.queue = getattr(getattr(consumer, '_services_dispatcher', None), '_queue', None)  # deferred dispatcher only
        self.netloc = f'127.0.0.1:{consumer.vf_server.server_port}'
        self.pending: list[Note] = []
        self.all: list[Note] = []
        self.capture = True
        self.subscriptions = []
        world.network.policy = self._policy

    def _policy(self, entry):
        if entry.netloc != self.netloc or entry.method != 'POST' or not self.capture:
            return None
        body = entry.raw_body
        enc = entry.headers.get('Content-Encoding')
        if enc:
            from sdc11073.httpserver.compression import CompressionHandler
            body = CompressionHandler.decompress_payload(enc, body)
        note = Note(entry, body, len(self.all))
        if note.version is None:
            return None  # not a versioned report (e.g. SubscriptionEnd)
        self.all.append(note)
        self.pending.append(note)
        return Respond(200, 'OK', b'', name='captured')

    def deliver(self, note: Note, settle=True):
        note.delivered += 1
        try:
            e = self.world.network.transmit(self.netloc, 'POST', note.path, note.headers, note.raw, bypass_policy=True, extra={'note': note.n})
            return e.status
        except Exception as ex:  # noqa: BLE001
            return repr(ex)
        finally:
            if settle:
                self.settle()

    def subscriptions_alive(self) -> bool:
        """the provider still sends to the consumer; if not (wall-clock expiry, see _pin_subscriptions) a mirror comparison decides nothing"""
        ok = bool(self.subscriptions) and all(s.is_valid for s in self.subscriptions)
        if not ok and self.ctx is not None:
            self.ctx.not_decided('the provider dropped a subscription of the consumer (expired / delivery failure): reports are missing '
                                 'for a reason outside the consumer MDIB')
        return ok

    def settle(self):
        """deferred dispatcher: wait until its worker thread has processed everything that was queued so far (FIFO sentinel)."""
        if self.queue is None:
            return
        done = threading.Event()
        self.queue.put((lambda _request: done.set(), None, 'vf-settle'))
        if not done.wait(120) and self.ctx is not None:
            self.ctx.not_decided('worker thread of the deferred dispatcher did not drain its queue')
        elif self.ctx is not None:
            self.ctx.count('deferred.settled')


class Monitor:
    def __init__(self, ctx, cm, hist: History, label):
        self.ctx, self.cm, self.hist, self.label = ctx, cm, hist, label
        self.high = {}
        self.prev = snap(cm)
        self.frozen = False  # True between an id change and the next reload: nothing may change
        self.steps = []

    def _detail(self, **kw):
        return {**self.label, 'recent_steps': self.steps[-8:], **kw}

    def rebase(self):
        """after reload_all: versions may legitimately restart (new sequence)"""
        self.high = {}
        self.prev = snap(self.cm)
        self.frozen = False

    def after_race(self, res: dict, first: Note, second: Note, select):
        """two deliveries by two threads: the series of MdibVersion values a reader saw at the scheduling points must not decrease."""
        ctx = self.ctx
        series = [v for v in res['versions'] if v is not None]
        ctx.count('race.version_reads', len(series))
        for a, b in zip(series, series[1:]):
            if b < a:
                ctx.witness('regress.mdib_version_concurrent', 'consumer MdibVersion decreased while two reports were processed by two threads',
                            self._detail(series=series[:40], first=[first.kind, first.version], second=[second.kind, second.version],
                                         preempted_at=list(select), second_blocked_on=res['second_blocked_on'][:3]))
                break
        if res['errors'] or res['watchdog']:
            ctx.not_decided(f'race harness: errors={res["errors"][:2]} watchdog={res["watchdog"]}')
        return self.after('race', second, None)

    def after(self, action: str, note: Note | None, expect_unchanged: str | None):
        ctx, cm = self.ctx, self.cm
        self.steps.append([action, note.kind if note else None, note.version if note else None])
        ctx.case(('delivery', action, note.kind if note else None, expect_unchanged, self.frozen,
                  tuple(s[0] for s in self.steps[-3:])))
        cur = snap(cm)
        ctx.count('monitor.evaluations')
        changed = snap_equal(self.prev, cur)
        if expect_unchanged and changed:
            ctx.witness(f'{expect_unchanged}', f'a {expect_unchanged.split(".")[0]} notification changed the consumer MDIB',
                        self._detail(diff=changed[:3], report=note.kind if note else None))
        if self.frozen and changed:
            ctx.witness('idchange.update_applied_before_reload', 'an update was applied although SequenceId / InstanceId differ and no reload happened',
                        self._detail(diff=changed[:3]))
        # monotonic
        pv, cv = self.prev['version'][0], cur['version'][0]
        if pv is not None and cv is not None and cv < pv:
            ctx.witness('regress.mdib_version', 'consumer MdibVersion decreased', self._detail(was=pv, now=cv))
        for kind, key, vidx in (('descr', 'descr', 0), ('state', 'states', 1), ('ctx', 'ctx', 1)):
            for h, c in cur[key].items():
                ver = versions_of(c)[vidx]
                hw = self.high.get((kind, h))
                if hw is not None and ver is not None and ver < hw:
                    ctx.witness(f'regress.{kind}_version', f'a {kind} version in the consumer MDIB decreased', self._detail(handle=h, was=hw, now=ver))
                if ver is not None and (hw is None or ver > hw):
                    self.high[(kind, h)] = ver
                # every state held is one the provider published
                if kind != 'descr':
                    pub = self.hist.published.get((kind, h, ver))
                    if pub is None:
                        ctx.witness(f'unpublished.{kind}', f'the consumer holds a {kind} version the provider never published',
                                    self._detail(handle=h, version=ver))
                    elif not tolerant_equal(pub, c):
                        ctx.witness(f'unpublished_content.{kind}', f'the consumer holds a {kind} whose content differs from what the provider published '
                                    f'under that version', self._detail(handle=h, version=ver, diff=first_difference(pub, c)))
        if cur.get('index_problems'):
            ctx.witness('index.inconsistent', 'consumer lookups disagree with a scan', self._detail(problems=cur['index_problems'][:3]))
        self.prev = cur
        return bool(changed)


def _pin_subscriptions(world):
    """The consumer renews its 60 s subscriptions from a wall-clock thread.  On a loaded machine, or while the harness holds a GetMdib
    response back (the renew waits for the same SOAP client), a renew comes too late, the provider silently stops sending and the consumer
    'misses' everything from then on - an effect of wall-clock time, not of the consumer MDIB (seen as sporadic mirror.* witnesses on the
    unchanged tree at load > 40).  The provider-side subscriptions of this world are therefore made non-expiring."""
    subs = []
    for mgr in world.provider._subscriptions_managers.values():
        for sub in list(mgr._subscriptions.objects):
            sub._expire_seconds = 10 ** 9
            sub.renew = lambda expires=None: None
            subs.append(sub)
    return subs


def _create_string_metric(handle, parent):
    """a provider transaction mdibops has no shape for: a new StringMetricDescriptor (+ state) under ``parent``"""
    def create_string_metric(mdib, rng):
        from sdc11073.xml_types import pm_qnames as pm
        from sdc11073.xml_types import pm_types
        cls = mdib.data_model.get_descriptor_container_class(pm.StringMetricDescriptor)
        d = cls(handle=handle, parent_handle=parent)
        d.Type = pm_types.CodedValue(str(rng.randrange(100, 200000)))
        d.Unit = pm_types.CodedValue(str(rng.randrange(100, 200000)))
        d.MetricCategory = pm_types.MetricCategory.SETTING
        d.MetricAvailability = pm_types.MetricAvailability.INTERMITTENT
        with mdib.descriptor_transaction() as mgr:
            mgr.add_descriptor(d, state_container=mdib.data_model.mk_state_container(d))
    return create_string_metric


def w_schedules(ctx: core.Ctx, arg):
    rng = ctx.rng('sched', arg['i'])
    for hno in range(arg['n']):
        mdib_file = MDIB_FILES[(arg['i'] + hno) % len(MDIB_FILES)]
        world = World(mdib_file, role_provider=False, async_mgr=(hno % 3 == 1), contextstates_in_getmdib=((arg['i'] + hno) % 4 != 3))
        mdib = world.mdib
        hist = History(mdib)
        # the library's default dispatcher (queue + one worker thread) instead of the synchronous one (a thread per connection)
        deferred = (arg['i'] + hno) % 8 == 5
        consumer, _ = world.add_consumer(with_mdib=False, sync_dispatch=not deferred)
        net = Net(world, consumer, ctx)
        net.subscriptions = _pin_subscriptions(world)
        ctx.count('harness.subscriptions_pinned', len(net.subscriptions))
        ctx.count('history.deferred_dispatcher' if deferred else 'history.sync_dispatcher')
        label = {'mdib_file': mdib_file, 'history': [arg['i'], hno], 'dispatcher': 'deferred' if deferred else 'sync'}
        memo = {}
        weights = {k: v for k, v in mdibops.DEFAULT_WEIGHTS.items() if k not in ('abort', 'reject', 'empty', 'unget')}
        held: list[tuple[int, Note]] = []
        delivered_log: list[Note] = []
        id_changed = False
        burst_done = False
        ops_kinds = []

        # directed script (odd jobs, first history): a descriptor is created (all reports of that transaction lost), its state is updated, it is
        # deleted and created again; the report of the second creation arrives twice
        script = []

        def mk_c06x_script():
            """built when it starts (step 6): on a channel the provider MDIB contains THEN (a burst may have deleted a lot before)"""
            chans = mdibops.catalog(mdib)['channel']
            if not chans:
                return []
            chan = chans[0]
            return [({'op': 'descr_create', 'parent': chan, 'handle': 'c06x', 'with_state': True, 'iface': 'classic'}, 'drop_all'),
                      ({'op': 'metric', 'handles': ['c06x'], 'iface': 'classic'}, 'in_order'),
                      ({'op': 'descr_delete', 'handle': 'c06x', 'iface': 'classic'}, 'in_order'),
                      ({'op': 'descr_create', 'parent': chan, 'handle': 'c06x', 'with_state': True, 'recreate': True, 'iface': 'entity'}, 'dup_all'),
                      ({'op': 'metric', 'handles': ['c06x'], 'iface': 'entity'}, 'dup_all'),
                      # ... and the handle comes back as a descriptor of ANOTHER type while both description modification reports are lost:
                      # the consumer still holds the numeric state when the first report with the string state arrives (twice)
                      ({'op': 'descr_delete', 'handle': 'c06x', 'iface': 'classic'}, 'drop_all'),
                      (_create_string_metric('c06x', chan), 'drop_all'),
                      ({'op': 'metric', 'handles': ['c06x'], 'iface': 'classic', 'count': 'script.state_of_other_type_reports'}, 'dup_all')]
        if hno == 0 and arg['i'] % 2 == 1:
            script = [('c06x', None)]
        if hno == 1:
            # directed races (every run): report of kind K is inside the consumer (thread B), the report of the next transaction arrives
            # on another connection (thread A) exactly when B has passed the MdibVersion gate / has written the version / is about to
            # take / has released the MDIB lock
            points = [('gate', 'accept', 0), ('write', 'after', 0), ('write', 'before', 0), ('before', 'mdib', 0), ('released', 'mdib', 0),
                      ('acquired', 'mdib', 0)]
            kinds = ('rt', 'metric', 'alert', 'component', 'operational', 'context', 'descr_update')
            script += [({'race_first': k}, ('race', points[0])) for k in kinds]
            script += [({'race_first': k}, ('race', points[1 + (j + arg['i']) % (len(points) - 1)])) for j, k in enumerate(kinds)]
        forced_ops = []

        def mk_race_ops(kind, step):
            """two transactions on what the provider MDIB contains NOW: the first one produces a report of the wanted kind"""
            cat = mdibops.catalog(mdib)
            second = next(({'op': k, 'handles': cat[k][:1], 'iface': 'classic'} for k in ('metric', 'alert', 'component', 'operational') if cat[k]), None)
            if kind == 'context' and cat['context']:
                first = {'op': 'context', 'sub': 'new', 'descr': cat['context'][0], 'new_handle': f'c06race_ctx{step}', 'iface': 'classic'}
            elif kind == 'descr_update' and (cat['metric'] or cat['component']):
                first = {'op': 'descr_update', 'handles': (cat['metric'] or cat['component'])[-1:], 'iface': 'classic'}
            else:
                k = next((k for k in (kind, 'rt', 'metric', 'alert', 'component', 'operational') if cat.get(k)), None)
                first = {'op': k, 'handles': cat[k][-1:], 'iface': 'classic'} if k else None
            return [first, second] if first and second else []

        def commit_some(k):
            for _ in range(k):
                if forced_ops:
                    op = forced_ops.pop(0)
                    if callable(op):
                        try:
                            op(mdib, rng)
                        except Exception:  # noqa: BLE001  (e.g. the parent was deleted meanwhile by a random transaction: nothing committed)
                            ctx.count('provider.scripted_transactions_failed')
                        op = {'op': getattr(op, '__name__', 'custom')}
                    else:
                        op = dict(op, seed=rng.randrange(1 << 30))
                        ap = mdibops.apply_op(mdib, op, memo)
                        if op.get('count') and ap.outcome == 'ok':
                            ctx.count(op['count'])
                    hist.record()
                    hist.problems.clear()
                    ops_kinds.append(op['op'])
                    ctx.count('provider.transactions')
                    ctx.count('provider.scripted_transactions')
                    return
                op = mdibops.gen_op(rng, mdib, memo, weights)
                mdibops.apply_op(mdib, op, memo)
                hist.record()
                hist.problems.clear()
                ops_kinds.append(op['op'])
                ctx.count('provider.transactions')

        def deliver(note, action):
            nonlocal id_changed
            stale = (cm.mdib_version is not None and note.version < cm.mdib_version and note.seq_id == cm.sequence_id)
            dup = note.delivered > 0
            expect = None
            if note.seq_id != cm.sequence_id or note.inst != cm.instance_id:
                # the report carries another SequenceId / InstanceId than the consumer MDIB: that IS a change of SequenceId / InstanceId (no
                # matter whether it is the provider's new or - late, after a reload - its previous one): it must not be applied and nothing
                # may be applied until the application reloads
                if not mon.frozen:
                    ctx.count('deliver.foreign_ids_on_synced_consumer')
                mon.frozen = True
                id_changed = True
                ctx.count('deliver.foreign_ids')
            elif mon.frozen:
                expect = None  # judged by the frozen rule
            elif stale:
                expect = f'stale.{note.kind}'
            elif dup and note.version <= (cm.mdib_version or -1):
                expect = f'duplicate.{note.kind}'
            status = net.deliver(note)
            delivered_log.append(note)
            ctx.count(f'deliver.{action}')
            if expect:
                ctx.count('deliver.stale' if expect.startswith('stale') else 'deliver.duplicate')
            changed = mon.after(action, note, expect)
            if not changed and not expect and not mon.frozen:
                ctx.count('deliver.accepted_without_change')
            return status

        # ---- initial load under traffic: reports committed before the consumer MDIB exists reach the consumer partly before it is bound
        # (nobody listens), partly while GetMdib is in flight (older than the snapshot: to be ignored), and newer ones arrive in flight too
        commit_some(2)
        if net.pending:
            n0 = net.pending.pop(0)
            net.deliver(n0)
            ctx.count('initial_load.reports_before_bind')
        cm = ConsumerMdib(consumer)
        ctl = cm.vf_ctl = RaceCtl(cm)
        mon = Monitor(ctx, cm, hist, label)
        ctx.count('initial_load.reports_older_than_snapshot_in_flight', len(net.pending))
        _reload(ctx, world, net, cm, mon, hist, rng, commit_some, held, True, label, initial=True)

        def foreign_notes():
            return [n for n in net.all if n.seq_id != cm.sequence_id or n.inst != cm.instance_id]

        def deliver_late_foreign(k, action):
            """late reports of a sequence / instance the consumer MDIB does NOT have now (after a reload: the provider's previous one)"""
            cand = sorted(foreign_notes(), key=lambda n: (n.version, n.n))
            not_older = [n for n in cand if n.version >= (cm.mdib_version or 0)]
            for n in (not_older[:k] or cand[-k:]):
                if cm.mdib_version is not None and n.version >= cm.mdib_version and not mon.frozen:
                    ctx.count('deliver.late_foreign_not_older')   # the MdibVersion gate alone would let it pass
                deliver(n, action)

        def race(first, second, select, directed_point=None):
            if deferred or mon.frozen or any(n.seq_id != cm.sequence_id or n.inst != cm.instance_id for n in (first, second)):
                deliver(first, 'in_order')
                deliver(second, 'in_order')
                return
            res = ctl.race(lambda: net.deliver(first, settle=False), lambda: net.deliver(second, settle=False), select)
            delivered_log.extend([first, second])
            ctx.count('race.runs')
            ctx.count('race.scheduling_points', res['points'])
            if res['preempted']:
                ctx.count('race.preempted')
                ctx.count('race.second_blocked' if res['second_blocked_on'] else
                          'race.second_completed_inside' if res['second_done_inside'] else 'race.second_other')
                if directed_point:
                    ctx.count(f'race.window.{directed_point}')
                    ctx.count(f'race.window.{directed_point}.{first.kind}')
            else:
                ctx.count('race.point_not_reached')
            ctx.case(('race', first.kind, second.kind, tuple(select) if select[0] != 'index' else ('index', select[1] // 8),
                      res['preempted'], bool(res['second_blocked_on'])))
            mon.after_race(res, first, second, select)

        def prechecked_then_reload(note):
            """The provider has restarted; the consumer MDIB is still in sync with the old sequence.  The delayed last report R of the old
            sequence arrives and passes the pre-check (ids equal, state initialized); before its thread gets the MDIB lock the application
            reloads (it may do that at any time; here the scheduler runs the complete reload_all in another thread at that point); then
            R's thread continues.  R carries another SequenceId / InstanceId than the reloaded MDIB: it must change nothing."""
            nonlocal id_changed

            def app_reload():
                _reload(ctx, world, net, cm, mon, hist, rng, commit_some, held, False, label)
            res = ctl.race(lambda: net.deliver(note, settle=False), app_reload, ('before', 'mdib', 0))
            delivered_log.append(note)
            ctx.count('race.reload.runs')
            if res['errors'] or res['watchdog']:
                ctx.not_decided(f'reload race harness: errors={res["errors"][:2]} watchdog={res["watchdog"]}')
            reloaded_inside = res['preempted'] and res['second_done_inside']
            foreign = note.seq_id != cm.sequence_id or note.inst != cm.instance_id
            if reloaded_inside:
                ctx.count('race.reload.report_prechecked_before_reload_continues_after')
                ctx.case(('race.reload', note.kind, foreign))
                changed = snap_equal(mon.prev, snap(cm))
                if changed:
                    ctx.witness('idchange.prechecked_report_applied_after_reload',
                                'a report of the previous SequenceId / InstanceId that had passed the pre-check before the application reloaded was '
                                'applied to the reloaded MDIB', mon._detail(diff=changed[:3], report=[note.kind, note.version, note.seq_id, note.inst]))
            id_changed = False
            mon.after('late_prechecked', note, None)

        def split_for_race(batch):
            """(reports before, first, second, rest): first / second = first report of two different transactions if there are two"""
            if len(batch) < 2:
                return batch, None, None, []
            j = next((k for k in range(1, len(batch)) if batch[k].version != batch[0].version), 1)
            return [], batch[0], batch[j], batch[1:j] + batch[j + 1:]

        for step in range(arg['len']):
            scripted = None
            if step >= 6 and script:      # after the prelude of the generator
                if script[0][0] == 'c06x':
                    script = mk_c06x_script() or [({'op': 'empty', 'kind': 'metric'}, 'in_order')]
                forced, scripted = script.pop(0)
                if isinstance(forced, dict) and 'race_first' in forced:
                    forced = mk_race_ops(forced['race_first'], step)
                if isinstance(scripted, tuple) and mon.frozen:
                    # a directed race needs a consumer that accepts reports: the application reloads first
                    _reload(ctx, world, net, cm, mon, hist, rng, commit_some, held, False, label)
                    id_changed = False
                forced_ops.extend(forced if isinstance(forced, list) else [forced])
                for _ in range(len(forced) - 1 if isinstance(forced, list) else 0):
                    commit_some(1)
            commit_some(rng.choice([1, 1, 1, 2, 3]))
            # release held-back notifications whose time has come
            for item in list(held):
                if item[0] <= step and not isinstance(scripted, tuple):
                    held.remove(item)
                    deliver(item[1], 'release_held')
            action = rng.choices(['in_order', 'drop', 'dup_now', 'dup_later', 'hold', 'swap', 'replay', 'restart', 'reload', 'reload_inflight',
                                  'race', 'late_foreign'],
                                 [10, 3, 3, 2, 3, 3, 2, 1 if not id_changed else 0, 1, 2, 3, 2])[0]
            if id_changed and rng.random() < 0.3:
                action = 'reload_inflight'   # the application reacts to the id change while late reports of the old sequence are still under way
            directed = hno == 0 and arg['i'] % 2 == 0   # every run: restart (new ids, LOWER version) at step 3, reload with late old reports at 4
            if directed and step == 3 and not id_changed:
                action = 'restart'
            if directed and step == 4:
                action = 'reload_inflight'
            batch, net.pending = net.pending, []
            if scripted == 'drop_all':
                for n in batch:
                    ctx.count('deliver.dropped')
                    mon.after('drop', n, None)
                continue
            if scripted == 'dup_all':
                for n in batch:
                    deliver(n, 'in_order')
                    deliver(n, 'dup_now')
                continue
            if scripted == 'in_order':
                action = 'in_order'
            if isinstance(scripted, tuple) and scripted[0] == 'race':
                before, first, second, rest = split_for_race(batch)
                for n in before:
                    deliver(n, 'in_order')
                if first is not None:
                    race(first, second, scripted[1], directed_point='.'.join(scripted[1][:2]))
                for n in rest:
                    deliver(n, 'in_order')
                continue
            if action == 'late_foreign':
                for n in batch:
                    deliver(n, 'in_order')
                if not mon.frozen and foreign_notes():
                    deliver_late_foreign(rng.randrange(1, 4), 'late_foreign')
                continue
            if action == 'race' and len(batch) < 2:
                commit_some(1)
                batch, net.pending = batch + net.pending, []
            if action == 'race' and len(batch) >= 2:
                j = rng.randrange(len(batch) - 1)
                for n in batch[:j]:
                    deliver(n, 'in_order')
                select = (('index', rng.randrange(0, 64)) if rng.random() < 0.5 else
                          rng.choice([('gate', 'accept'), ('gate', 'reject'), ('write', 'before'), ('write', 'after'), ('before', 'mdib'),
                                      ('acquired', 'mdib'), ('released', 'mdib'), ('before', 'states'), ('released', 'states'),
                                      ('before', 'context_states'), ('before', 'descriptions')]) + (rng.choice([0, 0, 0, 1, 2]),))
                race(batch[j], batch[j + 1], select)
                for n in batch[j + 2:]:
                    deliver(n, 'in_order')
                continue
            if action == 'in_order' or not batch:
                for n in batch:
                    deliver(n, 'in_order')
            elif action == 'drop':
                victim = rng.randrange(len(batch))
                for k, n in enumerate(batch):
                    if k == victim:
                        ctx.count('deliver.dropped')
                        mon.after('drop', n, None)
                    else:
                        deliver(n, 'in_order')
            elif action == 'dup_now':
                for n in batch:
                    deliver(n, 'in_order')
                    if rng.random() < 0.5:
                        deliver(n, 'dup_now')
            elif action == 'dup_later':
                for n in batch:
                    deliver(n, 'in_order')
                held.append((step + rng.randrange(1, 4), rng.choice(batch)))
            elif action == 'hold':
                victim = rng.randrange(len(batch))
                for k, n in enumerate(batch):
                    if k == victim:
                        held.append((step + rng.randrange(1, 5), n))
                    else:
                        deliver(n, 'in_order')
            elif action == 'swap':
                order = list(batch)
                if len(order) >= 2:
                    a = rng.randrange(len(order) - 1)
                    order[a], order[a + 1] = order[a + 1], order[a]
                for n in order:
                    deliver(n, 'swap')
            elif action == 'replay':
                for n in batch:
                    deliver(n, 'in_order')
                window = delivered_log[-rng.randrange(1, 8):]
                for n in window:
                    deliver(n, 'replay')
            elif action == 'restart':
                late_prechecked = None
                if directed and step == 3:
                    # the old provider instance has run for a while: its MdibVersion is well above what the restarted one reaches soon
                    for _ in range(12):
                        commit_some(1)
                    batch, net.pending = batch + net.pending, []
                    if (arg['i'] // 2) % 2 == 0 and not deferred and len(batch) > 1:
                        late_prechecked = batch.pop()     # the last report of the old instance is delayed by the network
                for n in batch:
                    deliver(n, 'in_order')
                which = rng.choice(['sequence', 'instance', 'both'])
                if directed and step == 3:
                    which = ['sequence', 'both', 'instance'][(arg['i'] // 2) % 3]
                if which in ('sequence', 'both'):
                    mdib.sequence_id = f'urn:uuid:restart-{arg["i"]}-{hno}-{step}'
                if which in ('instance', 'both'):
                    mdib.instance_id = (mdib.instance_id or 0) + 1
                vmode = rng.choice(['continue', 'lower', 'higher'])
                if directed and step == 3:
                    vmode = 'lower'
                if vmode == 'lower' and directed and step == 3:
                    mdib.mdib_version = 0        # a real restart: the MdibVersion counter starts again
                elif vmode == 'lower':
                    mdib.mdib_version = max(0, mdib.mdib_version - rng.randrange(1, 5))
                elif vmode == 'higher':
                    mdib.mdib_version += rng.randrange(1, 50)
                hist.record()
                hist.problems.clear()
                hist.high_water.clear()
                id_changed = True
                mon.frozen = True
                ctx.count(f'restart.{which}.{vmode}')
                if late_prechecked is not None:
                    prechecked_then_reload(late_prechecked)
            elif action in ('reload', 'reload_inflight'):
                for n in batch:
                    if rng.random() < 0.7:
                        deliver(n, 'in_order')
                inflight = action == 'reload_inflight'
                burst = inflight and not burst_done and (arg['i'] % 4 == 1 or rng.random() < 0.1)
                burst_done = burst_done or burst
                _reload(ctx, world, net, cm, mon, hist, rng, commit_some, held, inflight, label,
                        late_old=[n for n in delivered_log[-8:] if n.seq_id != mdib.sequence_id or n.inst != mdib.instance_id], burst=burst,
                        force_late=directed and step == 4)
                id_changed = False
                if directed and step == 4:
                    # ... and THEN (the application has reloaded, the consumer mirrors the restarted provider) further delayed reports of the
                    # provider's previous sequence / instance arrive, with MdibVersion not lower than the freshly loaded one
                    deliver_late_foreign(3, 'late_foreign')
        # final: reload, deliver the rest in order -> exact mirror
        _reload(ctx, world, net, cm, mon, hist, rng, commit_some, held, False, label)
        commit_some(2)
        batch, net.pending = net.pending, []
        for n in batch:
            deliver(n, 'final_in_order')
        diffs = snap_equal(hist.last, snap(cm))
        ctx.count('mirror.final_comparisons')
        if diffs and not net.subscriptions_alive():
            diffs = []
        if diffs:
            ctx.witness('mirror.after_reload', 'after reload + in-order delivery the consumer is not a mirror of the provider',
                        {**label, 'diff': diffs[:4], 'recent_steps': mon.steps[-8:]})
        ctx.case(tuple(s[0] for s in mon.steps[:60]) + (mdib_file,))
        if hno == 0 and arg['i'] == 0:
            ctx.sample({**label, 'schedule': mon.steps[:25], 'provider_ops': ops_kinds[:25]})
        world.stop()


def _reload(ctx, world, net, cm, mon, hist, rng, commit_some, held, inflight, label, late_old=(), burst=False, force_late=False,
            initial=False):
    """application reload (initial=True: the initial load, init_mdib); optionally notifications arrive while the GetMdib response is in
    flight."""
    ctl = getattr(cm, 'vf_ctl', None)
    injected = {'GetMdib': False, 'GetContextStates': False}

    def observer(entry):
        if entry.netloc == net.netloc or entry.body is None:
            return
        head = entry.body[:4000]
        which = ('GetMdib' if (b':GetMdib' in head or b'<GetMdib' in head) and b'GetMdibResponse' not in head else
                 'GetContextStates' if b'GetContextStates' in head and b'GetContextStatesResponse' not in head and b'Action>' in head else None)
        if which is None or injected[which]:
            return
        injected[which] = True
        ctx.count(f'reload.inflight_point.{which}')
        # the provider has produced the GetMdib response (entry.response); before the consumer sees it the provider commits further
        # transactions whose notifications (and some held-back older ones) reach the consumer from another thread
        if burst and which == 'GetMdib':
            commit_some(rng.randrange(110, 150))   # a busy provider: far more notifications than usual arrive during the load
            ctx.count('reload.inflight_bursts')
        else:
            commit_some(rng.randrange(0, 6))
        batch, net.pending = net.pending, []
        k = len(batch) if burst else rng.randrange(0, len(batch) + 1)  # a prefix arrives while the response is in flight, the rest afterwards
        to_send, left = batch[:k], batch[k:]
        net.pending = left + net.pending
        older = [item[1] for item in list(held) if rng.random() < 0.5]
        if late_old and (force_late or rng.random() < 0.8):
            # delayed reports of the sequence / instance the provider had BEFORE its restart (possibly with higher MdibVersion than the new one)
            older += list(late_old)
            ctx.count('reload.inflight_late_reports_of_old_sequence', len(late_old))

        def run():
            for n in older + to_send:
                net.deliver(n, settle=False)
            net.settle()   # (deferred dispatcher: the reports are buffered by its worker thread before the response gets through)
        th = threading.Thread(target=run, daemon=True)
        th.start()
        th.join(60)
        if th.is_alive():
            ctx.not_decided('in-flight delivery thread blocked')
        ctx.count('reload.inflight_notifications', len(older) + len(to_send))
    if inflight:
        world.network.observers.append(observer)
    # second injection point: the moment reload_all releases the lock of its notification buffer (end of the replay of buffered
    # notifications) - a notification arriving exactly then must be processed normally, not put into the drained buffer
    late_threads = []
    reload_thread = threading.current_thread()
    real_lock = cm._buffered_notifications_lock

    class BufferLockProxy:
        def acquire(self, *a, **k):
            return real_lock.acquire(*a, **k)

        def release(self):
            real_lock.release()
            if inflight and threading.current_thread() is reload_thread and not late_threads:
                commit_some(1)
                batch, net.pending = net.pending, []

                def run():
                    try:
                        for n in batch:
                            net.deliver(n, settle=False)
                    finally:
                        settled.set()
                th = threading.Thread(target=run, daemon=True)
                late_threads.append(th)
                # correct code: the thread (deferred dispatcher: its worker) now waits for the MDIB lock held by reload_all - the lock
                # proxy reports that it is about to block -; it is joined afterwards.  The time-out is only a fall-back.
                settled = ctl.watch_thread(th) if (ctl is not None and net.queue is None) else threading.Event()
                th.start()
                if settled.wait(0.3 if ctl is None or net.queue is not None else 5):
                    ctx.count('reload.buffer_lock_release_settled')
                if ctl is not None:
                    ctl.unwatch(th)
                ctx.count('reload.buffer_lock_release_injections')

        def __enter__(self):
            self.acquire()
            return self

        def __exit__(self, *a):
            self.release()
    cm._buffered_notifications_lock = BufferLockProxy()
    try:
        if initial:
            cm.init_mdib()
        else:
            cm.reload_all()
    finally:
        cm._buffered_notifications_lock = real_lock
        for th in late_threads:
            th.join(60)
            if th.is_alive():
                ctx.not_decided('late delivery thread blocked')
        if inflight:
            world.network.observers.remove(observer)
        net.settle()
    ctx.count('initial_load.inflight' if initial else 'reload.inflight' if inflight else 'reload.plain')
    mon.rebase()
    mon.steps.append(['reload_inflight' if inflight else 'reload', None, cm.mdib_version])
    # what the consumer holds now must be published content
    mon.after('after_reload', None, None)
    # deliver what is still pending in order: the consumer must be a mirror again
    batch, net.pending = net.pending, []
    for n in batch:
        net.deliver(n)
        mon.after('post_reload_in_order', n, None)
    diffs = snap_equal(hist.last, snap(cm))
    ctx.count('mirror.reload_comparisons')
    if diffs and not net.subscriptions_alive():
        diffs = []
    if diffs:
        ctx.witness('mirror.after_initial_load' if initial else 'mirror.after_reload_inflight' if inflight else 'mirror.after_reload',
                    f'after {"the initial load" if initial else "reload"} (+ notifications that arrived meanwhile) and in-order delivery the '
                    'consumer is not a mirror of the provider',
                    {**label, 'diff': diffs[:4], 'recent_steps': mon.steps[-8:]})


def run(ctx: core.Ctx):
    ctx.rule = ('seeded provider histories x seeded delivery schedules (in order / drop / duplicate now+later / hold back and release / swap / '
                'replay window / provider restart with new SequenceId and-or InstanceId and continued-lower-higher MdibVersion / reload / reload with '
                'notifications in flight / late reports of the previous sequence after the reload / two reports delivered by two threads with '
                'the second one scheduled at a chosen point inside the first one); the initial load of every history happens under traffic; '
                'sync and deferred dispatcher; distinct = sequence of delivery actions (races: report kinds x preemption point x outcome); '
                'every delivered or withheld message is one monitor evaluation')
    n_hist, length = (32, 30) if ctx.quick else (480, 120)
    jobs = [['w_schedules', {'i': k, 'n': n_hist // 16, 'len': length}] for k in range(16)]
    core.fanout(ctx, MODULE, 'dispatch', jobs, timeout=3000)
    ctx.floor('monitor.evaluations', 1500)
    ctx.floor('reload.inflight_late_reports_of_old_sequence', 8)
    ctx.floor('reload.inflight_bursts', 1)
    ctx.floor('provider.scripted_transactions', 10)
    for name, n in (('deliver.stale', 20), ('deliver.duplicate', 20), ('deliver.dropped', 10), ('deliver.swap', 20), ('reload.inflight', 5),
                    ('reload.inflight_notifications', 10), ('mirror.final_comparisons', 16),
                    ('reload.buffer_lock_release_injections', 5),
                    # round 4
                    ('harness.subscriptions_pinned', 32), ('initial_load.inflight', 16), ('initial_load.reports_older_than_snapshot_in_flight', 16),
                    ('deliver.foreign_ids_on_synced_consumer', 8), ('deliver.late_foreign_not_older', 4),
                    ('race.preempted', 60), ('race.second_blocked', 40), ('race.window.gate.accept', 40),
                    ('race.window.gate.accept.WaveformStream', 4), ('race.window.gate.accept.EpisodicMetricReport', 4),
                    ('race.window.gate.accept.DescriptionModificationReport', 4), ('race.window.write.before', 4),
                    ('history.deferred_dispatcher', 2), ('deferred.settled', 100), ('script.state_of_other_type_reports', 4),
                    ('race.reload.report_prechecked_before_reload_continues_after', 3)):
        ctx.floor(name, n)


def dispatch(ctx: core.Ctx, job):
    globals()[job[0]](ctx, job[1])
