"""C17 - HTTP body framing and content coding are lossless and honour negotiation.

Sub-checks: codec / reject (function level), l2 (real request handler on in-memory streams), clients + notify + wiring (socket-free provider,
consumer and soap clients), wire (vf.c17_aio: the soap clients on their real transports over loop-back TCP).

Real code under observation: mk_chunks, HTTPReader.read_request_body/_read_dechunk/read_response_body, CompressionHandler,
DispatchingRequestHandler (_read_request, _compress_if_supported, chunked/content-length writer), SoapClient._send_soap_request,
SoapClientAsync.async_post_message_to, the provider's subscription managers (choice of the notification coding).
Oracles: byte equality; http.client.HTTPResponse + a strict RFC 7230 chunk grammar; python's gzip module / lz4.frame as independent
decoders; a reference RFC 7231 5.3.4 Accept-Encoding evaluator.
"""
from __future__ import annotations

import http.client
import io
import re

from .. import core, httpl2 as L

MODULE = 'vf.props.c17'

# ---------------------------------------------------------------------------------------------------------------
# reference Accept-Encoding evaluator (RFC 7231 5.3.4 / RFC 7230 list rule)
# ---------------------------------------------------------------------------------------------------------------
_TOKEN = r"[!#$%&'*+\-.^_`|~0-9A-Za-z]+"
_QVALUE = r'(?:0(?:\.[0-9]{0,3})?|1(?:\.0{0,3})?)'
_ELEM = re.compile(rf'^({_TOKEN})(?:[ \t]*;[ \t]*[qQ]=({_QVALUE}))?$')


def ref_accept(header):
    """-> ('absent', None) | ('ok', {coding_lower: q}) | ('undefined', reason)."""
    if header is None:
        return 'absent', None
    items = {}
    for part in header.split(','):
        p = part.strip(' \t')
        if not p:
            continue  # empty list elements are legal for recipients (RFC 7230 7)
        m = _ELEM.match(p)
        if not m:
            return 'undefined', f'element {p!r} is not "coding [;q=qvalue]"'
        name = m.group(1).lower()
        q = float(m.group(2)) if m.group(2) is not None else 1.0
        if name in items and items[name] != q:
            return 'undefined', f'coding {name!r} listed twice with different weights'
        items[name] = q
    return 'ok', items


def header_shape(header):
    kind, items = ref_accept(header)
    if kind != 'ok':
        return kind
    return tuple(sorted((k, 0 if q == 0 else 1) for k, q in items.items()))


def acceptable(items: dict, coding: str) -> bool:
    c = coding.lower()
    if c in items:
        return items[c] > 0
    if '*' in items:
        return items['*'] > 0
    return False


def judge_choice(ctx, where: str, header, chosen, enabled, detail):
    """chosen: value of the Content-Encoding header sent to the peer (None = identity).  where: call-site part of the key."""
    kind, items = ref_accept(header)
    ctx.count(f'negotiation.{where}.{kind}')
    if chosen is None:
        ctx.count(f'negotiation.{where}.identity_sent')
        return 'identity'
    ctx.count(f'negotiation.{where}.coded_sent')
    if chosen not in enabled:
        ctx.witness(f'negotiation.locally_disabled.{where}', f'Content-Encoding {chosen!r} sent although only {list(enabled)} are enabled locally',
                    detail)
        return 'bad'
    if kind == 'undefined':
        ctx.count(f'negotiation.{where}.undefined_header_coded')
        return 'undefined'
    if kind == 'absent':
        ctx.witness(f'negotiation.no_header.{where}', f'Content-Encoding {chosen!r} sent to a peer that sent no Accept-Encoding at all', detail)
        return 'bad'
    if acceptable(items, chosen):
        ctx.count(f'negotiation.{where}.accepted_coding_used')
        return 'ok'
    c = chosen.lower()
    if c in items:
        key = 'negotiation.q0_still_used' + ('' if where == 'response' else f'.{where}')
        what = f'peer declared {chosen};q=0 (not acceptable) and still got Content-Encoding: {chosen}'
    elif '*' in items:
        key, what = f'negotiation.star_q0_ignored.{where}', f'peer excluded all unlisted codings with *;q=0 and still got {chosen}'
    else:
        key, what = f'negotiation.not_offered.{where}', f'peer did not list {chosen!r} (nor *) and still got Content-Encoding: {chosen}'
    ctx.witness(key, what, detail)
    return 'bad'


# ---------------------------------------------------------------------------------------------------------------
# generators
# ---------------------------------------------------------------------------------------------------------------
CODINGS = [None, 'gzip', 'x-lz4', 'lz4']


def gen_body(rng, n, kind=None):
    kind = kind or rng.choice(['random', 'zeros', 'pattern', 'xml', 'crlf'])
    if n == 0:
        return b'', kind
    if kind == 'random':
        return rng.randbytes(n), kind
    if kind == 'zeros':
        return bytes(n), kind
    if kind == 'pattern':
        p = rng.randbytes(rng.randrange(1, 9))
        return (p * (n // len(p) + 1))[:n], kind
    if kind == 'xml':
        p = b'<s12:Envelope xmlns:s12="http://www.w3.org/2003/05/soap-envelope"><s12:Body>\xc3\xa4\xe2\x82\xac</s12:Body></s12:Envelope>\n'
        return (p * (n // len(p) + 1))[:n], kind
    # bodies that look like chunk framing themselves
    parts = [b'\r\n', b'0\r\n\r\n', b'5\r\nhello\r\n', b'\r', b'\n', b'ffffffff\r\n', b'0', b';x=y\r\n']
    out = bytearray()
    while len(out) < n:
        out += rng.choice(parts)
    return bytes(out[:n]), kind


def gen_size(rng, chunk_size, big):
    r = rng.random()
    if r < 0.12:
        return rng.choice([0, 1, 2, 3])
    if r < 0.55 and chunk_size and (chunk_size <= 4096 or (big and chunk_size <= 65536)):
        k = rng.randrange(0, 6)
        return max(0, k * chunk_size + rng.choice([-1, 0, 1]))
    if r < 0.985 or not big:
        return rng.randrange(0, 3000 if (chunk_size and chunk_size < 32) else 70000)
    return rng.choice([rng.randrange(1 << 20, (4 << 20) + 2), (4 << 20) + rng.choice([-1, 0, 1])])


def gen_chunk_size(rng):
    r = rng.random()
    if r < 0.5:
        return rng.randrange(1, 18)
    return rng.choice([512, 4096, 100, 255, 256, 257, 65536, 1 << 23])


AE_TOKENS = ['gzip', 'x-lz4', 'lz4', 'identity', '*', 'br', 'deflate', 'compress', 'GZIP', 'Gzip', 'x-gzip', 'zstd', 'X-LZ4']
AE_Q_VALID = [None, None, None, '0', '0.0', '0.000', '1', '1.0', '1.000', '0.5', '0.001', '0.999', '0.', '1.']
AE_Q_BROKEN = ['.5', '2', '0.1234', 'abc', '-1', '', '1.5', '0,5']
AE_DIRECTED = [
    None, '', ' ', '*', 'gzip', 'x-lz4', 'lz4', 'gzip, x-lz4', 'gzip,x-lz4,lz4', 'identity', 'br', 'br, deflate',
    'gzip;q=0', 'gzip;q=0.0', 'gzip; q=0', 'gzip ;q=0.000', 'gzip;Q=0', 'x-lz4;q=0', 'lz4;q=0, x-lz4;q=0, gzip;q=0',
    'gzip;q=0, x-lz4', 'gzip;q=0, identity', 'identity;q=1, gzip;q=0', '*;q=0', '*;q=0, gzip', 'gzip;q=0, *',
    'gzip;q=1.0, identity; q=0.5, *;q=0', 'compress;q=0.5, gzip;q=1.0', 'gzip;q=0.001', 'br;q=1, gzip;q=0.1', 'GZIP', 'GZIP;q=0',
    'gzip,', ',gzip', ', ,gzip', 'gzip;q=abc', 'gzip;q=', 'gzip;level=3', 'gzip;q=0;x=1', ';q=0', 'gzip q=0', 'x-lz4;q=0.5, gzip;q=0.5',
    'gzip;q=0, gzip', 'gzip;q=0, gzip;q=0', 'identity;q=0', 'identity;q=0, *;q=0', '\tgzip\t;\tq=0\t',
]


def gen_accept(rng):
    n = rng.choice([1, 1, 2, 2, 3, 4])
    parts = []
    for _ in range(n):
        tok = rng.choice(AE_TOKENS[:5]) if rng.random() < 0.7 else rng.choice(AE_TOKENS)
        q = rng.choice(AE_Q_VALID) if rng.random() < 0.9 else rng.choice(AE_Q_BROKEN)
        if q is None:
            parts.append(tok)
        else:
            parts.append(tok + rng.choice(['', ' ', '\t']) + ';' + rng.choice(['', ' ']) + rng.choice(['q', 'q', 'Q']) + '=' + q)
    return rng.choice([',', ', ', ' , ', ',,'] if rng.random() < 0.3 else [',', ', ']).join(parts)


class _Msg:
    """What HTTPReader.read_request_body needs of a request handler: .headers.get, .rfile."""

    def __init__(self, headers: dict, data: bytes):
        self.headers = {k.lower(): v for k, v in headers.items()}
        self.rfile = L.CountingReader(data)


def _http_response(raw_head: bytes, body: bytes):
    fp = io.BytesIO(raw_head + body)

    class S:
        def makefile(self, *a, **k):
            return fp
    r = http.client.HTTPResponse(S(), method='POST')
    r.begin()
    return r


def _size_class(n):
    return 0 if n == 0 else len(bin(n)) - 2


# ---------------------------------------------------------------------------------------------------------------
# (1) function level: mk_chunks / compress_payload  ->  read_request_body / read_response_body / http.client / grammar
# ---------------------------------------------------------------------------------------------------------------
def w_codec(ctx: core.Ctx, arg):
    from sdc11073.httpserver.compression import CompressionHandler
    from sdc11073.httpserver.httpreader import HTTPReader, mk_chunks
    rng = ctx.rng('codec', arg['i'])
    registered = list(CompressionHandler.available_encodings)
    ctx.extra['registered_codings'] = registered
    directed = []
    for cs in list(range(1, 18)) + [512, 4096]:
        for n in sorted({0, 1, cs - 1, cs, cs + 1, 2 * cs - 1, 2 * cs, 2 * cs + 1, 3 * cs}):
            if n >= 0:
                directed.append((cs, n))
    for case in range(arg['n']):
        if arg['i'] == 0 and case < len(directed):
            cs, n = directed[case]
        else:
            cs = gen_chunk_size(rng)
            n = gen_size(rng, cs, arg.get('big', False))
            if cs < 32 and n > 6000:
                n = n % 6000
            if n > (1 << 19) and cs < 65536:
                cs = rng.choice([65536, 1 << 20, 1 << 23])   # mk_chunks is quadratic in len/chunk_size
        coding = rng.choice([None] + registered)
        body, kind = gen_body(rng, n)
        shape = ('codec', coding, cs if cs < 20 else _size_class(cs), _size_class(n), kind)
        info = {'coding': coding, 'chunk_size': cs, 'len': n, 'kind': kind, 'body_head': body[:40]}
        # --- content coding
        payload = body
        if coding:
            payload = CompressionHandler.compress_payload(coding, body)
            ctx.count('codec.compress')
            try:
                back = L.ref_decode(coding, payload)
            except Exception as ex:  # noqa: BLE001
                back = ex
            if back != body:
                ctx.witness(f'coding.compress_not_decodable.{coding}', 'compress_payload output is not decoded to the original by the reference decoder', info)
            if CompressionHandler.decompress_payload(coding, L.ref_encode(coding, body)) != body:
                ctx.witness(f'coding.decompress_mismatch.{coding}', 'decompress_payload(reference encoding) != original', info)
        # --- chunk writer
        chunked = mk_chunks(payload, cs)
        ctx.count('codec.mk_chunks')
        got, why = L.check_chunked(chunked)
        if why is not None:
            ctx.witness('chunk.writer_invalid_framing', f'mk_chunks output violates RFC 7230 4.1: {why}', {**info, 'tail': chunked[-30:]})
        elif got != payload:
            ctx.witness('chunk.writer_payload_changed', 'payload of the chunks written by mk_chunks differs from the input', info)
        # largest chunk must respect chunk_size
        # --- response path: http.client de-chunks, read_response_body decodes
        head = b'HTTP/1.1 200 Ok\r\nTransfer-Encoding: chunked\r\n' + (f'Content-Encoding: {coding}\r\n'.encode() if coding else b'') + b'\r\n'
        try:
            resp = _http_response(head, chunked)
            got = HTTPReader.read_response_body(resp)
            ctx.count('codec.response_path.chunked')
            if got != body:
                ctx.witness('roundtrip.response_chunked', 'read_response_body(http.client(mk_chunks(compress(body)))) != body', {**info, 'got_len': len(got)})
            resp = _http_response(b'HTTP/1.1 200 Ok\r\nContent-Length: %d\r\n' % len(payload) + (f'Content-Encoding: {coding}\r\n'.encode() if coding else b'') + b'\r\n', payload)
            got = HTTPReader.read_response_body(resp)
            ctx.count('codec.response_path.content_length')
            if got != body:
                ctx.witness('roundtrip.response_content_length', 'read_response_body with Content-Length != body', {**info, 'got_len': len(got)})
        except Exception as ex:  # noqa: BLE001
            ctx.witness('roundtrip.response_exception', f'response path raised {type(ex).__name__} for a valid message', {**info, 'ex': repr(ex)})
        # --- request path: the library's own reader, chunks from mk_chunks and from a reference writer with varying sizes
        variants = [('mk_chunks', chunked)]
        if case % 2 == 0:
            sizes = [rng.randrange(1, max(2, min(len(payload), 5000) + 1)) for _ in range(rng.randrange(1, 5))]
            style = rng.randrange(4)
            # short chunk extensions are valid HTTP/1.1 and the reader's doc string claims to skip them (size line stays < 16 bytes)
            ref = L.ref_chunk(payload, sizes, upper=style == 1, ext=b';a=b' if style == 2 else b'')
            variants.append(('ref_chunk' + ('.ext' if style == 2 else ''), ref))
        for name, data in variants:
            hdr = {'Transfer-Encoding': rng.choice(['chunked', 'chunked', 'Chunked'])}
            if coding:
                hdr['Content-Encoding'] = coding
            msg = _Msg(hdr, data)
            try:
                got = HTTPReader.read_request_body(msg)
            except L.StepBudgetExceeded as ex:
                ctx.witness('roundtrip.request_chunked_spin', 'read_request_body spins on a valid chunked message', {**info, 'variant': name, 'spin': ex.info})
                continue
            except Exception as ex:  # noqa: BLE001
                ctx.witness('roundtrip.request_exception', f'read_request_body raised {type(ex).__name__} for a valid chunked message',
                            {**info, 'variant': name, 'ex': repr(ex), 'head': data[:40]})
                continue
            ctx.count(f'codec.request_path.chunked.{name}')
            if got != body:
                ctx.witness('roundtrip.request_chunked', 'read_request_body(chunked) != original body',
                            {**info, 'variant': name, 'got_len': None if got is None else len(got)})
            if msg.rfile.delivered != len(data):
                ctx.witness('chunk.reader_consumed_wrong_length', f'reader consumed {msg.rfile.delivered} of {len(data)} bytes of the chunked body (next request on the connection is corrupted)',
                            {**info, 'variant': name})
        hdr = {'Content-Length': str(len(payload))}
        if coding:
            hdr['Content-Encoding'] = coding
        tail = b'POST /next HTTP/1.1\r\n'
        msg = _Msg(hdr, payload + tail)
        try:
            got = HTTPReader.read_request_body(msg)
            ctx.count('codec.request_path.content_length')
            if got != body:
                ctx.witness('roundtrip.request_content_length', 'read_request_body(Content-Length) != original body', info)
            if msg.rfile.read() != tail:
                ctx.witness('framing.content_length_overread', 'reader consumed bytes beyond Content-Length', info)
        except Exception as ex:  # noqa: BLE001
            ctx.witness('roundtrip.request_exception', f'read_request_body raised {type(ex).__name__} for a valid message', {**info, 'ex': repr(ex)})
        ctx.case(shape)
        if case == 0:
            ctx.sample({'sub': 'codec', **info, 'wire_head': chunked[:60]})


# ---------------------------------------------------------------------------------------------------------------
# (2) unsupported / corrupt codings must be rejected, never returned as if decoded
# ---------------------------------------------------------------------------------------------------------------
def _mutate_stream(rng, data: bytes):
    k = rng.randrange(7)
    if k == 0 and len(data) > 1:
        return 'truncate', data[:rng.randrange(0, len(data))]
    if k == 1 and data:
        b = bytearray(data)
        i = rng.randrange(len(b))
        b[i] ^= 1 << rng.randrange(8)
        return 'bitflip', bytes(b)
    if k == 2 and len(data) > 2:
        return 'drop_prefix', data[rng.randrange(1, min(12, len(data))):]
    if k == 3:
        return 'append', data + rng.randbytes(rng.randrange(1, 9))
    if k == 4:
        return 'random', rng.randbytes(rng.randrange(0, 64))
    if k == 5 and len(data) > 4:
        i = rng.randrange(len(data) - 1)
        j = rng.randrange(i + 1, len(data))
        return 'cut_middle', data[:i] + data[j:]
    return 'plain_not_coded', b'<xml>plain text that was never compressed</xml>'


def w_reject(ctx: core.Ctx, arg):
    from sdc11073.httpserver.compression import CompressionHandler
    from sdc11073.httpserver.httpreader import HTTPReader
    rng = ctx.rng('reject', arg['i'])
    registered = list(CompressionHandler.available_encodings)
    # (optional white space around a header value is not part of the value: ' gzip' is gzip)
    unknown = ['br', 'deflate', 'identity', 'compress', 'GZIP', 'Gzip', 'x-gzip', 'gzip, gzip', 'gzip,x-lz4', 'zstd', 'X-LZ4',
               'none', 'utf-8', '*', 'g', 'gzi']
    for case in range(arg['n']):
        body, kind = gen_body(rng, rng.randrange(1, 3000))
        path = rng.choice(['request', 'response'])

        def read(enc, data):
            if path == 'request':
                return HTTPReader.read_request_body(_Msg({'Content-Length': str(len(data)), 'Content-Encoding': enc}, data))
            head = b'HTTP/1.1 200 Ok\r\nContent-Length: %d\r\nContent-Encoding: ' % len(data) + enc.encode('latin-1') + b'\r\n\r\n'
            return HTTPReader.read_response_body(_http_response(head, data))
        if case % 7 == 3:
            # the same coding list written as repeated header lines (RFC 7230 3.2.2): rejected, or decoded completely - never half
            c1, c2 = rng.choice(registered), rng.choice(registered)
            wire = L.ref_encode(c2, L.ref_encode(c1, body))
            ctx.count(f'reject.repeated_header.{path}.cases')
            try:
                if path == 'request':
                    raw_h = b'Content-Length: %d\r\nContent-Encoding: %s\r\nContent-Encoding: %s\r\n\r\n' % (len(wire), c1.encode(), c2.encode())
                    msg = _Msg({}, wire)
                    msg.headers = http.client.parse_headers(io.BytesIO(raw_h))     # the class the real request handler has in self.headers
                    got = HTTPReader.read_request_body(msg)
                else:
                    head = b'HTTP/1.1 200 Ok\r\nContent-Length: %d\r\nContent-Encoding: %s\r\nContent-Encoding: %s\r\n\r\n' % (len(wire), c1.encode(), c2.encode())
                    got = HTTPReader.read_response_body(_http_response(head, wire))
            except Exception:  # noqa: BLE001
                ctx.count(f'reject.repeated_header.{path}.rejected')
            else:
                if got == body:
                    ctx.count(f'reject.repeated_header.{path}.decoded_completely')
                else:
                    ctx.witness(f'coding.repeated_header_first_only.{path}', f'body coded with {c1} and then {c2} (two Content-Encoding header lines) was '
                                'returned half decoded', {'codings': [c1, c2], 'path': path, 'got_head': None if got is None else got[:30]})
            ctx.case(('repeated_header', c1, c2, path))
            continue
        if case % 3 == 0:
            enc = rng.choice(unknown)
            coded = rng.choice([body, L.ref_encode('gzip', body), L.ref_encode('lz4', body)])
            ctx.count('reject.unsupported.cases')
            try:
                got = read(enc, coded)
            except Exception:  # noqa: BLE001
                ctx.count('reject.unsupported.rejected')
            else:
                # header values are compared exactly by the library; a value that (after trimming / lower-casing) is no registered
                # coding and is returned anyway is a misinterpretation
                ctx.witness('coding.unsupported_accepted', f'message with Content-Encoding {enc!r} (not registered) was returned instead of rejected',
                            {'enc': enc, 'path': path, 'got': None if got is None else got[:40]})
            ctx.case(('unsupported', enc, path))
            continue
        coding = rng.choice(registered)
        good = CompressionHandler.compress_payload(coding, body) if rng.random() < 0.5 else L.ref_encode(coding, body)
        how, bad = _mutate_stream(rng, good)
        if bad == good:
            continue
        try:
            ref = L.ref_decode(coding, bad)
            ref_ok = True
        except Exception:  # noqa: BLE001
            ref, ref_ok = None, False
        ctx.count('reject.corrupt.cases')
        try:
            got = read(coding, bad)
        except Exception:  # noqa: BLE001
            ctx.count('reject.corrupt.rejected')
            got = None
            raised = True
        else:
            raised = False
        if not raised:
            if got == body:
                ctx.count('reject.corrupt.original_recovered')       # e.g. trailing garbage ignored: not misinterpreted
            elif ref_ok and got == ref:
                ctx.count('reject.corrupt.valid_stream_of_other_message')  # the coding cannot detect it (lz4 without checksum)
            elif not ref_ok:
                ctx.witness(f'coding.corrupt_accepted.{coding}', f'corrupt {coding} stream ({how}) was returned as if decoded',
                            {'how': how, 'path': path, 'got_head': None if got is None else got[:40], 'body_head': body[:40]})
            else:
                ctx.witness(f'coding.decode_mismatch.{coding}', 'decoder returned something else than the reference decoder',
                            {'how': how, 'path': path})
        ctx.case(('corrupt', coding, how, path, raised))
        if case == 1:
            ctx.sample({'sub': 'reject', 'coding': coding, 'mutation': how, 'path': path, 'rejected': raised})


# ---------------------------------------------------------------------------------------------------------------
# (3) end to end through the real request handler (echo component) + negotiation of the response coding
# ---------------------------------------------------------------------------------------------------------------
class Echo:
    def __init__(self):
        self.seen = []

    def do_post(self, headers, path, peer, body):
        self.seen.append(body)
        return 200, 'Ok', body if body is not None else b''

    def do_get(self, headers, path, peer):
        return 200, 'Ok', self.get_body, 'text/xml; charset=utf-8'


def _raw_body(out: bytes) -> bytes:
    i = out.find(b'\r\n\r\n')
    return out[i + 4:]


def _check_length_headers(ctx, p, where, info):
    """RFC 7230 3.3.2: a message with Transfer-Encoding must not carry Content-Length; Content-Length must not be repeated with different values."""
    cl = [v for k, v in p.headers if k.lower() == 'content-length']
    te = [v for k, v in p.headers if k.lower() == 'transfer-encoding']
    ctx.count(f'framing.length_headers_checked.{where}')
    if te and cl:
        ctx.witness(f'framing.length_and_chunked.{where}', 'message carries Transfer-Encoding AND Content-Length', {**info, 'headers': p.headers})
    elif len(set(x.strip() for x in cl)) > 1 or len(te) > 1:
        ctx.witness(f'framing.length_header_repeated.{where}', 'message carries several different Content-Length / Transfer-Encoding headers',
                    {**info, 'headers': p.headers})
    ce = [v for k, v in p.headers if k.lower() == 'content-encoding']
    if len(ce) > 1:
        ctx.witness(f'coding.header_repeated.{where}', 'message carries several Content-Encoding headers', {**info, 'headers': p.headers})


def _check_response(ctx, res, want_body, header, enabled, chunk_size, info, where='response'):
    if res.escaped is not None or res.spin is not None or not res.responses or not res.responses[0].complete:
        ctx.witness('l2.valid_request_failed', 'a valid request did not produce a complete response',
                    {**info, 'escaped': repr(res.escaped), 'spin': res.spin, 'tb': res.escaped_tb, 'out': res.out[:200]})
        return None
    p = res.responses[0]
    if p.status != 200:
        ctx.witness('l2.valid_request_status', f'a valid request was answered with {p.status}', {**info, 'resp': p.as_dict()})
        return None
    te = p.header('transfer-encoding')
    _check_length_headers(ctx, p, where, info)
    if chunk_size > 0:
        if (te or '').lower() != 'chunked':
            ctx.witness('chunk.not_used', 'server.chunk_size > 0 but the response is not chunked', info)
        else:
            ctx.count('l2.response.chunked')
            payload, why = L.check_chunked(_raw_body(res.out))
            if why is not None:
                ctx.witness('chunk.writer_invalid_framing', f'chunked response violates RFC 7230 4.1: {why}', {**info, 'tail': res.out[-40:]})
            elif payload != p.body:
                ctx.witness('chunk.parser_disagreement', 'http.client and the grammar checker extract different payloads', info)
    else:
        ctx.count('l2.response.content_length')
    chosen = p.header('content-encoding')
    verdict = judge_choice(ctx, where, header, chosen, enabled, {**info, 'accept_encoding': header, 'content_encoding': chosen, 'enabled': list(enabled)})
    body = p.body
    if chosen is not None:
        try:
            body = L.ref_decode(chosen, body)
        except Exception as ex:  # noqa: BLE001
            ctx.witness('coding.response_not_decodable', f'response body is not valid {chosen}: {ex!r}', info)
            return verdict
    if body != want_body:
        ctx.witness('roundtrip.l2_response', 'decoded response body differs from what the component returned', {**info, 'got_len': len(body), 'want_len': len(want_body)})
    return verdict


def w_l2(ctx: core.Ctx, arg):
    from sdc11073.dispatch import PathElementRegistry
    from sdc11073.httpserver.compression import CompressionHandler
    from sdc11073.httpserver.httpreader import mk_chunks
    rng = ctx.rng('l2', arg['i'])
    registered = list(CompressionHandler.available_encodings)
    echo = Echo()
    reg = PathElementRegistry()
    reg.register_instance('echo', echo)
    enabled_sets = [registered, ['gzip'], ['x-lz4'], [], ['lz4', 'gzip'], ['x-lz4', 'lz4']]
    headers = list(AE_DIRECTED) if arg['i'] == 0 else []
    for case in range(arg['n']):
        enabled = rng.choice(enabled_sets) if case >= len(enabled_sets) else enabled_sets[case]
        if arg['i'] == 0 and case < len(AE_DIRECTED):
            enabled = registered
        cs_out = rng.choice([0, 0, gen_chunk_size(rng)])
        srv = L.FakeServer(reg, cs_out, list(enabled))
        header = headers[case] if case < len(headers) else (gen_accept(rng) if rng.random() < 0.85 else rng.choice(AE_DIRECTED))
        method = 'GET' if rng.random() < 0.15 else 'POST'
        cs_in = rng.choice([0, gen_chunk_size(rng)])
        n = gen_size(rng, cs_in or cs_out, arg.get('big', False))
        if (0 < cs_in < 32 or 0 < cs_out < 32) and n > 6000:
            n %= 6000
        if n > (1 << 19) and (0 < cs_in < 65536 or 0 < cs_out < 65536):
            n %= 70000
        body, kind = gen_body(rng, n)
        req_coding = rng.choice([None, None] + registered)
        info = {'method': method, 'accept_encoding': header, 'enabled': list(enabled), 'chunk_in': cs_in, 'chunk_out': cs_out, 'len': n,
                'kind': kind, 'request_coding': req_coding}
        hdrs = [('Host', 'x')]
        if header is not None:
            hdrs.append(('Accept-Encoding', header))
        if method == 'GET':
            echo.get_body = body
            raw = L.mk_request('GET', '/echo/?wsdl', hdrs)
        else:
            payload = CompressionHandler.compress_payload(req_coding, body) if req_coding else body
            if req_coding:
                hdrs.append(('Content-Encoding', req_coding))
            if cs_in:
                hdrs.append(('Transfer-Encoding', 'chunked'))
                wire = mk_chunks(payload, cs_in) if rng.random() < 0.7 else L.ref_chunk(payload, [rng.randrange(1, 3000) for _ in range(3)])
            else:
                hdrs.append(('Content-Length', str(len(payload))))
                wire = payload
            raw = L.mk_request('POST', '/echo', hdrs, wire)
        echo.seen.clear()
        res = L.feed(srv, raw, methods=[method])
        ctx.count(f'l2.requests.{method}')
        if method == 'POST' and res.escaped is None and res.spin is None:
            if echo.seen != [body]:
                ctx.witness('roundtrip.l2_request', 'component received something else than the body that was sent',
                            {**info, 'seen': [None if s is None else len(s) for s in echo.seen]})
            else:
                ctx.count('l2.request_body_delivered_intact')
        verdict = _check_response(ctx, res, body, header, enabled, cs_out, info)
        ctx.case(('l2', method, header_shape(header), tuple(enabled), bool(cs_in), bool(cs_out), req_coding, verdict, _size_class(n)))
        if case < 2:
            ctx.sample({'sub': 'l2', **info, 'verdict': verdict, 'response_head': res.out[:160]})
        if case % 3 == 0:
            _keepalive_case(ctx, rng, reg, echo, enabled, cs_out, registered)
        if case % 4 == 1:
            _rejected_then_next(ctx, rng, enabled, cs_out, registered)
        if case % 5 == 2:
            _repeated_header_case(ctx, rng, case // 5, enabled, cs_out, registered)


def _rejected_then_next(ctx, rng, enabled, cs_out, registered):
    """request 1 carries a body in an unsupported or corrupt coding (the body itself looks like an HTTP request), request 2 on the same
    connection is valid: 1 is rejected, and its body is never interpreted - neither as payload nor as a further request."""
    from sdc11073.dispatch import PathElementRegistry
    from sdc11073.httpserver.compression import CompressionHandler
    echo = Echo()
    reg = PathElementRegistry()
    reg.register_instance('echo', echo)
    srv = L.FakeServer(reg, cs_out, list(enabled))
    smuggled = L.mk_request('POST', '/echo', [('Host', 'x'), ('Content-Length', '7')], b'SMUGGLE')
    kind = rng.choice(['unsupported', 'unsupported', 'unsupported_case', 'corrupt', 'two_codings'])
    if kind == 'corrupt':
        coding = rng.choice(registered)
        bad = bytearray(CompressionHandler.compress_payload(coding, smuggled * 3))
        bad[len(bad) // 2] ^= 0xFF
        bad = bytes(bad[:-3]) + smuggled
    else:
        coding = {'unsupported': rng.choice(['br', 'deflate', 'zstd', 'compress']), 'unsupported_case': 'GZIP-2',
                  'two_codings': 'gzip, br'}[kind]
        bad = smuggled
    chunked = rng.random() < 0.3
    hdrs = [('Host', 'x'), ('Content-Encoding', coding)]
    if chunked:
        hdrs.append(('Transfer-Encoding', 'chunked'))
        wire = L.ref_chunk(bad, [rng.randrange(5, 60)])
    else:
        hdrs.append(('Content-Length', str(len(bad))))
        wire = bad
    body2, _ = gen_body(rng, rng.randrange(1, 500))
    raw = L.mk_request('POST', '/echo', hdrs, wire) + L.mk_request('POST', '/echo', [('Host', 'x'), ('Content-Length', str(len(body2)))], body2)
    res = L.feed(srv, raw, methods=['POST', 'POST', 'POST', 'POST'])
    ctx.count(f'reject_then_next.{kind}')
    info = {'kind': kind, 'content_encoding': coding, 'chunked': chunked, 'enabled': list(enabled)}
    if res.escaped is not None or res.spin is not None:
        ctx.witness('l2.rejected_request_failed', 'a request in an unsupported / corrupt coding made the handler fail',
                    {**info, 'escaped': repr(res.escaped), 'spin': res.spin, 'tb': res.escaped_tb})
        return
    statuses = [p.status for p in res.responses]
    if not res.responses or res.responses[0].status is None or res.responses[0].status < 400:
        if any(b'SMUGGLE' in (x or b'') for x in echo.seen) or echo.seen[:1] == [bad]:
            ctx.witness('coding.unsupported_accepted', f'a body in Content-Encoding {coding!r} was handed to the component', {**info, 'statuses': statuses})
        return
    ctx.count('reject_then_next.rejected')
    smuggled_seen = [x for x in echo.seen if x is not None and b'SMUGGLE' in x] + [x for x in echo.seen if x != body2]
    if smuggled_seen or len(res.responses) > 2:
        ctx.witness('coding.rejected_body_interpreted', 'the body of a request that was rejected for its content coding was interpreted afterwards '
                    '(as payload or as a further request on the connection)', {**info, 'statuses': statuses,
                                                                               'component_saw': [x[:40] for x in echo.seen if x is not None]})
        return
    if len(res.responses) == 2:
        ctx.count('reject_then_next.second_request_served')
        p = res.responses[1]
        if p.status != 200 or echo.seen != [body2]:
            ctx.witness('roundtrip.l2_request_after_rejected', 'the valid request after a rejected one was not served with its own body',
                        {**info, 'statuses': statuses, 'seen': [None if x is None else len(x) for x in echo.seen]})
    else:
        ctx.count('reject_then_next.connection_closed')


def _repeated_header_case(ctx, rng, k, enabled, cs_out, registered):
    """Content-Encoding given in two header lines = the list "c1, c2" (RFC 7230 3.2.2): the body was coded with c1, then with c2.  The
    library supports no lists of codings: the message is rejected (as it is when the list is written in one line), or - if an
    implementation did support it - the component gets the original; it never gets a half decoded body."""
    from sdc11073.dispatch import PathElementRegistry
    echo = Echo()
    reg = PathElementRegistry()
    reg.register_instance('echo', echo)
    srv = L.FakeServer(reg, cs_out, list(enabled))
    pairs = [(a, b) for a in registered for b in registered]
    c1, c2 = pairs[k % len(pairs)] if k < 2 * len(pairs) else rng.choice(pairs)
    body, kind = gen_body(rng, rng.randrange(1, 3000))
    wire = L.ref_encode(c2, L.ref_encode(c1, body))
    one_line = k % 3 == 2
    hdrs = [('Host', 'x')] + ([('Content-Encoding', f'{c1}, {c2}')] if one_line else [('Content-Encoding', c1), ('Content-Encoding', c2)])
    chunked = rng.random() < 0.3
    if chunked:
        hdrs.append(('Transfer-Encoding', 'chunked'))
        wire = L.ref_chunk(wire, [rng.randrange(5, 600)])
    else:
        hdrs.append(('Content-Length', str(len(wire))))
    res = L.feed(srv, L.mk_request('POST', '/echo', hdrs, wire), methods=['POST'])
    info = {'codings': [c1, c2], 'one_line': one_line, 'chunked': chunked, 'len': len(body), 'kind': kind, 'enabled': list(enabled)}
    ctx.count('repeated_header.request.cases')
    ctx.case(('repeated_header', c1, c2, one_line, chunked))
    if res.escaped is not None or res.spin is not None or not res.responses:
        ctx.witness('l2.rejected_request_failed', 'a request in an unsupported / corrupt coding made the handler fail',
                    {**info, 'escaped': repr(res.escaped), 'spin': res.spin, 'tb': res.escaped_tb})
        return
    status = res.responses[0].status
    if status is not None and status >= 400 and not echo.seen:
        ctx.count('repeated_header.request.rejected')
    elif echo.seen == [body]:
        ctx.count('repeated_header.request.decoded_completely')
    else:
        ctx.witness('coding.repeated_header_first_only.request',
                    f'request coded with {c1} and then {c2} (Content-Encoding in {"one line" if one_line else "two header lines"}): the component was '
                    'handed a body that is not the original', {**info, 'status': status, 'seen_head': [None if x is None else x[:30] for x in echo.seen]})


def _keepalive_case(ctx, rng, reg, echo, enabled, cs_out, registered):
    """2..4 requests on ONE connection, each with its own Accept-Encoding: every response is judged against the header of its own request."""
    from sdc11073.httpserver.compression import CompressionHandler
    srv = L.FakeServer(reg, cs_out, list(enabled))
    k = rng.randrange(2, 5)
    plan, raw, methods = [], b'', []
    first_accepts = rng.choice([c for c in enabled] or registered) if rng.random() < 0.7 else None
    for j in range(k):
        if j == 0 and first_accepts:
            header = first_accepts
        else:
            header = rng.choice([None, 'identity', f'{rng.choice(registered)};q=0', 'br', gen_accept(rng), rng.choice(AE_DIRECTED), rng.choice(registered)])
        body, _ = gen_body(rng, rng.randrange(1, 3000))
        hdrs = [('Host', 'x')]
        if header is not None:
            hdrs.append(('Accept-Encoding', header))
        method = 'GET' if rng.random() < 0.2 else 'POST'
        if method == 'GET':
            body = b'<wsdl/>' * (j + 1)
            raw += L.mk_request('GET', '/echo/?wsdl', hdrs)
        else:
            req_coding = rng.choice([None, None] + registered)
            payload = CompressionHandler.compress_payload(req_coding, body) if req_coding else body
            if req_coding:
                hdrs.append(('Content-Encoding', req_coding))
            hdrs.append(('Content-Length', str(len(payload))))
            raw += L.mk_request('POST', '/echo', hdrs, payload)
        plan.append((method, header, body))
        methods.append(method)
    gets = iter([b for m, h, b in plan if m == 'GET'])

    class SeqEcho(Echo):
        def do_get(self, headers, path, peer):
            return 200, 'Ok', next(gets), 'text/xml; charset=utf-8'
    seq = SeqEcho()
    reg2 = type(reg)()
    reg2.register_instance('echo', seq)
    srv = L.FakeServer(reg2, cs_out, list(enabled))
    res = L.feed(srv, raw, methods=methods)
    ctx.count('l2.keepalive.connections')
    info = {'requests': [(m, h, len(b)) for m, h, b in plan], 'enabled': list(enabled), 'chunk_out': cs_out}
    if res.escaped is not None or res.spin is not None:
        ctx.witness('l2.valid_request_failed', 'valid requests on one connection did not produce complete responses',
                    {**info, 'escaped': repr(res.escaped), 'spin': res.spin, 'tb': res.escaped_tb})
        return
    if len(res.responses) != k or not all(p.complete for p in res.responses):
        if len(res.responses) < k and res.responses and all(p.complete for p in res.responses) and \
                (res.responses[-1].header('connection') or '').lower() == 'close':
            ctx.count('l2.keepalive.server_closed_early')   # the server may close a connection; the responses sent are still judged
        else:
            ctx.witness('l2.keepalive.response_count', f'{k} valid requests on one connection, {len(res.responses)} responses',
                        {**info, 'responses': [p.as_dict() for p in res.responses][:4]})
            return
    for j, (p, (method, header, body)) in enumerate(zip(res.responses, plan)):
        ctx.count('l2.keepalive.responses')
        if j > 0:
            ctx.count('l2.keepalive.later_responses')
        if p.status != 200:
            ctx.witness('l2.valid_request_status', f'a valid request was answered with {p.status}', {**info, 'index': j, 'resp': p.as_dict()})
            continue
        chosen = p.header('content-encoding')
        _check_length_headers(ctx, p, 'response', {**info, 'index_on_connection': j})
        judge_choice(ctx, 'response', header, chosen, enabled, {**info, 'index_on_connection': j, 'accept_encoding': header, 'content_encoding': chosen})
        got = p.body
        if chosen is not None:
            try:
                got = L.ref_decode(chosen, got)
            except Exception as ex:  # noqa: BLE001
                ctx.witness('coding.response_not_decodable', f'response body is not valid {chosen}: {ex!r}', {**info, 'index': j})
                continue
        if got != body:
            ctx.witness('roundtrip.l2_response', 'decoded response body differs from what the component returned',
                        {**info, 'index_on_connection': j, 'got_len': len(got), 'want_len': len(body)})


# ---------------------------------------------------------------------------------------------------------------
# (4) the library's own clients against the echo server (request coding choice, chunking, response decoding)
# ---------------------------------------------------------------------------------------------------------------
class _FakeCreated:
    def __init__(self, data):
        self.data = data
        self.p_msg = None

    def serialize(self, **kw):
        return self.data


class _FakeReader:
    def read_received_message(self, data, validate=True):
        class R:
            action = 'x'
        r = R()
        r.data = data
        return r


def w_clients(ctx: core.Ctx, arg):
    import asyncio
    from sdc11073.dispatch import PathElementRegistry
    from sdc11073.httpserver.compression import CompressionHandler
    from sdc11073.definitions_sdc import SdcV1Definitions
    from .. import c13env as E
    from .. import c17_aio as A
    A.install_async_fake(E)
    rng = ctx.rng('clients', arg['i'])
    registered = list(CompressionHandler.available_encodings)
    net = E.Net()
    net.record = False
    echo = Echo()
    srv = net.add_server(50009, 0, list(registered))
    srv.dispatcher.register_instance('echo', echo)
    seen = {}

    def monitor(netloc, request, res):
        seen['request'] = request
        seen['res'] = res
    net.monitor = monitor
    sync_cls = E.loop_soap_client(net)
    async_cls = E.loop_soap_client_async(net)
    loop = asyncio.new_event_loop()
    for case in range(arg['n']):
        supported = rng.choice([registered, ['gzip'], ['x-lz4'], [], ['lz4'], ['lz4', 'gzip']])
        accepted = rng.choice([[], ['gzip'], ['x-lz4'], ['lz4', 'gzip'], ['br', 'gzip'], ['br'], ['x-lz4', 'gzip'], ['identity', 'gzip'], ['*']])
        cs = rng.choice([0, 0, gen_chunk_size(rng)])
        n = gen_size(rng, cs, False)
        if 0 < cs < 32 and n > 6000:
            n %= 6000
        use_async = rng.random() < 0.4
        body, kind = gen_body(rng, n, 'xml' if use_async else None)
        if use_async:
            body = b"<?xml version='1.0' encoding='UTF-8'?>\n" + body  # the async client asserts the declaration; text() needs utf-8
            body = body.decode('utf-8', 'ignore').encode('utf-8')
        srv.chunk_size = rng.choice([0, gen_chunk_size(rng)]) if n < 6000 else rng.choice([0, 4096])
        srv.supported_encodings = list(rng.choice([registered, ['gzip'], []]))
        info = {'client': 'async' if use_async else 'sync', 'supported': supported, 'peer_accepts': accepted, 'chunk_size': cs, 'len': len(body), 'kind': kind}
        seen.clear()
        echo.seen.clear()
        try:
            if use_async:
                cl = async_cls('127.0.0.1:50009', 5, L.NullLogger(), None, SdcV1Definitions, _FakeReader(), list(supported), list(accepted), cs)
                r = loop.run_until_complete(cl.async_post_message_to('/echo', _FakeCreated(body)))
                got = None if r is None else r.data
            else:
                cl = sync_cls('127.0.0.1:50009', 5, L.NullLogger(), None, SdcV1Definitions, _FakeReader(), list(supported), list(accepted), cs)
                cl.connect()
                _, got = cl._send_soap_request('/echo', body, 'c17')
        except Exception as ex:  # noqa: BLE001
            res = seen.get('res')
            coding = res.responses[0].header('content-encoding') if res is not None and res.responses else None
            if coding is not None and res.responses[0].status == 200:
                ctx.witness(f'client.coded_response_rejected.{info["client"]}', f'valid response in the coding {coding!r} that the client advertised '
                            f'was not decoded: {type(ex).__name__}', {**info, 'response_coding': coding, 'ex': repr(ex)[:300]})
            else:
                ctx.witness('client.valid_exchange_failed', f'client raised {type(ex).__name__} in an exchange of valid messages', {**info, 'ex': repr(ex)})
            ctx.count(f'clients.exchanges.{info["client"]}')
            continue
        ctx.count(f'clients.exchanges.{info["client"]}')
        request = seen.get('request', b'')
        head, _, wire = request.partition(b'\r\n\r\n')
        hl = {}
        for line in head.split(b'\r\n')[1:]:
            k, _, v = line.partition(b':')
            hl[k.strip().lower().decode('latin-1')] = v.strip().decode('latin-1')
        chosen = hl.get('content-encoding')
        detail = {**info, 'content_encoding': chosen}
        if chosen is not None:
            ctx.count('clients.request_coded')
            if chosen not in supported:
                ctx.witness('negotiation.locally_disabled.client_request', f'client sent Content-Encoding {chosen!r}, enabled locally: {supported}', detail)
            if chosen not in accepted:
                ctx.witness('negotiation.not_offered.client_request', f'client sent Content-Encoding {chosen!r}, peer accepts {accepted}', detail)
        else:
            ctx.count('clients.request_identity')
        if 'transfer-encoding' in hl:
            if 'content-length' in hl:
                ctx.witness(f'framing.length_and_chunked.{info["client"]}_client', 'request carries Transfer-Encoding: chunked AND Content-Length', detail)
            payload, why = L.check_chunked(wire)
            ctx.count('clients.request_chunked')
            if why is not None:
                ctx.witness('chunk.writer_invalid_framing', f'client request violates RFC 7230 4.1: {why}', detail)
                continue
        else:
            payload = wire
        try:
            dec = L.ref_decode(chosen, payload) if chosen else payload
        except Exception as ex:  # noqa: BLE001
            dec = repr(ex)
        if dec != body:
            ctx.witness('roundtrip.client_request', 'request on the wire does not decode to the message', detail)
        if echo.seen != [body]:
            ctx.witness('roundtrip.l2_request', 'component received something else than the body that was sent', detail)
        # what the client advertises must be what it has enabled
        adv = hl.get('accept-encoding')
        if use_async and not supported:
            ctx.count('clients.async_transport_default_accept_encoding')   # aiohttp advertises (and decodes) its own codings when given no header
        elif adv is not None or supported:
            # http.client itself adds "Accept-Encoding: identity" when the caller gives none
            adv_set = [x.strip() for x in (adv or '').split(',') if x.strip() and x.strip() != 'identity']
            if sorted(adv_set) != sorted(supported):
                ctx.witness('negotiation.client_advertises_disabled', f'client advertises Accept-Encoding {adv!r} but has enabled {supported}', detail)
        # response: coded by the server according to the advertised header; client must decode it to the echo
        res = seen.get('res')
        if res is not None and res.responses:
            judge_choice(ctx, 'response', adv, res.responses[0].header('content-encoding'), srv.supported_encodings, detail)
        if (got or b'') != body:
            ctx.witness('roundtrip.client_response', 'client did not return the body the server sent', {**detail, 'got_len': None if got is None else len(got)})
        ctx.case(('client', info['client'], tuple(supported), tuple(accepted), bool(cs), chosen, _size_class(len(body))))
        if case == 0:
            ctx.sample({'sub': 'clients', **detail, 'request_head': head[:300]})
    loop.close()


# ---------------------------------------------------------------------------------------------------------------
# (5) provider role: coding of notifications follows the Accept-Encoding of the Subscribe request
# ---------------------------------------------------------------------------------------------------------------
def w_notify(ctx: core.Ctx, arg):
    from decimal import Decimal
    from .. import c13env as E
    from .. import c17_aio as A
    A.install_async_fake(E)
    mode = arg['mode']
    rng = ctx.rng('notify', mode, arg['i'])
    net = E.Net()
    provider, psrv = E.mk_provider(net, mode=mode, chunk_size=arg.get('chunk', 0))
    consumer, _ = E.mk_consumer(net, provider)
    sub_req = [e['request'] for e in net.log if b'/Subscribe<' in e['request'] and b'EpisodicMetricReport' in e['request']]
    if not sub_req:
        ctx.not_decided('no Subscribe request recorded from the consumer')
        return
    seed = sub_req[0]
    consumer.stop_all(unsubscribe=True)
    net.record = False
    headers = list(AE_DIRECTED) + [gen_accept(rng) for _ in range(arg['n'])]
    by_netloc = {}
    got = {}

    def monitor(netloc, request, res):
        if netloc in by_netloc:
            got.setdefault(netloc, []).append(request)
    net.monitor = monitor
    rounds = [('all', None), ('restricted', ['x-lz4']), ('restricted', ['gzip']), ('none', [])]
    for rnd, (label, restrict) in enumerate(rounds):
        by_netloc.clear()
        got.clear()
        if restrict is not None:
            provider.set_used_compression(*restrict)
        enabled = list(provider._compression_methods)
        accepted_subs = 0
        for i, h in enumerate(headers if rnd == 0 else headers[::3]):
            netloc = f'127.0.0.1:{52000 + rnd * 2000 + i}'
            head, _, body = seed.partition(b'\r\n\r\n')
            body = body.replace(b'127.0.0.1:%d' % E.CONSUMER_PORT, netloc.encode())
            lines = [ln for ln in head.split(b'\r\n') if not ln.lower().startswith((b'accept-encoding', b'content-length'))]
            if h is not None:
                lines.append(b'Accept-Encoding: ' + h.encode('latin-1'))
            lines.append(b'Content-Length: %d' % len(body))
            res = L.feed(psrv, b'\r\n'.join(lines) + b'\r\n\r\n' + body)
            ok = res.responses and res.responses[0].status == 200
            ctx.count(f'notify.{mode}.subscribe.{"accepted" if ok else "refused"}')
            if ok:
                by_netloc[netloc] = h
                accepted_subs += 1
            elif h is None:
                ctx.count(f'notify.{mode}.subscribe_without_accept_encoding_refused')
        # trigger one episodic metric report
        with provider.mdib.metric_state_transaction() as tr:
            st = tr.get_state('numeric.ch1.vmd0')
            if st.MetricValue is None:
                st.mk_metric_value()
            st.MetricValue.Value = Decimal(rnd + 1)
        for netloc, h in by_netloc.items():
            reqs = got.get(netloc, [])
            if not reqs:
                ctx.count(f'notify.{mode}.no_notification')
                continue
            for request in reqs:
                chosen, verdict = _judge_notification(ctx, mode, 'notification', request, h, enabled)
                ctx.case(('notify', mode, label, header_shape(h), chosen, verdict))
        ctx.sample({'sub': 'notify', 'manager': mode, 'round': label, 'enabled': enabled, 'subscriptions': accepted_subs,
                    'notified': sum(len(v) for v in got.values())})
        _drop_subscriptions(provider)
    # --- live subscriptions: the set of locally enabled codings changes WHILE the subscription (and its soap client) exists
    from sdc11073.httpserver.compression import CompressionHandler
    registered = list(CompressionHandler.available_encodings)
    provider.set_used_compression(*registered)
    by_netloc.clear()
    got.clear()
    live = {}
    for i, h in enumerate(registered + [','.join(registered), ','.join(reversed(registered)), '*']):
        netloc = f'127.0.0.1:{61000 + i}'
        head, _, body = seed.partition(b'\r\n\r\n')
        body = body.replace(b'127.0.0.1:%d' % E.CONSUMER_PORT, netloc.encode())
        lines = [ln for ln in head.split(b'\r\n') if not ln.lower().startswith((b'accept-encoding', b'content-length'))]
        lines += [b'Accept-Encoding: ' + h.encode('latin-1'), b'Content-Length: %d' % len(body)]
        res = L.feed(psrv, b'\r\n'.join(lines) + b'\r\n\r\n' + body)
        if res.responses and res.responses[0].status == 200:
            by_netloc[netloc] = h
            live[netloc] = h
    steps = [list(registered), ['x-lz4'], ['gzip'], [], ['lz4', 'gzip'], list(registered)]
    steps += [rng.sample(registered, rng.randrange(0, len(registered) + 1)) for _ in range(arg['n'] // 4)]
    for step, enabled_now in enumerate(steps):
        provider.set_used_compression(*enabled_now)
        got.clear()
        with provider.mdib.metric_state_transaction() as tr:
            st = tr.get_state('numeric.ch1.vmd0')
            st.MetricValue.Value = Decimal(100 + step)
        for netloc, h in live.items():
            for request in got.get(netloc, []):
                ctx.count(f'notify.{mode}.live_notifications')
                chosen, verdict = _judge_notification(ctx, mode, 'notification_live', request, h, list(enabled_now))
                ctx.case(('notify_live', mode, tuple(enabled_now), h, chosen, verdict))
    _drop_subscriptions(provider)


def _drop_subscriptions(provider):
    for mgr in provider._subscriptions_managers.values():
        with mgr._subscriptions.lock:
            for s in list(mgr._subscriptions.objects):
                s.close_by_subscription_manager()
                mgr._subscriptions.remove_object(s)


def _judge_notification(ctx, mode, where, request, h, enabled):
    head, _, wire = request.partition(b'\r\n\r\n')
    m = re.search(rb'(?im)^content-encoding:[ \t]*(.*?)[ \t]*\r?$', head)
    chosen = m.group(1).decode('latin-1') if m else None
    ctx.count(f'notify.{mode}.notifications')
    ctx.count(f'notify.{mode}.notifications_' + ('coded' if chosen else 'identity'))
    detail = {'subscribe_accept_encoding': h, 'content_encoding': chosen, 'enabled': enabled, 'manager': mode}
    verdict = judge_choice(ctx, where, h, chosen, enabled, detail)
    if re.search(rb'(?im)^transfer-encoding:[ \t]*chunked', head):
        ctx.count(f'notify.{mode}.notifications_chunked')
        if re.search(rb'(?im)^content-length:', head):
            ctx.witness(f'framing.length_and_chunked.{mode}_client', 'notification carries Transfer-Encoding: chunked AND Content-Length', detail)
        wire, why = L.check_chunked(wire)
        if why is not None:
            ctx.witness('chunk.writer_invalid_framing', f'notification violates RFC 7230 4.1: {why}', detail)
            return chosen, verdict
    try:
        dec = L.ref_decode(chosen, wire) if chosen else wire
        okxml = b'EpisodicMetricReport' in dec
    except Exception:  # noqa: BLE001
        okxml = False
    if not okxml:
        ctx.witness('roundtrip.notification', 'notification on the wire does not decode to the report', {'accept': h, 'content_encoding': chosen})
    return chosen, verdict


# ---------------------------------------------------------------------------------------------------------------
# (6) set_used_compression reaches the real internal http servers of provider and consumer
# ---------------------------------------------------------------------------------------------------------------
def w_wiring(ctx: core.Ctx, arg):
    import uuid
    from .. import c13env as E
    from sdc11073.mdib import ProviderMdib
    from sdc11073.provider import SdcProvider
    from sdc11073.definitions_sdc import SdcV1Definitions
    from sdc11073.xml_types.dpws_types import ThisDeviceType, ThisModelType
    net = E.Net()
    loop_provider, psrv = E.mk_provider(net)           # only as peer for the consumer
    mdib = ProviderMdib.from_mdib_file(E.repo_file('tests', 'mdib_tns.xml'), protocol_definition=SdcV1Definitions)
    model = ThisModelType(manufacturer='Verif', manufacturer_url='www.example.com', model_name='L2', model_number='1.0',
                          model_url='www.example.com/model', presentation_url='www.example.com/presentation')
    device = ThisDeviceType(friendly_name='L2 device', firmware_version='0.1', serial_number='4711')
    try:
        provider = SdcProvider(E.WsdStub(), model, device, mdib, epr=uuid.UUID(int=77))
        provider.start_all(start_rtsample_loop=False)      # internal HttpServerThreadBase on 127.0.0.1:<ephemeral>
        consumer, _ = E.mk_consumer(net, loop_provider, start=False)
        consumer.start_all(fixed_renew_interval=100000)    # internal event sink server
    except OSError as ex:
        ctx.not_decided(f'loop-back sockets not available for the wiring sub-check: {ex!r}')
        return
    get_mdib = [e['request'] for e in net.log if b'/Get HTTP' in e['request'] and b'POST' in e['request'][:5]]
    for role, obj, httpd in (('provider', provider, provider._http_server.httpd), ('consumer', consumer, consumer._http_server.httpd)):
        path = f'/{obj.path_prefix}/Get/?wsdl' if role == 'provider' else None
        for enabled in (['gzip'], ['x-lz4'], [], ['lz4', 'gzip'], ['gzip', 'x-lz4', 'lz4']):
            obj.set_used_compression(*enabled)
            for h in ('gzip, x-lz4, lz4', 'x-lz4', 'gzip', 'lz4,gzip', '*'):
                if role == 'provider':
                    raw = L.mk_request('GET', path, [('Host', 'x'), ('Accept-Encoding', h)])
                    res = L.feed(httpd, raw, methods=['GET'])
                else:
                    # any POST to the consumer's event sink is answered through the same compressing writer (here: a fault)
                    body = b'<x/>'
                    raw = L.mk_request('POST', f'/{obj.path_prefix}/', [('Host', 'x'), ('Accept-Encoding', h), ('Content-Length', str(len(body)))], body)
                    res = L.feed(httpd, raw)
                ctx.count(f'wiring.{role}.requests')
                if not res.responses or not res.responses[0].complete:
                    ctx.witness(f'wiring.no_response.{role}', 'no response from the real http server object', {'escaped': repr(res.escaped), 'tb': res.escaped_tb})
                    continue
                chosen = res.responses[0].header('content-encoding')
                judge_choice(ctx, f'wiring_{role}', h, chosen, enabled, {'role': role, 'set_used_compression': enabled, 'accept_encoding': h, 'content_encoding': chosen})
                if chosen is None and any(acceptable(ref_accept(h)[1], e) for e in enabled) and len(res.responses[0].body) > 0:
                    ctx.count(f'wiring.{role}.identity_although_possible')
                ctx.case(('wiring', role, tuple(enabled), h, chosen))
    # the client side of set_used_compression: Accept-Encoding advertised by the consumer's soap client
    consumer.set_used_compression('x-lz4')
    n0 = len(net.log)
    try:
        consumer.get_service_client.get_md_state()
    except Exception as ex:  # noqa: BLE001
        ctx.not_decided(f'GetMdState over the loop-back failed: {ex!r}')
    for e in net.log[n0:]:
        m = re.search(rb'(?im)^accept-encoding:[ \t]*(.*?)[ \t]*\r?$', e['request'].partition(b'\r\n\r\n')[0])
        adv = m.group(1).decode() if m else None
        ctx.count('wiring.consumer.client_requests')
        if adv != 'x-lz4':
            ctx.witness('negotiation.client_advertises_disabled', f'after set_used_compression("x-lz4") the consumer advertises {adv!r}', {'request_head': e['request'][:300]})
    try:
        consumer.stop_all(unsubscribe=False)
        provider.stop_all(send_subscription_end=False)
    except Exception:  # noqa: BLE001
        pass


# ---------------------------------------------------------------------------------------------------------------
# (7) the clients on their REAL transports (aiohttp / http.client over TCP) against a scripted peer and the real server:
#     what is really on the wire (framing headers included) and what really happens to a coded / hostile response
# ---------------------------------------------------------------------------------------------------------------
def _wire_headers(req):
    return {k.lower(): v for k, v in req.headers}


def _judge_wire_request(ctx, req, body, supported, accepted, client, info):
    """request as the real transport put it on the wire: framing valid HTTP/1.1, coding negotiated, payload decodes to the message."""
    if req.problem is not None:
        ctx.witness('chunk.writer_invalid_framing', f'client request on the wire cannot be delimited: {req.problem}', {**info, 'head': req.raw_head[:300]})
        return
    ctx.count(f'wire.requests.{client}')
    chosen = req.header('content-encoding')
    detail = {**info, 'content_encoding': chosen}
    has_te, has_cl = bool(req.all_headers('transfer-encoding')), bool(req.all_headers('content-length'))
    if has_te:
        ctx.count(f'wire.requests_chunked.{client}')
        if has_cl:
            # RFC 7230 3.3.2: "A sender MUST NOT send a Content-Length header field in any message that contains a Transfer-Encoding
            # header field" - such a message is what 3.3.3 calls a possible request smuggling attempt
            ctx.witness(f'framing.length_and_chunked.{client.split(".")[0]}_client', 'request carries Transfer-Encoding: chunked AND Content-Length',
                        {**detail, 'head': req.raw_head[:400]})
        payload, why = L.check_chunked(req.raw_body)
        if why is not None:
            ctx.witness('chunk.writer_invalid_framing', f'client request violates RFC 7230 4.1: {why}', {**detail, 'tail': req.raw_body[-40:]})
            return
    else:
        payload = req.raw_body
        if req.method == 'POST' and not has_cl:
            ctx.witness(f'framing.no_length.{client.split(".")[0]}_client', 'POST request without Content-Length and without chunked framing', detail)
    if req.method != 'POST':
        return
    if chosen is not None:
        ctx.count('wire.request_coded')
        if chosen not in supported:
            ctx.witness('negotiation.locally_disabled.client_request', f'client sent Content-Encoding {chosen!r}, enabled locally: {supported}', detail)
        if chosen not in accepted:
            ctx.witness('negotiation.not_offered.client_request', f'client sent Content-Encoding {chosen!r}, peer accepts {accepted}', detail)
    try:
        dec = L.ref_decode(chosen, payload) if chosen else payload
    except Exception as ex:  # noqa: BLE001
        dec = repr(ex)
    if dec != body:
        ctx.witness('roundtrip.client_request', 'request on the wire does not decode to the message', detail)


HOSTILE_TOKENS = ['foo', 'br', 'compress', 'x-unknown', 'gzi', 'zip', 'GZIP', 'X-LZ4', 'deflate', 'identity']


def _plan_response(rng, A, plan, req, resp_body, registered):
    """-> (response bytes, description dict, set of values the client may return besides raising)."""
    from sdc11073.httpserver.compression import CompressionHandler
    chunk_sizes = [rng.randrange(1, 4000) for _ in range(rng.randrange(1, 4))] if rng.random() < 0.5 else None
    kind = plan['kind']
    if kind == 'valid':
        st, items = ref_accept(req.header('accept-encoding'))
        usable = [c for c in registered if st == 'ok' and acceptable(items, c)]
        want = plan.get('coding', '?')
        coding = want if want in usable else (rng.choice(usable) if usable and want == '?' and rng.random() < 0.8 else None)
        if coding is None:
            return A.mk_response(body=resp_body, chunk_sizes=chunk_sizes), {'coding': None, 'chunked': bool(chunk_sizes)}, {resp_body}
        if rng.random() < 0.3:
            wire, how = CompressionHandler.compress_payload(coding, resp_body), 'library'
        else:
            wire, how = A.ref_encode_var(rng, coding, resp_body)
        return (A.mk_response(headers=[('Content-Encoding', coding)], body=wire, chunk_sizes=chunk_sizes, upper=rng.random() < 0.2),
                {'coding': coding, 'encoder': how, 'chunked': bool(chunk_sizes)}, {resp_body})
    if kind == 'unsupported':
        token = plan.get('token') or rng.choice(HOSTILE_TOKENS)
        really = {'gzip': 'gzip', 'x-lz4': 'lz4', 'lz4': 'lz4', 'deflate': 'deflate', 'identity': None}.get(token.lower(), 'none')
        shape = plan.get('shape') or rng.choice(['plain', 'plain', 'really', 'other'])
        allowed = set()
        if shape == 'really' and really != 'none':
            wire = A.ref_encode_var(rng, really, resp_body)[0] if really else resp_body
            allowed = {resp_body}      # a transport that knows the token (case-insensitively) and decodes it correctly is not a misinterpretation
        elif shape == 'other':
            wire = L.ref_encode(rng.choice(['gzip', 'lz4']), resp_body)
            if really in ('gzip', 'lz4', 'deflate'):
                try:
                    if L.ref_decode(really, wire) == resp_body:
                        allowed = {resp_body}
                except Exception:  # noqa: BLE001
                    pass
        else:
            wire = resp_body
            if really is None:
                allowed = {resp_body}   # identity = no coding
        return (A.mk_response(headers=[('Content-Encoding', token)], body=wire, chunk_sizes=chunk_sizes),
                {'token': token, 'shape': shape, 'chunked': bool(chunk_sizes)}, allowed)
    if kind == 'repeated':
        # two header lines are the list "gzip, gzip" (RFC 7230 3.2.2): the body is coded twice
        c1, c2 = plan.get('pair') or (rng.choice(registered), rng.choice(registered))
        inner = L.ref_encode(c1, resp_body)
        wire = L.ref_encode(c2, inner)
        return (A.mk_response(headers=[('Content-Encoding', c1), ('Content-Encoding', c2)], body=wire, chunk_sizes=chunk_sizes),
                {'codings': [c1, c2], 'chunked': bool(chunk_sizes)}, {resp_body})
    # corrupt stream in a coding the client advertised (or any registered one)
    st, items = ref_accept(req.header('accept-encoding'))
    usable = [c for c in registered if st == 'ok' and acceptable(items, c)] or registered
    coding = plan.get('coding') if plan.get('coding') in usable else rng.choice(usable)
    good = L.ref_encode(coding, resp_body)
    how, bad = _mutate_stream(rng, good)
    if how == 'random' and not bad:
        how, bad = 'truncate', good[:len(good) // 2]
    if plan.get('mutation') == 'plain_not_coded':
        how, bad = 'plain_not_coded', b'<xml>plain text that was never compressed</xml>'
    allowed = {resp_body}
    try:
        allowed.add(L.ref_decode(coding, bad))     # the coding cannot detect it (e.g. lz4 without checksum): not the client's fault
    except Exception:  # noqa: BLE001
        pass
    return (A.mk_response(headers=[('Content-Encoding', coding)], body=bad, chunk_sizes=chunk_sizes),
            {'coding': coding, 'mutation': how, 'chunked': bool(chunk_sizes)}, allowed)


def _is_watchdog(ex):
    import asyncio
    import socket
    return isinstance(ex, (asyncio.TimeoutError, socket.timeout, TimeoutError))


def w_wire(ctx: core.Ctx, arg):
    import asyncio
    from sdc11073.definitions_sdc import SdcV1Definitions
    from sdc11073.httpserver.compression import CompressionHandler
    from sdc11073.pysoap.soapclient import SoapClient
    from sdc11073.pysoap.soapclient_async import SoapClientAsync
    from .. import c17_aio as A
    rng = ctx.rng('wire', arg['i'])
    registered = list(CompressionHandler.available_encodings)
    try:
        peer = A.RawPeer()
    except OSError as ex:
        ctx.not_decided(f'loop-back sockets not available for the wire sub-check: {ex!r}')
        return
    loop = asyncio.new_event_loop()
    state = {}

    def script(req):
        out, desc, allowed = _plan_response(state['rng'], A, state['plan'], req, state['resp_body'], registered)
        state['desc'], state['allowed'] = desc, allowed
        return out
    peer.script = script
    # directed sessions first (worker 0): every client kind x every registered coding x response kind, then seeded sessions
    directed = []
    if arg['i'] == 0:
        for client in ('async.post', 'sync.post', 'sync.get'):
            for c in registered:
                directed.append((client, [c], [{'kind': 'valid', 'coding': c}, {'kind': 'valid', 'coding': c}, {'kind': 'corrupt', 'coding': c}]))
            directed.append((client, list(registered), [{'kind': 'valid', 'coding': c} for c in reversed(registered)]))
            directed.append((client, list(registered), [{'kind': 'unsupported', 'token': 'foo', 'shape': 'plain'}]))
            directed.append((client, list(registered), [{'kind': 'unsupported', 'token': 'br', 'shape': 'plain'}]))
            directed.append((client, list(registered), [{'kind': 'repeated', 'pair': ('gzip', 'gzip')}]))
            for c in ('gzip', 'x-lz4'):
                directed.append((client, list(registered), [{'kind': 'corrupt', 'coding': c, 'mutation': 'plain_not_coded'}]))
            directed.append((client, [], [{'kind': 'valid'}, {'kind': 'unsupported', 'token': 'x-unknown', 'shape': 'other'}]))
    supported_sets = [list(registered), ['gzip'], ['x-lz4'], ['lz4'], ['x-lz4', 'gzip'], list(reversed(registered)), []]
    for sess in range(arg['n']):
        if sess < len(directed):
            client, supported, plans = directed[sess]
            supported = list(supported)
        else:
            client = rng.choice(['async.post', 'async.post', 'sync.post', 'sync.get'])
            supported = list(rng.choice(supported_sets))
            plans = [{'kind': 'valid'} for _ in range(rng.randrange(1, 4))]
            if rng.random() < 0.5:
                plans.append({'kind': rng.choice(['unsupported', 'corrupt', 'corrupt', 'repeated'])})
        accepted = rng.choice([[], [], ['gzip'], ['x-lz4'], ['lz4', 'gzip'], ['br', 'gzip'], ['*'], list(registered)])
        cs = rng.choice([0, 0, gen_chunk_size(rng)])
        kind_cls = client.split('.')[0]
        reader = A.XmlReader()
        if kind_cls == 'async':
            cl = SoapClientAsync(peer.netloc, A.WATCHDOG_S, L.NullLogger(), None, SdcV1Definitions, reader, supported, list(accepted), cs)
        else:
            cl = SoapClient(peer.netloc, A.WATCHDOG_S, L.NullLogger(), None, SdcV1Definitions, reader, supported, list(accepted), cs)
        ctx.count(f'wire.sessions.{kind_cls}')
        for idx, plan in enumerate(plans):
            n = gen_size(rng, cs, False) % (6000 if 0 < cs < 32 else 70000)
            body, bkind = A.xml_body(rng, n)
            # multi-megabyte bodies only in valid responses: aiohttp 3.14.3 itself dies (SIGSEGV in its C parser) on a gzip member of a
            # multi-megabyte body followed by garbage when auto_decompress is on (scratch/c17_aiohttp_segv.py) - not the library under test
            big = arg.get('big') and plan['kind'] == 'valid' and rng.random() < 0.006
            resp_body, rkind = A.xml_body(rng, rng.randrange(1 << 20, 4 << 20) if big else gen_size(rng, 512, False), 'repeat' if big else None)
            state.update(rng=rng, plan=plan, resp_body=resp_body, desc=None, allowed=None)
            info = {'client': client, 'supported': supported, 'peer_accepts': accepted, 'chunk_size': cs, 'len': len(body), 'kind': bkind,
                    'response_plan': plan, 'exchange_on_client': idx}
            n_req = len(peer.requests)
            got, exc = None, None
            try:
                if client == 'async.post':
                    r = loop.run_until_complete(cl.async_post_message_to('/c17', A.Created(body)))
                    got = None if r is None else r.data
                elif client == 'sync.post':
                    r = cl.post_message_to('/c17', A.Created(body), 'c17')
                    got = None if r is None else r.data
                else:
                    got = cl.get_from_url('/c17/?wsdl', 'c17')
            except Exception as ex:  # noqa: BLE001
                exc = ex
            if peer.timed_out or peer.errors or (exc is not None and _is_watchdog(exc)):
                ctx.not_decided(f'wire rig: watchdog / socket problem (timed_out={peer.timed_out}, errors={peer.errors[:2]}, exc={exc!r})')
                break
            if len(peer.requests) != n_req + 1:
                if exc is not None and len(peer.requests) == n_req:
                    ctx.witness('client.valid_exchange_failed', f'client raised {type(exc).__name__} before a request reached the peer', {**info, 'ex': repr(exc)})
                else:
                    ctx.witness('client.request_count', f'one call of the client produced {len(peer.requests) - n_req} requests', info)
                break
            req = peer.requests[-1]
            desc, allowed = state['desc'], state['allowed']
            info = {**info, 'response': desc}
            _judge_wire_request(ctx, req, body, supported, accepted, client, info)
            adv = req.header('accept-encoding')
            if kind_cls == 'sync' or supported:
                adv_set = [x.strip() for x in (adv or '').split(',') if x.strip() and x.strip() != 'identity']
                if sorted(adv_set) != sorted(supported):
                    ctx.witness('negotiation.client_advertises_disabled', f'client advertises Accept-Encoding {adv!r} but has enabled {supported}', info)
            else:
                ctx.count('wire.async_transport_default_accept_encoding')   # aiohttp advertises (and decodes) its own codings
            ex_txt = None if exc is None else repr(exc)[:300]
            if plan['kind'] == 'valid':
                coded = desc['coding'] is not None
                ctx.count(f'wire.response.{"coded" if coded else "identity"}.{kind_cls}')
                if coded:
                    ctx.count(f'wire.response.coded.{kind_cls}.{desc["coding"]}')
                if exc is not None:
                    if coded:
                        ctx.witness(f'client.coded_response_rejected.{kind_cls}',
                                    f'{client}: valid response in the coding {desc["coding"]!r} that the client advertised ({adv!r}) was not decoded: '
                                    f'{type(exc).__name__}', {**info, 'ex': ex_txt})
                    else:
                        ctx.witness('client.valid_exchange_failed', f'client raised {type(exc).__name__} in an exchange of valid messages', {**info, 'ex': ex_txt})
                elif (got or b'') != resp_body:
                    ctx.witness(f'roundtrip.wire_response.{kind_cls}', 'client did not return the body the peer sent',
                                {**info, 'got_head': None if got is None else got[:60], 'want_head': resp_body[:60]})
                else:
                    ctx.count(f'wire.response.returned_intact.{kind_cls}')
            else:
                ctx.count(f'wire.hostile.{plan["kind"]}.{kind_cls}')
                if exc is not None:
                    ctx.count(f'wire.hostile.rejected.{kind_cls}')
                elif got in allowed:
                    ctx.count(f'wire.hostile.original_recovered.{kind_cls}')
                else:
                    key = {'unsupported': 'coding.unsupported_accepted', 'repeated': 'coding.repeated_header_first_only',
                           'corrupt': 'coding.corrupt_accepted'}[plan['kind']] + f'.{kind_cls}_client'
                    ctx.witness(key, f'{client}: response in an unsupported / corrupt coding ({desc}) was returned as if decoded',
                                {**info, 'got_head': None if got is None else got[:60], 'body_head': resp_body[:60]})
            shape = ('wire', client, tuple(supported), bool(cs), req.header('content-encoding'), plan['kind'],
                     tuple(sorted((k, str(v)) for k, v in (desc or {}).items() if k != 'encoder')), exc is None, _size_class(len(resp_body)))
            ctx.case(shape)
            if sess < 2 and idx == 0:
                ctx.sample({'sub': 'wire', **info, 'request_head': req.raw_head[:300], 'returned': exc is None})
            if plan['kind'] != 'valid' or exc is not None:
                break       # the state of a client after a rejected response is not part of the property
        try:
            if kind_cls == 'async':
                loop.run_until_complete(cl.async_close())
            else:
                cl.close()
        except Exception:  # noqa: BLE001
            pass
        if ctx.inconclusive:
            break
    peer.stop()
    if arg['i'] == 0 and not ctx.inconclusive:
        _wire_real_server(ctx, rng, loop, registered)
    loop.close()


def _wire_real_server(ctx, rng, loop, registered):
    """both ends are the library: real HttpServerThreadBase (echo component) <- TCP -> real clients; every combination of what the
    server has enabled and what the client has enabled must deliver the message and its echo intact."""
    import logging
    from sdc11073.definitions_sdc import SdcV1Definitions
    from sdc11073.httpserver.httpserverimpl import HttpServerThreadBase
    from sdc11073.pysoap.soapclient import SoapClient
    from sdc11073.pysoap.soapclient_async import SoapClientAsync
    from .. import c17_aio as A
    sent_codings = []
    for srv_enabled, srv_chunk in ((list(registered), 0), (list(reversed(registered)), 7), (['x-lz4'], 4096), (['lz4', 'gzip'], 0)):
        echo = Echo()
        echo.get_body = b''
        srv = HttpServerThreadBase('127.0.0.1', None, srv_enabled, logging.getLogger('c17.null'), chunk_size=srv_chunk)
        srv.start()
        if not srv.started_evt.wait(A.WATCHDOG_S):
            ctx.not_decided('real http server thread did not start')
            return
        base = srv.httpd.RequestHandlerClass

        class Probe(base):
            def send_header(self, keyword, value):
                if keyword.lower() == 'content-encoding':
                    sent_codings.append(value)
                super().send_header(keyword, value)
        srv.httpd.RequestHandlerClass = Probe
        srv.dispatcher.register_instance('echo', echo)
        netloc = f'127.0.0.1:{srv.server_port}'
        try:
            for supported in [[c] for c in registered] + ([] if srv_chunk else [list(registered)]):
                for client in ('async.post', 'sync.post', 'sync.get'):
                    kind_cls = client.split('.')[0]
                    cs = rng.choice([0, 5, 512])
                    body, bkind = A.xml_body(rng, rng.choice([0, 40, 3000, 70000]))
                    echo.get_body = body
                    echo.seen.clear()
                    del sent_codings[:]
                    info = {'client': client, 'client_enabled': supported, 'server_enabled': srv_enabled, 'server_chunk': srv_chunk, 'chunk_size': cs,
                            'len': len(body), 'kind': bkind}
                    cls = SoapClientAsync if kind_cls == 'async' else SoapClient
                    cl = cls(netloc, A.WATCHDOG_S, L.NullLogger(), None, SdcV1Definitions, A.XmlReader(), supported, [], cs)
                    got, exc = None, None
                    try:
                        if client == 'async.post':
                            r = loop.run_until_complete(cl.async_post_message_to('/echo', A.Created(body)))
                            got = None if r is None else r.data
                        elif client == 'sync.post':
                            r = cl.post_message_to('/echo', A.Created(body), 'c17')
                            got = None if r is None else r.data
                        else:
                            got = cl.get_from_url('/echo/?wsdl', 'c17')
                    except Exception as ex:  # noqa: BLE001
                        exc = ex
                    finally:
                        try:
                            if kind_cls == 'async':
                                loop.run_until_complete(cl.async_close())
                            else:
                                cl.close()
                        except Exception:  # noqa: BLE001
                            pass
                    if exc is not None and _is_watchdog(exc):
                        ctx.not_decided(f'wire rig (real server): watchdog {exc!r}')
                        return
                    ctx.count(f'wire.real_server.exchanges.{kind_cls}')
                    coding = sent_codings[0] if sent_codings else None
                    info['response_coding'] = coding
                    if coding is not None:
                        ctx.count(f'wire.real_server.response_coded.{kind_cls}')
                        judge_choice(ctx, 'response', ','.join(supported), coding, srv_enabled, info)
                    if client != 'sync.get' and echo.seen != [body]:
                        ctx.witness('roundtrip.l2_request', 'component received something else than the body that was sent',
                                    {**info, 'seen': [None if s is None else len(s) for s in echo.seen]})
                    if exc is not None:
                        if coding is not None:
                            ctx.witness(f'client.coded_response_rejected.{kind_cls}',
                                        f'{client}: the library\'s own server answered in {coding!r} (advertised by the client: {supported}); the client '
                                        f'did not decode it: {type(exc).__name__}', {**info, 'ex': repr(exc)[:300]})
                        else:
                            ctx.witness('client.valid_exchange_failed', f'client raised {type(exc).__name__} in an exchange of valid messages',
                                        {**info, 'ex': repr(exc)[:300]})
                    elif (got or b'') != body:
                        ctx.witness(f'roundtrip.wire_response.{kind_cls}', 'client did not return the body the server sent',
                                    {**info, 'got_head': None if got is None else got[:60]})
                    ctx.case(('wire.real', client, tuple(supported), tuple(srv_enabled), bool(srv_chunk), bool(cs), coding, exc is None))
        finally:
            srv.stop()


def run(ctx: core.Ctx):
    ctx.rule = ('codec: (coding, chunk size, body length, body kind) through mk_chunks/compress_payload and the three readers; reject: '
                '(unknown token | registered coding x stream mutation) x path; l2: real request handler with an echo component, '
                'case = (method, parsed shape of Accept-Encoding, locally enabled set, request/response framing, request coding, verdict); '
                'clients: real SoapClient/SoapClientAsync against it; notify: Subscribe with header H at a real provider, coding of the '
                'notification it then sends (sync + async managers, 4 set_used_compression settings; then live subscriptions while '
                'set_used_compression changes; providers with and without chunking); wiring: set_used_compression on real internal http '
                'servers; wire: SoapClientAsync on the real aiohttp / SoapClient on the real http.client over loop-back TCP against a scripted '
                'peer (case = client kind, enabled codings, request framing + coding, kind of response: valid in an advertised coding | '
                'unsupported token | repeated header | corrupt stream, framing of the response, outcome) and against the real http server; '
                'repeated_header: body coded twice, Content-Encoding in two lines or one.  distinct = hash of that shape; non-trivial = every '
                'case (empty bodies included on purpose)')
    q = ctx.quick
    jobs = []
    for i in range(6 if q else 16):
        jobs.append(['w_codec', {'i': i, 'n': 330 if q else 7000, 'big': (not q and i % 2 == 1) or i == 1}])
    for i in range(2 if q else 8):
        jobs.append(['w_reject', {'i': i, 'n': 400 if q else 6000}])
    for i in range(4 if q else 14):
        jobs.append(['w_l2', {'i': i, 'n': 220 if q else 5000, 'big': not q and i % 4 == 0}])
    for i in range(2 if q else 6):
        jobs.append(['w_clients', {'i': i, 'n': 120 if q else 4000}])
    for mode in ('sync', 'async'):
        for i in range(1 if q else 2):
            jobs.append(['w_notify', {'mode': mode, 'i': i, 'n': 20 if q else 400}])
    # providers that chunk their notifications (chunk size 1 in thorough: every byte its own chunk)
    jobs.append(['w_notify', {'mode': 'sync', 'i': 10, 'n': 20 if q else 200, 'chunk': 13}])
    if not q:
        jobs.append(['w_notify', {'mode': 'async', 'i': 10, 'n': 200, 'chunk': 512}])
        jobs.append(['w_notify', {'mode': 'sync', 'i': 11, 'n': 100, 'chunk': 1}])
    for i in range(3 if q else 8):
        jobs.append(['w_wire', {'i': i, 'n': 60 if q else 3000, 'big': not q}])
    jobs.append(['w_wiring', {}])
    core.fanout(ctx, MODULE, 'dispatch', jobs)
    ctx.floor('wire.requests.async.post', 40)
    ctx.floor('wire.requests.sync.post', 25)
    ctx.floor('wire.requests.sync.get', 25)
    ctx.floor('wire.requests_chunked.async.post', 5)
    ctx.floor('wire.response.coded.async', 25)
    ctx.floor('wire.response.coded.sync', 30)
    ctx.floor('wire.response.coded.async.gzip', 4)
    ctx.floor('wire.response.coded.async.x-lz4', 2)
    ctx.floor('wire.response.coded.async.lz4', 2)
    ctx.floor('wire.hostile.unsupported.async', 3)
    ctx.floor('wire.hostile.unsupported.sync', 6)
    ctx.floor('wire.hostile.corrupt.sync', 6)
    ctx.floor('wire.real_server.exchanges.async', 10)
    ctx.floor('wire.real_server.response_coded.async', 6)
    ctx.floor('repeated_header.request.cases', 100)
    ctx.floor('reject.repeated_header.request.cases', 30)
    ctx.floor('framing.length_headers_checked.response', 800)
    ctx.floor('notify.sync.live_notifications', 60)
    ctx.floor('notify.async.live_notifications', 30)
    ctx.floor('notify.sync.notifications_chunked', 60)
    ctx.floor('codec.mk_chunks', 1500)
    ctx.floor('codec.request_path.chunked.mk_chunks', 1500)
    ctx.floor('codec.response_path.chunked', 1500)
    ctx.floor('reject.corrupt.cases', 300)
    ctx.floor('reject.unsupported.cases', 150)
    ctx.floor('l2.requests.POST', 500)
    ctx.floor('l2.response.chunked', 100)
    ctx.floor('negotiation.response.coded_sent', 100)
    ctx.floor('negotiation.response.identity_sent', 100)
    ctx.floor('clients.exchanges.sync', 80)
    ctx.floor('clients.exchanges.async', 40)
    ctx.floor('notify.sync.notifications', 40)
    ctx.floor('notify.async.notifications', 40)
    ctx.floor('wiring.provider.requests', 20)
    ctx.floor('wiring.consumer.requests', 20)
    ctx.extra['observation_async_manager'] = (
        f'async subscription manager: {ctx.counters.get("notify.async.notifications_coded", 0)} of {ctx.counters.get("notify.async.notifications", 0)} '
        'notifications were content-coded (it hands the raw Accept-Encoding string to the soap client, which iterates it character by '
        'character and therefore never finds a coding): no unacceptable coding is sent, so this is not a C17 violation')
    ctx.assumptions += [
        'peer model: the sender half-closes after its bytes (reads at the end return EOF); sockets are in-memory fakes built on io.BufferedReader',
        'Accept-Encoding values that are not valid per RFC 7231 5.3.4 (broken q-value, other parameters, contradictory duplicates) have no defined '
        'meaning: the chosen coding is recorded, not judged; an absent header is judged as "nothing declared acceptable"',
        'a corrupt stream counts as misinterpreted only if the independent decoder rejects it and the library returns bytes different from the original',
        'clients/notify sub-checks: aiohttp is replaced by a fake session that renders the request as HTTP/1.1 bytes (the async client code '
        'itself is real); wire sub-check: real aiohttp and real http.client over loop-back TCP (needs 127.0.0.1 sockets; socket time-outs are '
        'watchdogs only and make the run inconclusive)',
        'repeated Content-Encoding header lines are the comma separated list (RFC 7230 3.2.2), i.e. a body coded several times; a coding token the '
        'transport itself knows case-insensitively (aiohttp: GZIP, deflate) and decodes correctly does not count as misinterpreted',
        'a message that carries Transfer-Encoding: chunked together with Content-Length is not valid HTTP/1.1 framing (RFC 7230 3.3.2 sender MUST NOT)',
    ]


def dispatch(ctx: core.Ctx, job):
    globals()[job[0]](ctx, job[1])
